#!/bin/bash
# tools/run_all.sh [tier] [jobs]  run every registered check, print the result lines
tier=${1:-quick}; jobs=${2:-4}
cd /verif
python3 -c "import json;[print(c['property_id']) for c in json.load(open('MANIFEST.json'))['checks']]" | \
  xargs -P $jobs -I{} sh -c "./check {} $tier > /tmp/runall_{}.log 2>&1; echo \"{} rc=\$? \$(grep -E '^(VIOLATION|KNOWN-FINDING)' /tmp/runall_{}.log | cut -c1-150 | tr '\n' ';') \$(tail -1 /tmp/runall_{}.log | cut -c1-200)\""
