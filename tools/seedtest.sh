#!/bin/bash
# tools/seedtest.sh <seed-dir> [props...]   apply seeded/<id>/patch.diff to /repo, run the quick checks, undo.
# prints one line per check: <seed> <prop> rc=<rc> <VIOLATION line if any>
d="$1"; shift
props="$@"
[ -z "$props" ] && props=$(python3 -c "import json,sys;print(json.load(open('$d/meta.json'))['property'])")
cd /verif
if ! git -C /repo diff --quiet; then echo "repo dirty, abort"; exit 2; fi
git -C /repo apply "$d/patch.diff" || { echo "$d: patch does not apply"; exit 2; }
for p in $props; do
  out=$(./check $p quick 2>&1); rc=$?
  echo "$(basename $(dirname $d))/$(basename $d) $p rc=$rc $(echo "$out" | grep -E '^VIOLATION' | head -1)"
done
git -C /repo checkout -- .
