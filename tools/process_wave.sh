#!/bin/bash
# tools/process_wave.sh <wave-dir> <Cxx> <suffixes e.g. "j k l">   confirm and keep the three seeds a,b,c of one property
w="$1"; k="$2"; set -- $3
cd /verif
for s in a b c; do
  n="$k-$1"; shift
  d="$w/$k/$s"
  [ -f "$d/patch.diff" ] || { echo "$n: no patch"; continue; }
  tools/confirm_seed.sh "$d" > "$d.confirm.log" 2>&1
  if grep -q '"confirmed": "yes"' "$d/confirm.json" 2>/dev/null; then
    python3 tools/keep_seed.py "$d" "$n" 2>&1 | tail -1
  else
    echo "$n: NOT CONFIRMED $(cat $d/confirm.json 2>/dev/null)"
  fi
done
