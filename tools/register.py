#!/usr/bin/env python3
"""tools/register.py Cxx --text "...", --note "...", --tech "..." [--modules Pun.Props.C15 ...]
adds/replaces the MANIFEST check entry, removes the property from not_applicable, adds module imports to lean/Pun.lean"""
import json, sys, argparse, pathlib
V = pathlib.Path(__file__).resolve().parents[1]
ap = argparse.ArgumentParser()
ap.add_argument("pid"); ap.add_argument("--text", required=True); ap.add_argument("--note", required=True)
ap.add_argument("--tech", required=True); ap.add_argument("--modules", nargs="*", default=[])
a = ap.parse_args()
m = json.load(open(V / "MANIFEST.json"))
e = {"property_id": a.pid, "quick_cmd": f"./check {a.pid} quick", "thorough_cmd": f"./check {a.pid} thorough",
     "evidence_file": f"evidence/{a.pid}.json", "replay_cmd_template": f"./check {a.pid} --replay {{path}}", "engine": "lean-pun",
     "level_claimed": {"category": "proof", "text": a.text, "design_ref": f"DESIGN.md §5 {a.pid}"}, "level_note": a.note, "technique": a.tech}
m["checks"] = sorted([c for c in m["checks"] if c["property_id"] != a.pid] + [e], key=lambda c: c["property_id"])
m["not_applicable"] = [x for x in m.get("not_applicable", []) if x["property_id"] != a.pid]
json.dump(m, open(V / "MANIFEST.json", "w"), indent=1)
p = V / "lean/Pun.lean"
s = p.read_text()
for mod in a.modules:
    line = f"import {mod}\n"
    if line not in s:
        s = s.replace("import Pun.Drv.C01\n", line + "import Pun.Drv.C01\n")
p.write_text(s)
print("registered", a.pid)
