#!/usr/bin/env python3
"""regenerate the generated blocks of DESIGN.md (between <!-- BEGIN:x --> and <!-- END:x -->) from
known_findings.json, seeded/*/meta.json, evidence/*.json and /repo's git log"""
import json, glob, pathlib, subprocess, re
V = pathlib.Path(__file__).resolve().parents[1]
def block(name, text, s):
    a, b = f"<!-- BEGIN:{name} -->", f"<!-- END:{name} -->"
    i, j = s.index(a) + len(a), s.index(b)
    return s[:i] + "\n" + text.rstrip() + "\n" + s[j:]
s = (V / "DESIGN.md").read_text()
# fixes
log = subprocess.run(["git", "-C", "/repo", "log", "--reverse", "--format=%h\t%s", "45ba02a..HEAD"], capture_output=True, text=True).stdout.strip().splitlines()
kf = json.load(open(V / "known_findings.json"))["findings"]
by_commit = {}
for f in kf:
    if f["status"] == "fixed":
        by_commit.setdefault(f.get("commit"), []).append(f)
rows = ["| # | commit | property | repair (commit subject) |", "|---|---|---|---|"]
for n, l in enumerate(log, 1):
    h, subj = l.split("\t", 1)
    props = sorted({f["property"] for f in by_commit.get(h, [])})
    rows.append(f"| {n} | `{h}` | {', '.join(props) or '—'} | {subj.replace('|', '/')[:230]} |")
s = block("fixes", "\n".join(rows), s)
rows = ["| id | property | call / failing input | what fails | why not repaired |", "|---|---|---|---|---|"]
for f in kf:
    if f["status"] == "open":
        rows.append(f"| `{f['id']}` | {f['property']} | {str(f.get('call',''))[:120]} ; witness `{json.dumps(f.get('witness'))[:140]}` | {f['symptom'][:260].replace('|','/')} | {f.get('why_open','see §5 ' + f['property'])} |")
s = block("open", "\n".join(rows), s)
# seeds
rows = ["| seed | property | what it changes | needs to manifest | detected by | how | at current HEAD |", "|---|---|---|---|---|---|---|"]
det = tot = now = 0
for f in sorted(glob.glob(str(V / "seeded/*/meta.json"))):
    m = json.load(open(f)); name = pathlib.Path(f).parent.name
    tot += 1; det += bool(m["detected"])
    hits = [r for r in m["checks_run_with_patch_applied"] if r["rc"] == 1]
    by = ", ".join(r["check"].split()[1] for r in hits) or "MISSED"
    how = "; ".join(sorted({(r["finding"] or {}).get("kind", "?") for r in hits}))
    rv = m.get("revalidated") or {}
    if rv.get("detected"):
        now += 1
        cur = "detected (" + ", ".join(r["check"].split()[1] for r in rv["checks"] if r["rc"] == 1) + ("; patch rebased" if rv.get("patch") != "applies" or "rebased" in (m.get("note") or "") else "") + ")"
    elif rv:
        cur = "no longer a defect: " + (m.get("note") or "?")[:110]
    else:
        cur = "-"
    rows.append(f"| `{name}` | {m['property']} | {(m.get('summary') or '')[:170].replace('|','/')} | {(m.get('needs_to_manifest') or '')[:150].replace('|','/')} | {by} | {how} | {cur} |")
rows.append(f"\n{det} of {tot} seeded changes were reported by a quick check when they were kept; `tools/revalidate_seeds.py` re-ran all of them against the "
            f"current /repo HEAD and the current checks: {now} are reported, the other {tot - now} are no longer defects of the current tree (see their `note`).")
s = block("seeds", "\n".join(rows), s)
# status
rows = ["| property | theorems audited (obligations = discharged) | evaluations (quick) | distinct non-trivial | tie comparisons | wall (s) |", "|---|---|---|---|---|---|"]
for i in range(1, 21):
    pid = f"C{i:02d}"; f = V / "evidence" / f"{pid}.json"
    if f.exists():
        e = json.load(open(f)); c = e["coverage"]
        rows.append(f"| {pid} | {c.get('obligations')} = {c.get('discharged')} | {c.get('evaluations')} ({e['tier']}) | {c.get('distinct_nontrivial')} | {c.get('traces_validated_against_impl')} | {e['wall_s']} |")
s = block("status", "\n".join(rows), s)
(V / "DESIGN.md").write_text(s)
print("DESIGN.md tables regenerated:", len(log), "fix commits,", sum(f['status']=='open' for f in kf), "open findings,", tot, "seeds")
