#!/bin/bash
# tools/confirm_seed.sh <seed-dir>   confirm a seeded change in a scratch worktree of /repo:
#  demo passes on the clean tree, fails with the patch, and the repo's test suite still passes with the patch.
d="$(realpath "$1")"; tag=$(echo "$d" | tr '/' '_')
wt=/tmp/confirm/$tag
mkdir -p /tmp/confirm; rm -rf "$wt"; git -C /repo worktree prune
git -C /repo worktree add -q --detach "$wt" HEAD || exit 2
cd "$wt"
PYTHONPATH=$wt/src /venv/bin/python "$d/demo.py" >/dev/null 2>&1; clean_rc=$?
if ! git apply "$d/patch.diff" 2>/dev/null; then echo "$d: PATCH DOES NOT APPLY"; git -C /repo worktree remove --force "$wt"; exit 1; fi
PYTHONPATH=$wt/src /venv/bin/python "$d/demo.py" >/dev/null 2>&1; mut_rc=$?
tests=$(PYTHONPATH=$wt/src /venv/bin/python -m pytest -q -p no:cacheprovider --timeout=900 2>&1 | grep -E "passed|failed|error" | tail -1)
cd /; git -C /repo worktree remove --force "$wt"
ok=no; [ "$clean_rc" = 0 ] && [ "$mut_rc" != 0 ] && echo "$tests" | grep -q "44 passed" && ! echo "$tests" | grep -q failed && ok=yes
echo "{\"seed\": \"$d\", \"demo_clean_rc\": $clean_rc, \"demo_mutated_rc\": $mut_rc, \"tests\": \"$tests\", \"repo_head\": \"$(git -C /repo rev-parse --short HEAD)\", \"confirmed\": \"$ok\"}" | tee "$d/confirm.json"
