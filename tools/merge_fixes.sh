#!/bin/bash
# tools/merge_fixes.sh <worktree>  : cherry-pick the worktree's fix: commits (not yet in /repo main) into /repo and
# rewrite their short shas in known_findings.json to the new shas.
wt="$1"
base=$(git -C /repo merge-base main "$(git -C "$wt" rev-parse HEAD)")
for c in $(git -C "$wt" rev-list --reverse "$base"..HEAD); do
  subj=$(git -C "$wt" log -1 --format=%s "$c")
  if git -C /repo log --format=%s main | grep -qxF "$subj"; then echo "already merged: $subj"; continue; fi
  case "$subj" in fix:*) ;; *) echo "SKIP non-fix commit: $subj"; continue;; esac
  git -C /repo cherry-pick "$c" >/dev/null 2>&1 || { echo "CONFLICT cherry-picking $c ($subj)"; git -C /repo cherry-pick --abort; exit 1; }
  new=$(git -C /repo rev-parse --short HEAD); old=$(git -C "$wt" rev-parse --short "$c")
  sed -i "s/$old/$new/g" /verif/known_findings.json
  echo "merged $old -> $new  $subj"
done
