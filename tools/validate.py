#!/usr/bin/env python3
"""validate MANIFEST.json and every evidence file against the schemas in /root/.vp (run with python3-vt)"""
import json, sys, pathlib
import jsonschema
V = pathlib.Path(__file__).resolve().parents[1]
S = pathlib.Path("/root/.vp")
ok = True
m = json.load(open(V / "MANIFEST.json"))
try:
    jsonschema.validate(m, json.load(open(S / "MANIFEST.schema.json")))
    print("MANIFEST.json: valid;", len(m["checks"]), "checks,", len(m.get("not_applicable", [])), "not_applicable")
except Exception as e:
    ok = False; print("MANIFEST.json INVALID:", str(e)[:300])
ids = {json.loads(l)["id"] for l in open(V / "properties.jsonl")}
claimed = {c["property_id"] for c in m["checks"]}
na = {x["property_id"] for x in m.get("not_applicable", [])}
if claimed & na: ok = False; print("both claimed and not_applicable:", claimed & na)
if ids - claimed - na: ok = False; print("neither claimed nor not_applicable:", sorted(ids - claimed - na))
es = json.load(open(S / "EVIDENCE.schema.json"))
for c in m["checks"]:
    f = V / c["evidence_file"]
    if not f.exists():
        print(c["property_id"], "evidence missing"); ok = False; continue
    try:
        ev = json.load(open(f)); jsonschema.validate(ev, es)
        cov = ev["coverage"]
        if ev["level"] == "proof" and cov.get("obligations") != cov.get("discharged"):
            print(c["property_id"], "obligations != discharged"); ok = False
        print(f"{c['property_id']}: evidence valid  tier={ev['tier']} obligations={cov.get('obligations')} evals={cov.get('evaluations')} distinct={cov.get('distinct_nontrivial')} wall={ev['wall_s']}")
    except Exception as e:
        ok = False; print(c["property_id"], "evidence INVALID:", str(e)[:300])
sys.exit(0 if ok else 1)
