#!/usr/bin/env python3
"""tools/keep_seed.py <seed-dir> <name> [props...]
runs the quick check(s) with the seeded patch applied to /repo (then undoes it), and stores
seeded/<name>/{patch.diff, demo.py, meta.json}.  Requires <seed-dir>/confirm.json (tools/confirm_seed.sh)."""
import json, sys, subprocess, pathlib, shutil, re
V = pathlib.Path(__file__).resolve().parents[1]
d = pathlib.Path(sys.argv[1]); name = sys.argv[2]
meta = json.load(open(d / "meta.json"))
conf = json.load(open(d / "confirm.json")) if (d / "confirm.json").exists() else None
props = sys.argv[3:] or [meta["property"]]
if subprocess.run(["git", "-C", "/repo", "diff", "--quiet"]).returncode != 0:
    sys.exit("repo dirty")
if subprocess.run(["git", "-C", "/repo", "apply", str(d / "patch.diff")]).returncode != 0:
    sys.exit("patch does not apply")
results = []
try:
    for p in props:
        r = subprocess.run(["./check", p, "quick"], cwd=V, capture_output=True, text=True)
        vio = [l for l in r.stdout.splitlines() if l.startswith("VIOLATION")]
        what = None
        if vio:
            m = re.search(r"replay=(\S+)", vio[0])
            if m and (V / m.group(1)).exists():
                rp = json.load(open(V / m.group(1)))
                what = {"kind": rp.get("kind"), "what": (rp.get("what") or str(rp.get("theorems_or_modules_no_longer_checking")))[:300]}
        results.append({"check": f"./check {p} quick", "rc": r.returncode, "violation_line": vio[0] if vio else None, "finding": what,
                        "summary": r.stdout.strip().splitlines()[-1] if r.stdout.strip() else ""})
finally:
    subprocess.run(["git", "-C", "/repo", "checkout", "--", "."])
out = V / "seeded" / name
out.mkdir(parents=True, exist_ok=True)
shutil.copy(d / "patch.diff", out / "patch.diff"); shutil.copy(d / "demo.py", out / "demo.py")
json.dump({"property": meta["property"], "summary": meta.get("summary"), "needs_to_manifest": meta.get("needs_to_manifest"),
           "files": meta.get("files"), "seeder_ran": meta.get("ran"), "confirmation": conf,
           "checks_run_with_patch_applied": results,
           "detected": any(r["rc"] == 1 for r in results)}, open(out / "meta.json", "w"), indent=1)
print(name, "detected" if any(r["rc"] == 1 for r in results) else "MISSED", [(r["check"], r["rc"], (r["finding"] or {}).get("kind")) for r in results])
