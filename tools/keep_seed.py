#!/usr/bin/env python3
"""tools/keep_seed.py <seed-dir> <name> [props...]
runs the quick check(s) with the seeded patch applied to /repo (then undoes it), and stores
seeded/<name>/{patch.diff, demo.py, meta.json}.  Requires <seed-dir>/confirm.json (tools/confirm_seed.sh)."""
import json, sys, subprocess, pathlib, shutil, re
V = pathlib.Path(__file__).resolve().parents[1]
d = pathlib.Path(sys.argv[1]); name = sys.argv[2]
meta = json.load(open(d / "meta.json"))
conf = json.load(open(d / "confirm.json")) if (d / "confirm.json").exists() else None
props = sys.argv[3:] or [meta["property"]]
# Run against a scratch worktree of /repo's HEAD with the patch applied (VERIF_REPO), so that other work going on
# against /repo is not disturbed.  Equivalent to `git -C /repo apply` + check + `git -C /repo checkout -- .`
# (tools/seedtest.sh does exactly that on /repo itself).
import os, tempfile
wt = f"/tmp/seedrun/{name}"
subprocess.run(["git", "-C", "/repo", "worktree", "prune"])
subprocess.run(["rm", "-rf", wt])
os.makedirs("/tmp/seedrun", exist_ok=True)
if subprocess.run(["git", "-C", "/repo", "worktree", "add", "-q", "--detach", wt, "HEAD"]).returncode != 0:
    sys.exit("cannot create scratch worktree")
# seeds that touch a file read by a translator regenerate lean/Pun/Gen: they take the lock exclusively,
# every other seed run shares it, so concurrent keep_seed runs never see each other's generated files
import fcntl
TRANSLATED = ("intervals/arithmetic.py", "pba/params.py", "pba/pbox_free.py", "calibration/tmcmc.py",
              "nlp/language_parsing.py", "intervals/methods.py", "pba/pbox_abc.py", "pba/utils.py")
_lk = open("/tmp/seedrun/.lock", "w")
fcntl.flock(_lk, fcntl.LOCK_EX if any(t in (d / "patch.diff").read_text() for t in TRANSLATED) else fcntl.LOCK_SH)
results = []
try:
    if subprocess.run(["git", "-C", wt, "apply", str(d / "patch.diff")]).returncode != 0:
        sys.exit("patch does not apply")
    env = dict(os.environ, VERIF_REPO=wt)
    saved = {p: (V / "evidence" / f"{p}.json").read_text() for p in props if (V / "evidence" / f"{p}.json").exists()}
    for p in props:
        r = subprocess.run(["./check", p, "quick"], cwd=V, capture_output=True, text=True, env=env)
        vio = [l for l in r.stdout.splitlines() if l.startswith("VIOLATION")]
        what = None
        if vio:
            m = re.search(r"replay=(\S+)", vio[0])
            if m and (V / m.group(1)).exists():
                rp = json.load(open(V / m.group(1)))
                what = {"kind": rp.get("kind"), "what": (rp.get("what") or str(rp.get("theorems_or_modules_no_longer_checking")))[:300]}
        results.append({"check": f"./check {p} quick", "rc": r.returncode, "violation_line": vio[0] if vio else None, "finding": what,
                        "summary": r.stdout.strip().splitlines()[-1] if r.stdout.strip() else ""})
finally:
    for p, txt in locals().get("saved", {}).items():      # evidence belongs to runs on the unchanged tree
        (V / "evidence" / f"{p}.json").write_text(txt)
    subprocess.run(["git", "-C", "/repo", "worktree", "remove", "--force", wt])
    # the Gen files were regenerated from the patched tree: restore them from /repo
    subprocess.run(["/venv/bin/python", str(V / "harness/pv/gen_all.py")], capture_output=True)
out = V / "seeded" / name
out.mkdir(parents=True, exist_ok=True)
shutil.copy(d / "patch.diff", out / "patch.diff"); shutil.copy(d / "demo.py", out / "demo.py")
json.dump({"property": meta["property"], "summary": meta.get("summary"), "needs_to_manifest": meta.get("needs_to_manifest"),
           "files": meta.get("files"), "seeder_ran": meta.get("ran"), "confirmation": conf,
           "checks_run_with_patch_applied": results,
           "detected": any(r["rc"] == 1 for r in results)}, open(out / "meta.json", "w"), indent=1)
print(name, "detected" if any(r["rc"] == 1 for r in results) else "MISSED", [(r["check"], r["rc"], (r["finding"] or {}).get("kind")) for r in results])
