#!/usr/bin/env python3
"""tools/revalidate_seeds.py [jobs] [name-glob]
Re-runs every kept seeded change against the CURRENT /repo HEAD and the current checks:
for each seeded/<id>/ a scratch worktree of HEAD is created (outside /repo and /verif), patch.diff is applied
(`git apply`, falling back to `git apply --3way` / `patch --fuzz=3`; when a fallback was needed the rebased
diff replaces patch.diff and the original is kept as patch.orig.diff), the quick check(s) that detected it are run
with VERIF_REPO pointing at the worktree, the worktree is removed, and meta.json gets a `revalidated` block.
Seeds whose patch touches a file that a translator reads regenerate lean/Pun/Gen and therefore run one at a time;
the others run `jobs` at a time.  Evidence files (which belong to runs on the unchanged tree) are restored."""
import json, sys, subprocess, pathlib, os, re, shutil, fnmatch, time
from concurrent.futures import ThreadPoolExecutor
V = pathlib.Path(__file__).resolve().parents[1]
jobs = int(sys.argv[1]) if len(sys.argv) > 1 else 4
glob = sys.argv[2] if len(sys.argv) > 2 else "*"
TRANSLATED = ("intervals/arithmetic.py", "pba/params.py", "pba/pbox_free.py", "calibration/tmcmc.py",
              "nlp/language_parsing.py", "intervals/methods.py")
HEAD = subprocess.run(["git", "-C", "/repo", "rev-parse", "--short", "HEAD"], capture_output=True, text=True).stdout.strip()
WT = pathlib.Path("/tmp/seedreval")
WT.mkdir(exist_ok=True)


def props_of(meta):
    ps = []
    for r in meta.get("checks_run_with_patch_applied", []):
        m = re.match(r"\./check (C\d\d) quick", r["check"])
        if m and r["rc"] == 1 and m.group(1) not in ps:
            ps.append(m.group(1))
    return ps or [meta["property"]]


def one(d: pathlib.Path):
    name = d.name
    meta = json.load(open(d / "meta.json"))
    wt = WT / name
    subprocess.run(["rm", "-rf", str(wt)])
    if subprocess.run(["git", "-C", "/repo", "worktree", "add", "-q", "--detach", str(wt), "HEAD"], capture_output=True).returncode:
        return name, "infra", "worktree"
    how = "applies"
    try:
        pd = str(d / "patch.diff")
        if subprocess.run(["git", "-C", str(wt), "apply", pd], capture_output=True).returncode:
            how = "3way"
            if subprocess.run(["git", "-C", str(wt), "apply", "--3way", pd], capture_output=True).returncode:
                subprocess.run(["git", "-C", str(wt), "reset", "-q", "--hard"], capture_output=True)   # drop conflict markers
                how = "fuzz"
                if subprocess.run(["patch", "-p1", "--fuzz=3", "-s", "-i", pd], cwd=wt, capture_output=True).returncode:
                    meta["revalidated"] = {"head": HEAD, "patch": "does-not-apply"}
                    json.dump(meta, open(d / "meta.json", "w"), indent=1)
                    return name, "NOAPPLY", ""
            for junk in list(wt.rglob("*.orig")) + list(wt.rglob("*.rej")):
                junk.unlink()
            subprocess.run(["git", "-C", str(wt), "reset", "-q"], capture_output=True)
            new = subprocess.run(["git", "-C", str(wt), "diff"], capture_output=True, text=True).stdout
            if not (d / "patch.orig.diff").exists():
                shutil.copy(d / "patch.diff", d / "patch.orig.diff")
            (d / "patch.diff").write_text(new)
        res = []
        for p in props_of(meta):
            r = subprocess.run(["./check", p, "quick"], cwd=V, capture_output=True, text=True, env=dict(os.environ, VERIF_REPO=str(wt)))
            vio = [l for l in r.stdout.splitlines() if l.startswith("VIOLATION")]
            res.append({"check": f"./check {p} quick", "rc": r.returncode, "violation_line": vio[0] if vio else None,
                        "summary": r.stdout.strip().splitlines()[-1] if r.stdout.strip() else r.stderr[-300:]})
        det = any(r["rc"] == 1 for r in res)
        meta["revalidated"] = {"head": HEAD, "patch": how, "checks": res, "detected": det}
        json.dump(meta, open(d / "meta.json", "w"), indent=1)
        return name, "detected" if det else "MISSED", " ".join(f"{r['check'].split()[1]}:{r['rc']}" for r in res)
    finally:
        subprocess.run(["git", "-C", "/repo", "worktree", "remove", "--force", str(wt)], capture_output=True)


seeds = sorted(d for d in (V / "seeded").iterdir() if (d / "patch.diff").exists() and fnmatch.fnmatch(d.name, glob))
serial = [d for d in seeds if any(t in (d / "patch.diff").read_text() for t in TRANSLATED)]
par = [d for d in seeds if d not in serial]
saved = {f.name: f.read_text() for f in (V / "evidence").glob("C*.json")}
t0 = time.time()
out = []
try:
    with ThreadPoolExecutor(jobs) as ex:
        for r in ex.map(one, par):
            print(*r, flush=True); out.append(r)
    for d in serial:
        r = one(d); print(*r, "(serial)", flush=True); out.append(r)
finally:
    for n, t in saved.items():
        (V / "evidence" / n).write_text(t)
    subprocess.run(["git", "-C", "/repo", "worktree", "prune"])
    subprocess.run(["/venv/bin/python", str(V / "harness/pv/gen_all.py")], capture_output=True, cwd=V / "lean")
bad = [r for r in out if r[1] != "detected"]
print(f"{len(out)} seeds at HEAD {HEAD}: {len(out) - len(bad)} detected, not detected: {[(r[0], r[1]) for r in bad]}  ({time.time() - t0:.0f}s)")
