"""entry point:  python -m pv.main Cxx quick|thorough   |   python -m pv.main Cxx --replay <file>"""
import sys, os, importlib, json, traceback, warnings
warnings.filterwarnings("ignore")
os.environ.setdefault("PYUNCERTAINNUMBER_VERIF", "1")
os.environ.setdefault("MPLBACKEND", "Agg")
from . import core


def main(argv):
    if len(argv) < 2:
        print("usage: check Cxx quick|thorough | check Cxx --replay <file>")
        return 2
    prop = argv[0].upper()
    try:
        mod = importlib.import_module(f"pv.{prop.lower()}")
    except ModuleNotFoundError as e:
        print(f"no check for {prop}: {e}")
        return 2
    if argv[1] == "--replay":
        obj = json.loads(open(argv[2]).read())
        if hasattr(mod, "replay"):
            return mod.replay(obj) or 0
        print(json.dumps(obj, indent=1))
        return 0
    tier = argv[1] if argv[1] in ("quick", "thorough") else os.environ.get("VERIF_TIER", "quick")
    seed = int(os.environ.get("VERIF_SEED", "0") or 0)
    ctx = core.Check(prop, tier, seed)
    try:
        mod.run(ctx)
        return ctx.finish()
    except core.InfraError as e:
        print(f"[{prop}] infrastructure failure: {e}", file=sys.stderr)
        return 2
    except Exception:
        traceback.print_exc()
        print(f"[{prop}] harness crashed (infrastructure, not a verdict)", file=sys.stderr)
        return 2


if __name__ == "__main__":
    sys.exit(main(sys.argv[1:]))
