"""C13 — interval propagation strategies nest around the true range.

proof  : Pun.Props.C13 (expression induction, tiling, vertex method)
tie    : real b2b / EpistemicPropagation / Propagation vs `Pun.B2B.b2b`, plus the tiles and the corner
         array the real code hands to the response function (captured by wrapping the function)
oracle : independent of the model, exact Fractions on the rational fragment:
         E ⊆ SE_n ⊆ hull(sampled range) ⊆ SD_n ⊆ D, E = min/max over the 2^d corners, SE_n = min/max over
         the tile-corner lattice, SD_n = hull of the captured per-tile images, tiles partition the box,
         E encloses every sample for functions monotone by construction.
"""
from __future__ import annotations
import itertools, math, json
from fractions import Fraction as F
import numpy as np
from . import core
from .core import q, ql, unq, unql, err_kind

BIN = ("add", "sub", "mul", "div")


def _I():
    from pyuncertainnumber.pba.intervals.number import Interval
    return Interval


# ----------------------------------------------------------------------------------------------
# expressions: ("v",i) ("c",x) (op,a,b) ("pow",a,k) ("exp",a) ("sqrt",a) ; ("npow",a,k) = a ** (-k) (oracle only)
def ev(e, X):
    """the response function body, on whatever X holds (Intervals, numpy columns, floats, Fractions)"""
    t = e[0]
    if t == "v":
        return X[e[1]]
    if t == "c":
        return e[1]
    if t == "pow":
        return ev(e[1], X) ** e[2]
    if t == "npow":
        return ev(e[1], X) ** (-e[2])
    if t == "exp":
        return np.exp(ev(e[1], X))
    if t == "sqrt":
        return np.sqrt(ev(e[1], X))
    a, b = ev(e[1], X), ev(e[2], X)
    if t == "add":
        return a + b
    if t == "sub":
        return a - b
    if t == "mul":
        return a * b
    return a / b


def evq(e, X):
    """exact point evaluation (Fractions); exp/sqrt fall back to floats. None = undefined at this point"""
    t = e[0]
    if t == "v":
        return X[e[1]]
    if t == "c":
        return F(e[1])
    if t in ("pow", "npow"):
        a = evq(e[1], X)
        if a is None:
            return None
        if t == "npow":
            return None if a == 0 else a ** (-e[2])
        return a ** e[2]
    if t in ("exp", "sqrt"):
        a = evq(e[1], X)
        if a is None:
            return None
        a = float(a)
        if t == "sqrt":
            return None if a < 0 else float(np.sqrt(a))
        r = float(np.exp(a))
        return None if math.isinf(r) else r
    a, b = evq(e[1], X), evq(e[2], X)
    if a is None or b is None:
        return None
    inexact = isinstance(a, float) or isinstance(b, float)
    if inexact:
        a, b = float(a), float(b)
    if t == "add":
        return a + b
    if t == "sub":
        return a - b
    if t == "mul":
        return a * b
    if b == 0:
        return None
    return a / b


def size(e):
    return 1 + sum(size(x) for x in e[1:] if isinstance(x, tuple))


def has(e, kinds):
    return e[0] in kinds or any(has(x, kinds) for x in e[1:] if isinstance(x, tuple))


def vars_of(e):
    if e[0] == "v":
        return {e[1]}
    s = set()
    for x in e[1:]:
        if isinstance(x, tuple):
            s |= vars_of(x)
    return s


def subexprs(e):
    yield e
    for x in e[1:]:
        if isinstance(x, tuple):
            yield from subexprs(x)


def wire_expr(e):
    t = e[0]
    if t == "v":
        return f"v;{e[1]}"
    if t == "c":
        return f"c;{q(e[1])}"
    if t == "pow":
        return f"pow;{e[2]};{wire_expr(e[1])}"
    if t in ("exp", "sqrt"):
        return f"{t};{wire_expr(e[1])}"
    return f"{t};{wire_expr(e[1])};{wire_expr(e[2])}"


def show_expr(e):
    t = e[0]
    if t == "v":
        return f"x{e[1]}"
    if t == "c":
        return repr(e[1])
    if t == "pow":
        return f"({show_expr(e[1])})**{e[2]}"
    if t == "npow":
        return f"({show_expr(e[1])})**(-{e[2]})"
    if t in ("exp", "sqrt"):
        return f"{t}({show_expr(e[1])})"
    return "(" + show_expr(e[1]) + {"add": "+", "sub": "-", "mul": "*", "div": "/"}[t] + show_expr(e[2]) + ")"


def to_tuple(e):
    return tuple(to_tuple(x) if isinstance(x, list) else x for x in e)


class Func:
    """the response function in both signatures (matrix for the vertex method, iterable / scalar Interval for
    direct evaluation); records what it was called with and what it returned"""

    def __init__(self, e, d):
        self.e, self.d = e, d
        self.pt_calls, self.iv_calls = [], []

    def __call__(self, x):
        I = _I()
        if isinstance(x, np.ndarray):
            xx = x[None, :] if x.ndim == 1 else x
            self.pt_calls.append(np.array(xx, dtype=float))
            with np.errstate(all="ignore"):
                return ev(self.e, [xx[:, i] for i in range(self.d)])
        if isinstance(x, I) and x.shape == ():
            X = [x]
        else:
            X = [x[i] for i in range(self.d)]
        tile = [(float(np.asarray(t.lo)), float(np.asarray(t.hi))) for t in X] if all(isinstance(t, I) for t in X) else None
        with np.errstate(all="ignore"):
            r = ev(self.e, X)
        self.iv_calls.append((tile, canon(r)))
        return r


def canon(r):
    I = _I()
    if isinstance(r, I):
        lo, hi = np.asarray(r.lo, dtype=float), np.asarray(r.hi, dtype=float)
        if lo.size == 1:
            return ("ok", float(lo.ravel()[0]), float(hi.ravel()[0]))
        return ("ok-shape", lo.shape)
    if isinstance(r, (int, float, np.floating, np.integer)) or (isinstance(r, np.ndarray) and r.size == 1):
        v = float(np.asarray(r).ravel()[0])
        return ("ok", v, v)
    return ("ok-other", type(r).__name__)


def _model_factory(rec):
    """closures from ONE factory: every response function has the same __qualname__ ('_model_factory.<locals>.model')"""
    def model(x):
        return rec(x)
    return model


def make_callable(rec, fstyle):
    if fstyle == "closure":
        return _model_factory(rec)
    if fstyle == "lambda":
        return (lambda x: rec(x))
    return rec


def make_vars(form, box):
    I = _I()
    if form == "L":
        return [I(float(a), float(b)) for a, b in box]
    if form == "Li":        # Python ints, not floats
        return [I(int(a), int(b)) for a, b in box]
    if form == "T":
        return tuple(I(float(a), float(b)) for a, b in box)
    if form == "V":
        return I(np.array([float(a) for a, _ in box]), np.array([float(b) for _, b in box]))
    if form == "Vi":        # integer-dtype bound arrays
        return I(np.array([int(a) for a, _ in box], dtype=np.int64), np.array([int(b) for _, b in box], dtype=np.int64))
    if form in ("V32", "V16", "Vld"):        # reduced / extended precision bound arrays holding exactly the same values
        dt = {"V32": np.float32, "V16": np.float16, "Vld": np.longdouble}[form]
        lo, hi = np.array([float(a) for a, _ in box]).astype(dt), np.array([float(b) for _, b in box]).astype(dt)
        assert all(float(x) == float(a) for x, (a, _) in zip(lo, box)) and all(float(x) == float(b) for x, (_, b) in zip(hi, box))
        return I(lo, hi)
    if form == "Vu":        # unsigned-integer bound arrays
        return I(np.array([int(a) for a, _ in box], dtype=np.uint64), np.array([int(b) for _, b in box], dtype=np.uint64))
    if form == "Vn":        # bounds are negative-stride views of a matrix stored in reversed row order
        M = np.array([[float(a), float(b)] for a, b in box][::-1])
        return I(lo=M[::-1, 0], hi=M[::-1, 1])
    if form == "Vf":        # bounds are columns of a Fortran-ordered matrix (non-contiguous views)
        M = np.asfortranarray(np.array([[float(a), float(b), 0.0] for a, b in box]))
        return I(lo=M[:, 0], hi=M[:, 1])
    if form == "S":
        return I(float(box[0][0]), float(box[0][1]))
    raise ValueError(form)


def snapshot_vars(v):
    I = _I()
    if isinstance(v, I):
        return ("I", np.array(v.lo, dtype=float).tolist(), np.array(v.hi, dtype=float).tolist())
    return tuple(snapshot_vars(x) for x in v)


def chain_head(chain):
    """the RESULT object of a first propagation, to be used as an operand of the next one"""
    from pyuncertainnumber.propagation.b2b import b2b
    e0, box0 = chain
    return b2b(make_vars("L", box0), Func(e0, len(box0)), interval_strategy="direct")


def run_b2b(e, box, form, strat, style, nsub, fstyle="object", vars_obj=None, chain=None):
    from pyuncertainnumber.propagation.b2b import b2b
    f = Func(e, len(box))
    kw = {}
    if style is not None:
        kw["subinterval_style"] = style
    if nsub is not None:
        kw["n_sub"] = nsub
    f.raw = f.vars = f.vars_snap = None
    try:
        if vars_obj is not None:
            f.vars = vars_obj
        elif chain is not None:
            f.vars = [chain_head(chain)] + make_vars("L", box[1:])
        else:
            f.vars = make_vars(form, box)
        f.vars_snap = snapshot_vars(f.vars)
        f.raw = b2b(f.vars, make_callable(f, fstyle), interval_strategy=strat, **kw)
        r = canon(f.raw)
    except BaseException as ex:  # noqa
        r = ("err", err_kind(ex))
    return r, f


def run_ep(e, box, method, style, nsub, high):
    from pyuncertainnumber.propagation.p import EpistemicPropagation, Propagation
    f = Func(e, len(box))
    f.raw = f.vars = f.vars_snap = None
    kw = {}
    if style is not None:
        kw["subinterval_style"] = style
    if nsub is not None:
        kw["n_sub"] = nsub
    try:
        if high:
            import pyuncertainnumber as pun
            import logging
            logging.disable(logging.CRITICAL)
            us = [pun.I(float(a), float(b)) for a, b in box]
            r = Propagation(us, f, method).run(**kw)
            r = canon(r._construct)
        else:
            r = canon(EpistemicPropagation(make_vars("L", box), f, method).run(**kw))
    except BaseException as ex:  # noqa
        r = ("err", err_kind(ex))
    return r, f


# ----------------------------------------------------------------------------------------------
# model side, with the "need" protocol for exp / sqrt values
def wire_box(box):
    return "[" + ",".join(q(a) + "," + q(b) for a, b in box) + "]"


def ufun_value(code, x):
    with np.errstate(all="ignore"):
        v = float(np.exp(float(x))) if code == 0 else float(np.sqrt(float(x)))
    if math.isnan(v) or math.isinf(v):
        return None
    return F(v)


def model_with_needs(prop, mk_req, n, max_rounds=8):
    """mk_req(i, table_token) -> request line. returns list of replies ('unavail' when a value cannot be supplied)"""
    tables = [dict() for _ in range(n)]
    out = [None] * n
    pending = list(range(n))
    for _ in range(max_rounds):
        if not pending:
            break
        reqs = []
        for i in pending:
            t = tables[i]
            tok = "[" + ",".join(f"{c},{q(x)},{q(v)}" for (c, x), v in t.items()) + "]"
            reqs.append(mk_req(i, tok))
        reps = core.model_batch(prop, reqs)
        nxt = []
        for i, rep in zip(pending, reps):
            if rep.startswith("need "):
                flat = unql(rep[5:])
                ok = True
                for j in range(0, len(flat), 2):
                    c, x = int(flat[j]), flat[j + 1]
                    v = ufun_value(c, x)
                    if v is None:
                        ok = False
                        break
                    tables[i][(c, x)] = v
                if ok:
                    nxt.append(i)
                else:
                    out[i] = "unavail"
            else:
                out[i] = rep
        pending = nxt
    for i in pending:
        out[i] = "unavail"
    return out


def parse_model(rep):
    t = rep.split()
    if t[0] == "ok":
        return ("ok", unq(t[1]), unq(t[2]))
    if t[0] == "err":
        return ("err", t[1])
    return ("bad", rep)


def agree(impl, model, exact, tol):
    if impl[0] != model[0]:
        return False
    if impl[0] == "err":
        return impl[1] == model[1]
    if impl[0] != "ok":
        return False
    for a, b in ((impl[1], model[1]), (impl[2], model[2])):
        if math.isnan(a) or math.isinf(a):
            return False
        if exact:
            if F(a) != b:
                return False
        elif abs(F(a) - b) > tol:
            return False
    return True


# ----------------------------------------------------------------------------------------------
# generators
def fold(e):
    """fold constant sub-expressions (the generator never leaves `const op const`)"""
    if e[0] in ("v", "c"):
        return e
    kids = [fold(x) if isinstance(x, tuple) else x for x in e[1:]]
    e2 = (e[0], *kids)
    if all(k[0] == "c" for k in kids if isinstance(k, tuple)):
        v = evq(e2, [])
        if v is None:
            return ("c", 1)
        v = F(v)
        return ("c", int(v)) if v.denominator == 1 else ("c", float(v))
    return e2


def rand_expr(rng, d, depth, ops, consts, pmax=3):
    if depth == 0 or rng.random() < 0.15:
        if rng.random() < 0.8:
            return ("v", rng.randrange(d))
        return ("c", rng.choice(consts))
    op = rng.choice(ops)
    if op == "pow":
        return ("pow", rand_expr(rng, d, depth - 1, ops, consts, pmax), rng.randint(2, pmax))
    if op in ("exp", "sqrt"):
        return (op, rand_expr(rng, d, depth - 1, ops, consts, pmax))
    return (op, rand_expr(rng, d, depth - 1, ops, consts, pmax), rand_expr(rng, d, depth - 1, ops, consts, pmax))


def gen_expr(rng, d, depth, ops, consts, pmax=3, all_vars=True):
    for _ in range(200):
        e = fold(rand_expr(rng, d, depth, ops, consts, pmax))
        if e[0] == "c" or e[0] == "v":
            continue
        if all_vars and vars_of(e) != set(range(d)):
            continue
        if size(e) > 14:
            continue
        return e
    return fold(("add", ("mul", ("v", 0), ("v", d - 1)), ("v", d // 2)))


def mono_expr(rng, d, box):
    """monotone in every argument over the box, by construction: returns (expr, +1/-1 per variable)"""
    def atom(i, sgn):
        lo, hi = box[i]
        k = rng.random()
        v = ("v", i)
        if k < 0.3:
            a = v
        elif k < 0.55:
            a = ("pow", v, 3)
        elif k < 0.7 and lo >= 0:
            a = ("pow", v, 2)
        elif k < 0.8 and hi <= 0:
            a = ("sub", ("c", 0), ("pow", v, 2))
        elif k < 0.9:
            a = ("exp", v)
        elif lo >= 0:
            a = ("sqrt", v)
        else:
            a = ("mul", ("c", 2), v)
        c = rng.choice([1, 2, 3, 0.5])
        a = a if c == 1 else ("mul", ("c", c), a)
        return a
    signs = [rng.choice([1, -1]) for _ in range(d)]
    e = None
    for i in range(d):
        a = atom(i, signs[i])
        if e is None:
            e = a if signs[i] > 0 else ("sub", ("c", 0), a)
        else:
            e = ("add", e, a) if signs[i] > 0 else ("sub", e, a)
    if rng.random() < 0.4:     # an increasing outer function keeps coordinate-wise monotonicity
        e = rng.choice([("exp", ("mul", ("c", 0.125), e)), ("pow", e, 3), ("add", ("mul", ("c", 3), e), ("c", 1))])
    if rng.random() < 0.3 and all(lo > 0 for lo, _ in box):      # product / quotient of positive variables
        i, j = rng.randrange(d), rng.randrange(d)
        if i != j:
            e = ("add", e, ("mul", ("c", 2), ("div", ("v", i), ("v", j))) ) if signs[i] > 0 and signs[j] < 0 else e
    return e


def int_box(rng, d):
    box = []
    for _ in range(d):
        a, b = sorted([rng.randint(-4, 4), rng.randint(-4, 4)])
        r = rng.random()
        if r < 0.08:
            b = a
        box.append((a, b))
    return box


def dyadic_box(rng, d, positive=False):
    box = []
    for _ in range(d):
        a, b = sorted([rng.randint(-32, 32) / 8, rng.randint(-32, 32) / 8])
        if positive:
            a, b = sorted([rng.randint(1, 32) / 8, rng.randint(1, 32) / 8])
        if rng.random() < 0.06:
            b = a
        box.append((a, b))
    return box


def bitdeg(e, vbits):
    """upper bound on the number of significant bits of the exact value of e when every variable is a dyadic
    number of at most `vbits` bits: binary64 evaluates e exactly when this is <= 53"""
    t = e[0]
    if t == "v":
        return vbits
    if t == "c":
        f = F(e[1])
        return max(1, f.numerator.bit_length()) + max(0, f.denominator.bit_length() - 1)
    if t == "pow":
        return e[2] * bitdeg(e[1], vbits)
    if t in ("add", "sub"):
        return max(bitdeg(e[1], vbits), bitdeg(e[2], vbits)) + 1
    if t == "mul":
        return bitdeg(e[1], vbits) + bitdeg(e[2], vbits)
    return 999


def configs(rng, d, pow2, budget):
    """the runs of one case: direct, endpoints and subinterval x {direct,endpoints} x a few n_sub"""
    ns_all = [1, 2, 4, 8] if pow2 else [1, 2, 3, 4, 5, 6, 7, 8]
    ns = [n for n in ns_all if n ** d <= budget]
    pick = sorted(set([rng.choice(ns) for _ in range(3)]))
    cf = [("direct", None, None), ("endpoints", None, None)]
    for n in pick:
        cf.append(("subinterval", "direct", n))
        cf.append(("subinterval", "endpoints", n))
    return cf


def gen_cases(ctx):
    rng = ctx.rng
    cases = []
    budget = ctx.scale(300, 600)

    def add(stream, e, box, form="L", exact=False, mono=False, cf=None, **kw):
        d = len(box)
        if cf is None:
            cf = configs(rng, d, exact, budget)
        if exact and stream == "numeric-types":
            pass
        elif exact:
            # exact only while binary64 cannot round: |x| <= 4 (3 bits) plus log2(n_sub) fractional bits per variable
            nmax = max([n for (_, _, n) in cf if n] + [1])
            if bitdeg(e, 3 + max(nmax, 1).bit_length()) > 52 or any(n and (n & (n - 1)) for (_, _, n) in cf if isinstance(n, int)):
                exact = False
        cases.append(dict(stream=stream, e=e, box=[tuple(b) for b in box], form=form, exact=exact, mono=mono,
                          cf=cf if cf is not None else configs(rng, d, exact, budget), **kw))

    # witnesses of the repaired defects (always present)
    nonmono = ("sub", ("mul", ("v", 0), ("v", 0)), ("v", 0))
    add("witness", ("sub", ("mul", ("v", 0), ("v", 1)), ("v", 0)), [(-1, 2), (3, 5)], exact=True,
        cf=[("direct", None, None), ("endpoints", None, None), ("subinterval", "direct", 1), ("subinterval", "endpoints", 1),
            ("subinterval", "direct", 2), ("subinterval", "endpoints", 2)])
    for form in ("V", "L", "S"):
        add("witness", nonmono, [(-1, 2)], form=form, exact=True,
            cf=[("direct", None, None), ("endpoints", None, None), ("subinterval", "direct", 3), ("subinterval", "endpoints", 3),
                ("subinterval", "direct", 1), ("subinterval", "endpoints", 4)])
    # A. exact stream: integer boxes, + - * pow, power-of-two subdivision
    for _ in range(ctx.scale(80, 550)):
        d = rng.choice([1, 2, 2, 3, 3, 4])
        e = gen_expr(rng, d, rng.choice([2, 3, 3, 4]), ["add", "sub", "mul", "mul", "pow"], [-3, -2, -1, 2, 3, 5])
        form = rng.choice(["L", "L", "V", "T", "Li", "Vi", "Vf"]) if d > 1 else rng.choice(["L", "V", "S", "Li", "Vi"])
        add("exact", e, int_box(rng, d), form=form, exact=True)
    # B. general stream: dyadic boxes, division, exp, sqrt, any n_sub
    n_b = ctx.scale(80, 550)
    tries = 0
    while n_b > 0 and tries < 100000:
        tries += 1
        d = rng.choice([1, 2, 2, 3, 3, 4])
        ops = ["add", "sub", "mul", "div", "pow", rng.choice(["exp", "sqrt", "add", "mul"])]
        e = gen_expr(rng, d, rng.choice([2, 3, 3]), ops, [-3, -1.5, -1, 0.5, 2, 3, 4.25])
        box = dyadic_box(rng, d, positive=rng.random() < 0.3)
        # keep the function defined and moderate on the box (direct evaluation with the real code must succeed)
        r, _ = run_b2b(e, box, "L", "direct", None, None)
        if r[0] != "ok" or not all(math.isfinite(v) and abs(v) < 1e12 for v in r[1:]):
            continue
        form = rng.choice(["L", "L", "V"]) if d > 1 else rng.choice(["L", "V", "S"])
        add("general", e, box, form=form)
        n_b -= 1
    # C. monotone by construction
    for _ in range(ctx.scale(40, 300)):
        d = rng.choice([1, 2, 3, 4])
        box = dyadic_box(rng, d, positive=rng.random() < 0.4)
        e = mono_expr(rng, d, box)
        r, _ = run_b2b(e, box, "L", "direct", None, None)
        if r[0] != "ok" or not all(math.isfinite(v) and abs(v) < 1e12 for v in r[1:]):
            continue
        add("monotone", e, box, mono=True)
    # C2. thin but not degenerate sides at large offsets, and tiny magnitudes (anything that replaces == by isclose collapses them)
    named_thin = [(200000.0, 200001.0), (1000.0, 1000.03), (300.0, 300.002), (-200001.0, -200000.0), (1e6, 1e6 + 1e-3), (1.0, 1.0 + 1e-9)]

    def thin_side():
        if rng.random() < 0.45:
            return rng.choice(named_thin)
        o = rng.choice([1.0, 7.5, 300.0, 1000.0, 2e5, 1e6, -3.0, -1000.0, -2e5])
        w = abs(o) * rng.choice([1e-9, 1e-8, 1e-7, 1e-6, 5e-6, 1e-5])
        return (o, o + w)
    thin_fixed = [
        (("add", ("mul", ("v", 0), ("v", 1)), ("v", 0)), [(200000.0, 200001.0), (3.0, 4.0)]),
        (("sub", ("mul", ("c", 2), ("v", 0)), ("v", 1)), [(1000.0, 1000.03), (300.0, 300.002)]),
        (("mul", ("v", 0), ("sub", ("v", 1), ("v", 2))), [(1.0, 2.0), (200000.0, 200001.0), (199999.0, 200000.0)]),
        (("sub", ("mul", ("v", 0), ("v", 0)), ("v", 0)), [(1000.0, 1000.03)]),
    ]
    thin_cf = [("direct", None, None), ("endpoints", None, None), ("subinterval", "direct", 4), ("subinterval", "endpoints", 4),
               ("subinterval", "endpoints", 1), ("subinterval", "direct", 3), ("subinterval", "endpoints", 3)]
    for e, box in thin_fixed:
        add("thin", e, box, form="L" if len(box) > 1 else "S", cf=thin_cf)
    for _ in range(ctx.scale(24, 240)):
        d = rng.choice([1, 2, 2, 3])
        box = [thin_side() if (j == 0 or rng.random() < 0.4) else dyadic_box(rng, 1)[0] for j in range(d)]
        rng.shuffle(box)
        e = gen_expr(rng, d, 2, ["add", "sub", "mul", "mul"], [-2, 0.5, 2, 3])
        r, _ = run_b2b(e, box, "L", "direct", None, None)
        if r[0] != "ok":
            continue
        n = rng.choice([2, 3, 4])
        add("thin", e, box, form=rng.choice(["L", "V"]) if d > 1 else rng.choice(["L", "V", "S"]),
            cf=[("direct", None, None), ("endpoints", None, None), ("subinterval", "direct", n), ("subinterval", "endpoints", n)])
    tiny_sides = [(2e-9, 8e-9), (-5e-9, 3e-9), (1e-12, 4e-12), (-7e-10, -2e-10), (0.0, 6e-9)]
    for _ in range(ctx.scale(10, 100)):
        d = rng.choice([1, 2, 3])
        box = [rng.choice(tiny_sides) for _ in range(d)]
        terms = [("mul", ("c", rng.choice([-3, -1, 0.5, 2, 4])), ("v", j)) for j in range(d)]
        e = terms[0]
        for t in terms[1:]:
            e = (rng.choice(["add", "sub"]), e, t)
        if rng.random() < 0.5:
            e = ("add", e, ("v", rng.randrange(d)))
        n = rng.choice([2, 3, 4])
        add("tiny", fold(e), box, form="L" if d > 1 else rng.choice(["L", "S", "V"]), mag_floor=0.0,
            cf=[("direct", None, None), ("endpoints", None, None), ("subinterval", "direct", n), ("subinterval", "endpoints", n)])
    # C3. extreme constants as number operands (below machine epsilon, above 1e15)
    xconsts = [1e-20, 2.0 ** -60, 1.380649e-23, 1e18, -1e18, 3e15, -2.0 ** -70]
    for k in range(ctx.scale(14, 140)):
        d = rng.choice([1, 2])
        c0 = xconsts[k % len(xconsts)]
        v0, v1 = ("v", 0), ("v", d - 1)
        e = rng.choice([("add", ("mul", ("c", c0), v0), v1), ("sub", v1, ("mul", v0, ("c", c0))), ("div", v0, ("c", c0)),
                        ("mul", ("c", c0), ("mul", v0, v1)), ("add", ("add", v0, ("c", c0)), v1), ("sub", ("c", c0), ("mul", v0, v1)),
                        ("div", ("c", c0), ("add", v0, ("c", 5)))])
        box = dyadic_box(rng, d)
        add("extreme-const", e, box, mag_floor=0.0,
            cf=[("direct", None, None), ("endpoints", None, None), ("subinterval", "direct", 2), ("subinterval", "endpoints", 3)])
    # C4. sequences: different response functions with the same __qualname__ (closures of one factory, lambdas), one after
    #     the other on the same box and on its re-tilings
    seq_fns = [("sub", ("mul", ("v", 0), ("v", 1)), ("v", 0)), ("add", ("mul", ("c", 4), ("v", 0)), ("mul", ("c", -2), ("v", 1))),
               ("mul", ("v", 0), ("v", 1)), ("sub", ("pow", ("v", 0), 2), ("mul", ("c", 3), ("v", 1))), ("add", ("v", 0), ("v", 1))]
    for fstyle in ("closure", "lambda", "object"):
        box = int_box(rng, 2)
        while box[0][0] == box[0][1] or box[1][0] == box[1][1]:
            box = int_box(rng, 2)
        for e in seq_fns:
            add("sequence", e, box, exact=True, fstyle=fstyle,
                cf=[("endpoints", None, None), ("subinterval", "endpoints", 2), ("subinterval", "endpoints", 4), ("direct", None, None)])
    # C7. small problems exhaustively: d in 1..3, n_sub in 0..3, both styles, every way of passing the box
    small_fns = {1: ("sub", ("mul", ("v", 0), ("v", 0)), ("mul", ("c", 3), ("v", 0))), 2: ("sub", ("mul", ("v", 0), ("v", 1)), ("v", 0)),
                 3: ("add", ("mul", ("v", 0), ("v", 1)), ("mul", ("v", 2), ("v", 0)))}
    small_boxes = {1: [(1, 5)], 2: [(-1, 2), (3, 5)], 3: [(-1, 1), (-1, 2), (2, 4)]}
    for d in (1, 2, 3):
        for form in (("L", "V", "S", "Li", "Vi") if d == 1 else ("L", "V", "T", "Vf")):
            for ns, tag in (((0, 1, 2), True), ((3,), False)):
                add("small", small_fns[d], small_boxes[d], form=form, exact=tag,
                    cf=([("direct", None, None), ("endpoints", None, None)] if tag else []) +
                       [("subinterval", st, n) for n in ns for st in ("direct", "endpoints")])
    # C8. magnitudes: homogeneous polynomials on integer boxes scaled by powers of two (binary64 stays exact), and degree-one
    #     responses at decimal scales 1e-19, 1e-170, 1e150
    for k in range(ctx.scale(18, 180)):
        d = rng.choice([1, 2, 3])
        g = rng.choice([1, 2, 3])
        terms = []
        for _ in range(rng.choice([2, 3])):
            t = ("v", rng.randrange(d))
            for _ in range(g - 1):
                t = ("mul", t, ("v", rng.randrange(d)))
            terms.append(("mul", ("c", rng.choice([-3, -1, 2, 3])), t))
        e = terms[0]
        for t in terms[1:]:
            e = (rng.choice(["add", "sub"]), e, t)
        sc = (2.0 ** -70, 2.0 ** -30, 2.0 ** 36)[k % 3]
        box = [(a * sc, b * sc) for a, b in int_box(rng, d)]
        add("scaled", e, box, form=rng.choice(["L", "V"]) if d > 1 else rng.choice(["L", "V", "S"]), exact=True, mag_floor=0.0,
            cf=[("direct", None, None), ("endpoints", None, None), ("subinterval", "direct", rng.choice([2, 4])), ("subinterval", "endpoints", rng.choice([1, 2, 4]))])
    for sc in (1e-19, 1e-170, 1e150):
        for e, box in ((("sub", ("mul", ("c", 2), ("v", 0)), ("v", 1)), [(1.0 * sc, 3.0 * sc), (-2.0 * sc, 5.0 * sc)]),
                       (("add", ("v", 0), ("mul", ("c", -3), ("v", 0))), [(-1.0 * sc, 4.0 * sc)])):
            add("scaled", e, box, form="L", mag_floor=0.0,
                cf=[("direct", None, None), ("endpoints", None, None), ("subinterval", "direct", 3), ("subinterval", "endpoints", 2)])
    # C9. numeric types: the box given as float32 / float16 / longdouble arrays holding values that are exact in that type; the
    #     results must be the float64 computation (products of two 13-bit values need 26 bits: inexact in float32, exact in float64)
    for k in range(ctx.scale(12, 120)):
        d = rng.choice([2, 2, 3])
        form = ("V32", "V16", "Vld")[k % 3]
        if form == "V16":
            box = [tuple(sorted([rng.randint(-31, 31) / 8, rng.randint(-31, 31) / 8])) for _ in range(d)]
            e = gen_expr(rng, d, 3, ["mul", "mul", "add", "sub", "pow"], [-3, 2, 3])
        else:
            box = [tuple(sorted([rng.randint(-4095, 4095) / 1024, rng.randint(-4095, 4095) / 1024])) for _ in range(d)]
            e = gen_expr(rng, d, 2, ["mul", "mul", "add", "sub"], [-3, 2, 3])
        ex = bitdeg(e, 13 if form != "V16" else 8) <= 52
        add("numeric-types", e, box, form=form, exact=ex,
            cf=[("direct", None, None), ("endpoints", None, None), ("subinterval", "direct", 2), ("subinterval", "endpoints", 2)])
    add("numeric-types", ("div", ("mul", ("v", 0), ("v", 1)), ("add", ("v", 0), ("c", 5))), [(0.3330078125, 1.6669921875), (1.2001953125, 2.7998046875)], form="V32",
        cf=[("direct", None, None), ("endpoints", None, None), ("subinterval", "endpoints", 3)])
    # C6. chained: the Interval RETURNED by one propagation is the first operand of the next
    for e0, box0, e1, rest in (
            (("sub", ("mul", ("v", 0), ("v", 1)), ("v", 0)), [(-1, 2), (3, 5)], ("sub", ("mul", ("v", 0), ("v", 0)), ("mul", ("v", 0), ("v", 1))), [(1, 2)]),
            (("add", ("v", 0), ("v", 1)), [(0, 1), (2, 4)], ("mul", ("v", 0), ("sub", ("v", 1), ("v", 2))), [(-2, 1), (0, 3)]),
            (("mul", ("c", 2), ("v", 0)), [(-3, -1)], ("add", ("pow", ("v", 0), 2), ("v", 0)), [])):
        y = canon(chain_head((e0, box0)))
        if y[0] == "ok":
            add("chained", e1, [(y[1], y[2])] + rest, exact=True, chain=(e0, box0),
                cf=[("direct", None, None), ("endpoints", None, None), ("subinterval", "direct", 2), ("subinterval", "endpoints", 2),
                    ("subinterval", "endpoints", 1)])
    # C5. a vector Interval whose bound arrays are negative-stride views (KF-C13-nditer-order, repaired by a87c462)
    for e, box in ((("sub", ("mul", ("v", 0), ("v", 1)), ("v", 0)), [(-1, 2), (3, 5)]),
                   (("add", ("mul", ("v", 0), ("v", 0)), ("mul", ("v", 1), ("v", 2))), [(-1, 1), (2, 3), (-4, -2)]),
                   (("sub", ("mul", ("c", 2), ("v", 0)), ("v", 1)), [(0, 1), (5, 9)])):
        add("negstride", e, box, form="Vn", exact=True,
            cf=[("direct", None, None), ("endpoints", None, None), ("subinterval", "direct", 2), ("subinterval", "endpoints", 2),
                ("subinterval", "direct", 1)])
    # D. malformed / rejected inputs (compared on error kind)
    mf = [
        dict(e=("mul", ("v", 0), ("v", 1)), box=[(1, 2), (3, 4)], cf=[("ga_typo", None, None), ("subinterval", None, 2),
                                                                     ("subinterval", "direct", None), ("subinterval", None, None)]),
        dict(e=("div", ("v", 0), ("v", 1)), box=[(1, 2), (-1, 1)], cf=[("direct", None, None), ("subinterval", "direct", 2)]),
        dict(e=("div", ("c", 1), ("sub", ("v", 0), ("v", 1))), box=[(1, 3), (2, 4)], cf=[("direct", None, None)]),
        dict(e=("sqrt", ("sub", ("v", 0), ("v", 1))), box=[(1, 3), (2, 4)], cf=[("direct", None, None), ("subinterval", "direct", 2)]),
        dict(e=("mul", ("v", 0), ("v", 0)), box=[], cf=[("direct", None, None), ("endpoints", None, None)]),
        dict(e=("mul", ("v", 0), ("v", 2)), box=[(1, 2), (3, 4)], cf=[("direct", None, None), ("endpoints", None, None)]),
    ]
    mf += [
        # just outside the domain of sqrt; a divisor touching zero at one corner only
        dict(e=("sqrt", ("v", 0)), box=[(-1e-17, 1.0)], cf=[("direct", None, None), ("subinterval", "direct", 2)]),
        dict(e=("div", ("v", 1), ("v", 0)), box=[(0.0, 1.0), (1.0, 2.0)], cf=[("direct", None, None), ("subinterval", "direct", 3)]),
        dict(e=("div", ("c", 1), ("mul", ("v", 0), ("v", 1))), box=[(-2.0, 0.0), (1.0, 2.0)], cf=[("direct", None, None)]),
        dict(e=("sqrt", ("sub", ("v", 0), ("c", 1))), box=[(1.0 - 2.0 ** -52, 3.0)], cf=[("direct", None, None)]),
    ]
    for m in mf:
        add("malformed", m["e"], m["box"], exact=True, cf=m["cf"])
    # negative powers of a (sub-)expression whose interval contains zero (interior, or as an endpoint / a tile boundary): a pole
    for e, box, cfs in (
            (("npow", ("v", 0), 1), [(-2.0, 3.0)], [("direct", None, None), ("subinterval", "direct", 2), ("subinterval", "direct", 3)]),
            (("add", ("npow", ("v", 0), 3), ("v", 1)), [(-2.0, 2.0), (1.0, 2.0)], [("direct", None, None), ("subinterval", "direct", 2)]),
            (("npow", ("v", 0), 1), [(-2.0, 0.0)], [("direct", None, None), ("subinterval", "direct", 2)]),
            (("mul", ("v", 1), ("npow", ("sub", ("v", 0), ("v", 1)), 3)), [(0.0, 2.0), (1.0, 3.0)], [("direct", None, None), ("subinterval", "direct", 2)]),
            (("npow", ("v", 0), 2), [(-1.0, 2.0)], [("direct", None, None), ("subinterval", "direct", 2)]),
            (("npow", ("v", 0), 1), [(0.0, 4.0)], [("direct", None, None)])):
        add("malformed", e, box, nomodel=True, cf=cfs)
    # valid extreme inputs must NOT raise: exp just below overflow, sqrt from exactly 0, a divisor just off zero
    edge_cf = [("direct", None, None), ("endpoints", None, None), ("subinterval", "direct", 2), ("subinterval", "endpoints", 3)]
    add("edge-valid", ("exp", ("v", 0)), [(700.0, 709.0)], cf=edge_cf)
    add("edge-valid", ("sqrt", ("mul", ("v", 0), ("v", 1))), [(0.0, 4.0), (0.0, 9.0)], cf=edge_cf)
    add("edge-valid", ("div", ("v", 1), ("v", 0)), [(2.0 ** -1000, 1.0), (1.0, 2.0)], cf=edge_cf, mag_floor=0.0)
    add("edge-valid", ("div", ("v", 0), ("sub", ("v", 1), ("c", 1))), [(1.0, 2.0), (1.0 + 2.0 ** -40, 3.0)], cf=edge_cf)
    # unsigned-integer bound arrays
    add("edge-valid", ("sub", ("mul", ("v", 0), ("v", 1)), ("v", 0)), [(1, 3), (2, 5)], form="Vu", exact=True, cf=edge_cf + [("subinterval", "direct", 4)])
    # an unknown subinterval_style must be rejected (oracle only: today's code returns None, which is no model value)
    add("malformed", ("mul", ("v", 0), ("v", 1)), [(1, 2), (3, 4)], exact=True, nomodel=True,
        cf=[("subinterval", "endpoint", 2), ("subinterval", "Direct", 2)])
    for _ in range(ctx.scale(10, 100)):
        d = rng.choice([2, 3])
        box = int_box(rng, d)
        i = rng.randrange(d)
        box[i] = (min(box[i][0], 0), max(box[i][1], 0))
        e = ("div", gen_expr(rng, d, 2, ["add", "mul"], [2, 3]), ("v", i))
        add("malformed", e, box, exact=True, cf=[("direct", None, None), ("subinterval", "direct", 2)])
    # E. routing: EpistemicPropagation / Propagation
    methods = ["endpoint", "endpoints", "vertex", "subinterval", "subintervals", "subinterval_reconstitution", "direct", "nonsense"]
    for k in range(ctx.scale(40, 400)):
        d = rng.choice([1, 2, 3])
        e = gen_expr(rng, d, 3, ["add", "sub", "mul", "pow"], [-2, 2, 3])
        m = methods[k % len(methods)]
        sub = m.startswith("subinterval")
        style = rng.choice(["direct", "endpoints"]) if sub else None
        nsub = rng.choice([1, 1, 2, 3, 4]) if sub else None
        kind = k % 3
        if kind == 0:
            box, ex = int_box(rng, d), nsub in (None, 1, 2, 4)
        elif kind == 1:
            box, ex = dyadic_box(rng, d), False
        else:
            box, ex = [thin_side() if j == 0 else dyadic_box(rng, 1)[0] for j in range(d)], False
            e = gen_expr(rng, d, 2, ["add", "sub", "mul"], [-2, 2, 3])
        add("routing", e, box, exact=ex, cf=[], route=dict(method=m, style=style, nsub=nsub, high=(k // len(methods)) % 2 == 1))
    # every sub-strategy through both class layers on one fixed non-monotone problem (n_sub = 1 with style 'endpoints' included)
    for m, style, nsub in (("vertex", None, None), ("subinterval", "endpoints", 1), ("subinterval", "direct", 1), ("subinterval", "endpoints", 3),
                           ("subinterval_reconstitution", "direct", 4)):
        for high in (False, True):
            add("routing", ("sub", ("mul", ("v", 0), ("v", 1)), ("mul", ("v", 0), ("v", 0))), [(-1, 2), (3, 5)], exact=True, cf=[],
                route=dict(method=m, style=style, nsub=nsub, high=high))
    # F. negative integer powers (oracle only; Interval.__pow__ is C05's anchor, the model has natural powers only)
    add("negpow", ("add", ("npow", ("v", 0), 2), ("v", 1)), [(1.375, 1.875), (3.0, 3.75)],
        cf=[("direct", None, None), ("endpoints", None, None), ("subinterval", "direct", 2)], nomodel=True)
    for _ in range(ctx.scale(12, 200)):
        d = rng.choice([1, 2])
        box = dyadic_box(rng, d, positive=True)
        if rng.random() < 0.5:
            box = [(-b, -a) for a, b in box]
        e = ("npow", ("v", 0), rng.choice([1, 2, 3])) if d == 1 else ("add", ("npow", ("v", 0), rng.choice([1, 2, 3])), ("v", 1))
        add("negpow", e, box, cf=[("direct", None, None), ("endpoints", None, None), ("subinterval", "direct", 2)], nomodel=True)
    return cases


# ----------------------------------------------------------------------------------------------
# oracle helpers
def knots(lo, hi, n):
    lo, hi = F(lo), F(hi)
    if n <= 1:
        return [lo, hi]
    return [lo + i * (hi - lo) / n for i in range(n)] + [hi]


def sample_points(rng, box, n, extra=12):
    """corners, tile-corner lattice (when small), midpoints, random dyadic interior points"""
    pts = set()
    d = len(box)
    fb = [(F(a), F(b)) for a, b in box]
    for c in itertools.product(*[(a, b) for a, b in fb]):
        pts.add(c)
    pts.add(tuple((a + b) / 2 for a, b in fb))
    for _ in range(extra):
        pts.add(tuple(a + (b - a) * F(rng.randint(0, 64), 64) for a, b in fb))
    return [list(p) for p in pts]


def lattice(box, n, cap):
    ks = [sorted(set(knots(a, b, n))) for a, b in box]
    tot = 1
    for k in ks:
        tot *= len(k)
    if tot > cap:
        return None
    return [list(p) for p in itertools.product(*ks)]


def check_partition(box, n, tiles):
    """tiles (floats, captured from the real code) partition the box: n per side (1 if n<=1), chained knots
    from lo to hi, every combination exactly once.  Returns None or a description."""
    d = len(box)
    m = max(n, 1)
    if len(tiles) != m ** d:
        return f"{len(tiles)} tiles for n_sub={n}, d={d} (expected {m ** d})"
    for j in range(d):
        lo, hi = float(box[j][0]), float(box[j][1])
        segs = sorted(set(t[j] for t in tiles))
        if any(a > b for a, b in segs):
            return f"dimension {j}: inverted tile side"
        if lo == hi:
            if any(s != (lo, hi) for s in segs):
                return f"dimension {j}: degenerate side not reproduced: {segs}"
            continue
        if len(segs) != m:
            return f"dimension {j}: {len(segs)} distinct sides, expected {m}"
        if segs[0][0] != lo or segs[-1][1] != hi:
            return f"dimension {j}: sides do not reach the box ends {segs[0]}..{segs[-1]} vs [{lo},{hi}]"
        for s, t in zip(segs, segs[1:]):
            if s[1] != t[0]:
                return f"dimension {j}: gap or overlap between {s} and {t}"
            if not (s[0] < s[1]):
                return f"dimension {j}: empty side {s}"
    # every combination exactly once (degenerate sides repeat the same side m times)
    from collections import Counter
    cnt = Counter(tiles)
    mult = 1
    for j in range(d):
        if float(box[j][0]) == float(box[j][1]):
            mult *= m
    if any(v != mult for v in cnt.values()):
        return "a combination of sides is missing or repeated"
    return None


def feat(case, cf, what, impl=None):
    s, st, n = cf
    return {"call": "b2b", "strategy": s, "style": st, "n_sub": n, "d": len(case["box"]), "form": case["form"],
            "stream": case["stream"], "what": what,
            "neg_pow": has(case["e"], ("npow",)),
            "symptom": ("raises:" + impl[1]) if impl and impl[0] == "err" else "value"}


def cj(case, cf=None, **kw):
    d = {"stream": case["stream"], "expr": show_expr(case["e"]), "e": case["e"], "box": [list(map(float, b)) for b in case["box"]],
         "form": case["form"]}
    if cf is not None:
        d["config"] = list(cf)
    d.update(kw)
    return d


# ----------------------------------------------------------------------------------------------
def run(ctx: core.Check, cases=None):
    ctx.rule = ("streams: exact (integer boxes in [-4,4]^d incl. degenerate sides, + - * pow, n_sub in {1,2,4,8}: results must "
                "be EQUAL), general (dyadic boxes, / exp sqrt, n_sub 1..8: within 2^12*size ulp of the largest intermediate), "
                "monotone-by-construction, malformed (unknown strategy, missing style/n_sub, zero in divisor, sqrt of negative, "
                "empty list, variable index out of range), routing (EpistemicPropagation / Propagation method names), negative "
                "powers (oracle only), thin (sides of relative width 1e-9..1e-5 at offsets up to 1e6), tiny (sides of magnitude 1e-12..1e-8), "
                "extreme-const (number operands 1e-20 .. 1e18), sequence (different functions with one __qualname__ on one box), negstride "
                "(bounds that are negative-stride views), chained (the Interval returned by one propagation is an operand of the next), "
                "edge-valid (exp below overflow, sqrt from 0, divisor just off zero, uint64 bounds), routing through EpistemicPropagation "
                "/ Propagation on integer, dyadic and thin boxes with n_sub 1..4; half of the cases reuse the SAME operand objects for all "
                "their configurations, and every fifth run gets operands that went through copy / deepcopy / pickle. small (d 1..3 x n_sub 0..3 "
                "x both styles x every input form), scaled (homogeneous polynomials on boxes scaled by 2^-70, 2^-30, 2^36: exact; degree "
                "one at 1e-19, 1e-170, 1e150). d = 1..4 in list, tuple, vector-Interval (float, int64, Fortran-order) "
                "and scalar-Interval form; response functions passed as callable object, closure of one factory, or lambda. Every result "
                "object and operand is re-read after all calls; a sample of runs is repeated at the end.  One evaluation = one "
                "(expression, box, strategy, style, n_sub) run of b2b; non-trivial unless the expression is a single variable; "
                "distinct on (expression, box, form, configuration).")
    ctx.assumptions = [
        "binary64 rounding is not modelled: the exact stream must agree exactly, the general stream within 2^12*size ulp of "
        "the largest intermediate magnitude, where magnitudes are taken through the absolute-value evaluation of the expression (so that "
        "a rounding error amplified after a cancellation is covered)",
        "exp and sqrt are parameters of the model (values supplied by numpy through the harness); the theorems assume only that "
        "they are monotone on their domain",
        "the true range is bounded from inside by exact evaluation at corners, lattice points of the tiling, midpoints and random "
        "dyadic points; it is not computed",
        "interval strategies ga, bo, cauchy_deviate and local optimisation are not modelled",
        "Interval.__pow__ with a negative exponent belongs to C05; here it is only observed through the enclosure oracle",
    ]
    ctx.lean_stage(["Pun.Props.C13"])
    if cases is None:
        cases = gen_cases(ctx)
    rng = ctx.rng
    # ---- flatten to runs ------------------------------------------------------------------------
    runs = []
    for ci, c in enumerate(cases):
        for cf in c["cf"]:
            runs.append((ci, "b2b", cf))
        if "route" in c:
            runs.append((ci, "ep", c["route"]))
    FORMW = {"L": "L", "Li": "L", "T": "L", "V": "V", "Vi": "V", "Vn": "V", "Vf": "V", "Vu": "V", "V32": "V", "V16": "V", "Vld": "V", "S": "S"}

    def mk_req(i, tab):
        ci, kind, cf = runs[i]
        c = cases[ci]
        if c.get("nomodel"):
            return "corners []"
        if kind == "b2b":
            s, st, n = cf
            return (f"b2b {FORMW[c['form']]} {wire_box(c['box'])} {s} {st or 'none'} {n if n is not None else 'none'} "
                    f"{wire_expr(c['e'])} {tab}")
        return (f"ep {cf['method']} {wire_box(c['box'])} {cf['style'] or 'none'} "
                f"{cf['nsub'] if cf['nsub'] is not None else 'none'} {wire_expr(c['e'])} {tab}")

    replies = model_with_needs("C13", mk_req, len(runs))
    # structural ops: tiles and corners for a subset of (box, n)
    struct_keys = {}
    for ci, kind, cf in runs:
        c = cases[ci]
        if kind == "b2b" and not c.get("nomodel") and c["box"]:
            if cf[0] == "subinterval" and cf[1] == "direct" and cf[2] is not None:
                struct_keys[("tiles", ci, cf[2])] = f"tiles {wire_box(c['box'])} {cf[2]}"
            if cf[0] == "endpoints":
                struct_keys[("corners", ci, None)] = f"corners {wire_box(c['box'])}"
    skeys = list(struct_keys)
    sreps = dict(zip(skeys, core.model_batch("C13", [struct_keys[k] for k in skeys])))

    results = {}          # (ci, cf) -> impl result
    captured = {}
    for i, (ci, kind, cf) in enumerate(runs):
        c = cases[ci]
        e, box = c["e"], c["box"]
        d = len(box)
        if kind == "b2b":
            vobj = None
            if ci % 2 == 0 and box and not c.get("chain"):      # the SAME operand objects for every configuration of the case
                if "_vars" not in c:
                    try:
                        c["_vars"] = make_vars(c["form"], box)
                    except BaseException:  # noqa
                        c["_vars"] = None
                vobj = c["_vars"]
            if vobj is None and box and not c.get("chain") and i % 5 == 3:
                try:        # operands that were copied / deep-copied / pickled before use
                    import copy as _copy, pickle as _pickle
                    v0 = make_vars(c["form"], box)
                    vobj = (_copy.copy, _copy.deepcopy, lambda z: _pickle.loads(_pickle.dumps(z)))[(i // 5) % 3](v0)
                except BaseException:  # noqa
                    vobj = None
            impl, fobj = run_b2b(e, box, c["form"], *cf, fstyle=c.get("fstyle") or ("object", "closure", "lambda")[i % 3],
                                 vars_obj=vobj, chain=c.get("chain"))
            key = (ci, cf)
        else:
            impl, fobj = run_ep(e, box, cf["method"], cf["style"], cf["nsub"], cf["high"])
            key = (ci, ("ep", cf["method"], cf["style"], cf["nsub"], cf["high"]))
        results[key] = impl
        captured[key] = fobj
        ctx.count((c["e"], tuple(c["box"]), c["form"], key[1]), nontrivial=size(e) > 1, stream=c["stream"])
        ctx.bump("impl:" + (impl[1] if impl[0] == "err" else "value"))
        if c.get("nomodel"):
            continue
        rep = replies[i]
        if rep == "unavail":
            ctx.bump("model-unavailable")
            continue
        model = parse_model(rep)
        tol = tolerance(c)
        ok = agree(impl, model, c["exact"], tol)
        if not ok and model[0] == "err" and model[1] in ("ZeroDivision", "Assertion") and kind == "b2b" and \
                (cf[0] == "endpoints" or cf[1] == "endpoints"):
            # numpy does not raise on a pole / nan at a corner: non-finite or any error is the same observation
            ok = impl[0] == "err" or (impl[0] == "ok" and not all(math.isfinite(v) for v in impl[1:]))
        if ok:
            ctx.tie_ok()
        else:
            ctx.tie_bad(c["stream"], cj(c, key[1]), list(impl), rep)
        # structure handed to the response function (order-insensitive)
        if kind == "b2b" and box:
            if cf[0] == "subinterval" and cf[1] == "direct" and cf[2] is not None and impl[0] == "ok":
                mt = sreps.get(("tiles", ci, cf[2]))
                tiles_impl = [tuple(t[0]) for t in fobj.iv_calls if t[0] is not None]
                if mt and mt.startswith("ok"):
                    flat = unql(mt.split()[2])
                    mtiles = [tuple((flat[2 * (k * d + j)], flat[2 * (k * d + j) + 1]) for j in range(d)) for k in range(len(flat) // (2 * d))]
                    teq = lambda u, w: len(u) == len(w) and all(
                        all((F(x) == y) if c["exact"] else abs(F(x) - y) <= tol for p, r in zip(a, b) for x, y in zip(p, r))
                        for a, b in zip(u, w))
                    same = teq(tiles_impl, mtiles) or teq(sorted(tiles_impl), sorted(mtiles))   # order is immaterial
                    if same:
                        ctx.tie_ok()
                    else:
                        ctx.tie_bad(c["stream"], cj(c, cf, what="tiles"), [list(map(list, t)) for t in tiles_impl][:8], mt[:300])
            if cf[0] == "endpoints" and impl[0] == "ok" and fobj.pt_calls:
                mc = sreps.get(("corners", ci, None))
                arr = fobj.pt_calls[0]
                if mc and mc.startswith("ok"):
                    flat = unql(mc.split()[2])
                    mcs = sorted(tuple(flat[k * d:(k + 1) * d]) for k in range(len(flat) // d))
                    ics = sorted(tuple(F(float(v)) for v in row) for row in arr)
                    if mcs == ics:
                        ctx.tie_ok()
                    else:
                        ctx.tie_bad(c["stream"], cj(c, cf, what="corners"), arr.tolist(), mc[:300])

    # ---- results kept alive: every result object and every operand is re-read after ALL calls were made ------------
    for (ci, kcf), fobj in captured.items():
        c = cases[ci]
        if getattr(fobj, "raw", None) is not None and canon(fobj.raw) != results[(ci, kcf)]:
            ctx.fail({"call": "b2b", "what": "result-changed-after-return", "stream": c["stream"], "form": c["form"]},
                     cj(c, kcf, recorded=list(results[(ci, kcf)]), now=list(canon(fobj.raw))),
                     f"the Interval returned for {show_expr(c['e'])} over {c['box']} {kcf} read {results[(ci, kcf)]} when returned and "
                     f"{canon(fobj.raw)} after later calls (shared memory)")
        if getattr(fobj, "vars", None) is not None and snapshot_vars(fobj.vars) != fobj.vars_snap:
            ctx.fail({"call": "b2b", "what": "operand-modified", "stream": c["stream"], "form": c["form"]}, cj(c, kcf),
                     f"the input intervals of b2b({kcf}) were modified by the call or by a later one")
    # ---- caller-visible aliasing: a result must not share memory with the operand arrays; the caller then overwrites its
    #      buffers in place and the earlier results must still read the same
    I = _I()
    by_obj = {}
    for (ci, kcf), fobj in captured.items():
        v = getattr(fobj, "vars", None)
        if isinstance(v, I) and getattr(fobj, "raw", None) is not None and isinstance(fobj.raw, I):
            by_obj.setdefault(id(v), (v, []))[1].append((ci, kcf, fobj))
    for v, lst in by_obj.values():
        bufs = [b for b in (getattr(v, "_lo", None), getattr(v, "_hi", None)) if isinstance(b, np.ndarray)]
        for ci, kcf, fobj in lst:
            res = [b for b in (getattr(fobj.raw, "_lo", None), getattr(fobj.raw, "_hi", None)) if isinstance(b, np.ndarray)]
            if any(np.shares_memory(a, b) for a in res for b in bufs):
                ctx.fail({"call": "b2b", "what": "result-shares-memory-with-operand", "stream": cases[ci]["stream"], "form": cases[ci]["form"]},
                         cj(cases[ci], kcf), "the returned Interval shares memory with the input box arrays")
        try:
            for b in bufs:
                if b.flags.writeable and b.dtype.kind == "f":
                    b += 5.0
        except BaseException:  # noqa
            continue
        for ci, kcf, fobj in lst:
            if canon(fobj.raw) != results[(ci, kcf)]:
                ctx.fail({"call": "b2b", "what": "result-follows-operand-buffer", "stream": cases[ci]["stream"], "form": cases[ci]["form"]},
                         cj(cases[ci], kcf, recorded=list(results[(ci, kcf)]), now=list(canon(fobj.raw))),
                         "after the caller overwrote its input arrays in place the earlier result reads differently")
    # ---- a few dozen runs again, after everything else: identical results (no state carried between calls) --------
    again = [(i, r) for i, r in enumerate(runs) if r[1] == "b2b" and cases[r[0]]["stream"] in ("witness", "exact", "general", "sequence", "thin", "small", "scaled")]
    step = max(1, len(again) // ctx.scale(40, 200))
    for i, (ci, kind, cf) in again[::step]:
        c = cases[ci]
        strict = (i // step) % 2 == 1
        if strict:      # floating-point errors raise, warnings are errors: the same value or an exception, never another value
            import warnings as _w
            with np.errstate(all="raise"), _w.catch_warnings():
                _w.simplefilter("error")
                impl2, _ = run_b2b(c["e"], c["box"], c["form"], *cf, fstyle=("lambda", "object", "closure")[i % 3])
        else:
            impl2, _ = run_b2b(c["e"], c["box"], c["form"], *cf, fstyle=("lambda", "object", "closure")[i % 3])
        ctx.evaluations += 1
        if strict and impl2[0] == "err" and results[(ci, cf)][0] == "ok":
            ctx.bump("strict-fp:raised")
            continue
        if impl2 != results[(ci, cf)]:
            ctx.fail({"call": "b2b", "what": "second-evaluation-differs", "stream": c["stream"], "form": c["form"], "strategy": cf[0], "style": cf[1]},
                     cj(c, cf, first=list(results[(ci, cf)]), second=list(impl2)),
                     f"b2b({cf}) on {show_expr(c['e'])} over {c['box']} gave {results[(ci, cf)]} the first time and {impl2} when repeated "
                     f"after other calls")
    # ---- semantic oracle, per case ----------------------------------------------------------------
    for ci, c in enumerate(cases):
        oracle_case(ctx, rng, ci, c, results, captured)
        if c["stream"] in ("exact", "general", "monotone", "routing") and len(ctx.samples) < 6 and ci % 7 == 0:
            ctx.sample(cj(c, results={str(k[1]): list(v) for k, v in results.items() if k[0] == ci}))


def abs_eval(e, X):
    """worst-case magnitude through which a relative rounding error of an operand can be amplified: the expression evaluated
    with every operation replaced by its bound on absolute values (|a±b| <= A(a)+A(b), |a*b| <= A(a)A(b), |a/b| <= A(a)/mig(b)).
    After a cancellation (x1 - x1 over a thin side at 1e6) the result is small but its error is not."""
    t = e[0]

    def mags(sub):
        try:
            with np.errstate(all="ignore"):
                r = canon(ev(sub, X))
            if r[0] == "ok" and all(math.isfinite(v) for v in r[1:]):
                return abs(r[1]), abs(r[2]), (r[1] <= 0 <= r[2])
        except BaseException:  # noqa
            pass
        return None
    if t == "v" or t == "c":
        m = mags(e)
        return max(m[0], m[1]) if m else 1.0
    if t in ("add", "sub"):
        return abs_eval(e[1], X) + abs_eval(e[2], X)
    if t == "mul":
        return abs_eval(e[1], X) * abs_eval(e[2], X)
    if t == "div":
        m = mags(e[2])
        mig = min(m[0], m[1]) if m and not m[2] and min(m[0], m[1]) > 0 else 1.0
        return abs_eval(e[1], X) / mig
    if t in ("pow", "npow"):
        return abs_eval(e[1], X) ** e[2]
    m = mags(e)
    return (max(m[0], m[1]) if m else 1.0) * max(1.0, abs_eval(e[1], X))


def tolerance(c):
    if "_tol" in c:
        return c["_tol"]
    if c["exact"] or not c["box"]:
        c["_tol"] = F(0)
        return c["_tol"]
    I = _I()
    mag = float(c.get("mag_floor", 1.0))
    X = [I(float(a), float(b)) for a, b in c["box"]]
    for s in subexprs(c["e"]):
        try:
            with np.errstate(all="ignore"):
                r = canon(ev(s, X))
            if r[0] == "ok":
                for v in r[1:]:
                    if math.isfinite(v):
                        mag = max(mag, abs(v))
        except BaseException:  # noqa
            pass
    try:
        a = abs_eval(c["e"], X)
        if math.isfinite(a):
            mag = max(mag, a)
    except BaseException:  # noqa
        pass
    c["_tol"] = F(2 ** 12 * size(c["e"])) * F(core.ulp(max(mag, 1e-300)))
    return c["_tol"]


def oracle_case(ctx, rng, ci, c, results, captured):
    e, box, d = c["e"], c["box"], len(c["box"])
    if c["stream"] == "malformed":
        oracle_malformed(ctx, ci, c, results)
        return
    exact = c["exact"]
    tol = F(0) if exact else tolerance(c)
    inexact_pts = has(e, ("exp", "sqrt"))
    ptol = tol if (inexact_pts or not exact) else F(0)

    def R(cf):
        return results.get((ci, cf))

    def le(a, b, t):     # a <= b up to t
        return F(a) <= F(b) + t

    if c["stream"] == "routing":
        rt = c["route"]
        key = (ci, ("ep", rt["method"], rt["style"], rt["nsub"], rt["high"]))
        impl = results[key]
        m = rt["method"]
        strat = "endpoints" if m in ("endpoint", "endpoints", "vertex") else \
            "subinterval" if m in ("subinterval", "subintervals", "subinterval_reconstitution") else None
        if strat is None:
            if impl[0] != "err":
                ctx.fail({"call": "EpistemicPropagation.run", "method": m, "what": "unknown-method-accepted"},
                         cj(c, route=rt, impl=list(impl)), f"method {m!r} is not an interval propagation method but returned {impl}")
            return
        ref, _ = run_b2b(e, box, "V" if d > 1 else "L", strat, rt["style"], rt["nsub"])
        if impl != ref:
            ctx.fail({"call": "Propagation.run" if rt["high"] else "EpistemicPropagation.run", "method": m, "what": "routing",
                      "symptom": ("raises:" + impl[1]) if impl[0] == "err" else "value"},
                     cj(c, route=rt, impl=list(impl), b2b=list(ref)),
                     f"{'Propagation' if rt['high'] else 'EpistemicPropagation'}(method={m!r}) gives {impl}, b2b({strat}) gives {ref}")
        return

    D = R(("direct", None, None))
    E = R(("endpoints", None, None))
    subs = sorted(set(cf[2] for (k, cf) in results if k == ci and cf[0] == "subinterval" and cf[2] is not None))
    # every run of a well-formed case must return an interval
    for (k, cf), impl in results.items():
        if k != ci or cf[0] == "ep":
            continue
        if impl[0] != "ok" or not all(math.isfinite(v) for v in impl[1:]):
            ctx.fail(feat(c, cf, "no-result", impl), cj(c, cf, impl=list(impl)),
                     f"b2b({cf}) on {show_expr(e)} over {box} ({c['form']}) gives {impl} although direct evaluation is defined")
    okv = lambda r: r is not None and r[0] == "ok" and all(math.isfinite(v) for v in r[1:])
    # samples of the true function
    pts = sample_points(rng, box, 0)
    vals = []
    for p in pts:
        v = evq(e, p)
        if v is not None and math.isfinite(float(v)):
            vals.append((F(v), p))
    if not vals:
        return
    vmin = min(vals, key=lambda t: t[0])
    vmax = max(vals, key=lambda t: t[0])
    # corners, independently
    cvals = [evq(e, list(p)) for p in itertools.product(*[(F(a), F(b)) for a, b in box])]
    cvals = [F(v) for v in cvals if v is not None]
    # 1. direct encloses the sampled range
    if okv(D):
        if not (le(D[1], vmin[0], ptol) and le(vmax[0], D[2], ptol)):
            ctx.fail(feat(c, ("direct", None, None), "direct-not-enclosing", D), cj(c, ("direct", None, None), impl=list(D),
                     witness=[float(x) for x in (vmin[1] if not le(D[1], vmin[0], ptol) else vmax[1])],
                     value=float(vmin[0] if not le(D[1], vmin[0], ptol) else vmax[0])),
                     f"direct evaluation of {show_expr(e)} over {box} gives [{D[1]},{D[2]}] but f takes the value "
                     f"{float(vmin[0])} / {float(vmax[0])} inside the box")
    # 2. vertex method = min / max over the corners
    if okv(E) and cvals and len(cvals) == 2 ** d:
        lo, hi = min(cvals), max(cvals)
        good = (F(E[1]) == lo and F(E[2]) == hi) if (exact and not inexact_pts) else (abs(F(E[1]) - lo) <= ptol and abs(F(E[2]) - hi) <= ptol)
        if not good:
            ctx.fail(feat(c, ("endpoints", None, None), "endpoints-not-corner-minmax", E), cj(c, ("endpoints", None, None), impl=list(E),
                     corners_min=float(lo), corners_max=float(hi)),
                     f"vertex method on {show_expr(e)} over {box} gives [{E[1]},{E[2]}], min/max over the {2 ** d} corners is "
                     f"[{float(lo)},{float(hi)}]")
    # 3. monotone functions: the vertex result is the range
    if c["mono"] and okv(E):
        if not (le(E[1], vmin[0], ptol) and le(vmax[0], E[2], ptol)):
            ctx.fail(feat(c, ("endpoints", None, None), "monotone-not-exact", E), cj(c, ("endpoints", None, None), impl=list(E),
                     value=[float(vmin[0]), float(vmax[0])]),
                     f"{show_expr(e)} is monotone in each argument over {box} but the vertex result [{E[1]},{E[2]}] misses "
                     f"a value in [{float(vmin[0])},{float(vmax[0])}]")
    if okv(D) and okv(E) and not (le(D[1], E[1], tol) and le(E[2], D[2], tol)):
        ctx.fail(feat(c, ("direct", None, None), "endpoints-outside-direct", D), cj(c, None, direct=list(D), endpoints=list(E)),
                 f"vertex result {E[1:]} is not inside the direct result {D[1:]} for {show_expr(e)} over {box}")
    for n in subs:
        SD = R(("subinterval", "direct", n))
        SE = R(("subinterval", "endpoints", n))
        cfd, cfe = ("subinterval", "direct", n), ("subinterval", "endpoints", n)
        lat = lattice(box, n, ctx.scale(700, 1500))
        lvals = None
        if lat is not None:
            lv = [evq(e, p) for p in lat]
            if all(v is not None for v in lv):
                lvals = [F(v) for v in lv]
        smin = min(vmin[0], min(lvals)) if lvals else vmin[0]
        smax = max(vmax[0], max(lvals)) if lvals else vmax[0]
        if okv(SD):
            # encloses the (sampled) range
            if not (le(SD[1], smin, ptol) and le(smax, SD[2], ptol)):
                ctx.fail(feat(c, cfd, "subdirect-not-enclosing", SD), cj(c, cfd, impl=list(SD), sampled=[float(smin), float(smax)]),
                         f"subinterval/direct n_sub={n} of {show_expr(e)} over {box} gives [{SD[1]},{SD[2]}] but f takes values "
                         f"in [{float(smin)},{float(smax)}]")
            # inside the un-subdivided direct result
            if okv(D) and not (le(D[1], SD[1], tol) and le(SD[2], D[2], tol)):
                ctx.fail(feat(c, cfd, "subdirect-outside-direct", SD), cj(c, cfd, impl=list(SD), direct=list(D)),
                         f"subinterval/direct n_sub={n} result {SD[1:]} is not inside the direct result {D[1:]}")
            # tiles partition the box, and the result is the hull of the tile images
            fobj = captured[(ci, cfd)]
            tiles = [tuple(t[0]) for t in fobj.iv_calls if t[0] is not None]
            why = check_partition(box, n, tiles)
            if why:
                ctx.fail(feat(c, cfd, "tiles-not-a-partition", SD), cj(c, cfd, tiles=[list(map(list, t)) for t in tiles][:16], why=why),
                         f"subintervalise({box}, {n}) does not partition the box: {why}")
            else:
                for p in pts[:24]:
                    inside = [t for t in set(tiles) if all(F(a) <= x <= F(b) for x, (a, b) in zip(p, t))]
                    interior = [t for t in set(tiles) if all(F(a) < x < F(b) or a == b for x, (a, b) in zip(p, t))]
                    if not inside or len(interior) > 1:
                        ctx.fail(feat(c, cfd, "tiles-not-a-partition", SD), cj(c, cfd, point=[float(x) for x in p]),
                                 f"point {[float(x) for x in p]} of the box lies in {len(inside)} tiles and in the interior of {len(interior)}")
                        break
            imgs = [t[1] for t in fobj.iv_calls]
            if imgs and all(i[0] == "ok" for i in imgs):
                hl, hh = min(i[1] for i in imgs), max(i[2] for i in imgs)
                if (SD[1], SD[2]) != (hl, hh):
                    ctx.fail(feat(c, cfd, "reconstitute-not-hull", SD), cj(c, cfd, impl=list(SD), hull=[hl, hh]),
                             f"reconstitute returned [{SD[1]},{SD[2]}], the hull of the {len(imgs)} tile images is [{hl},{hh}]")
        if okv(SE):
            # vertex ⊆ subinterval-vertex
            if okv(E) and not (le(SE[1], E[1], tol) and le(E[2], SE[2], tol)):
                ctx.fail(feat(c, cfe, "subendpoints-inside-endpoints", SE), cj(c, cfe, impl=list(SE), endpoints=list(E)),
                         f"subinterval/endpoints n_sub={n} result {SE[1:]} does not contain the vertex result {E[1:]}")
            # exactly the min / max over the lattice of tile corners
            if lvals:
                lo, hi = min(lvals), max(lvals)
                good = (F(SE[1]) == lo and F(SE[2]) == hi) if (exact and not inexact_pts) else \
                    (abs(F(SE[1]) - lo) <= ptol and abs(F(SE[2]) - hi) <= ptol)
                if not good:
                    ctx.fail(feat(c, cfe, "subendpoints-not-lattice-minmax", SE), cj(c, cfe, impl=list(SE), lattice=[float(lo), float(hi)]),
                             f"subinterval/endpoints n_sub={n} of {show_expr(e)} over {box} gives [{SE[1]},{SE[2]}], min/max over "
                             f"the tile corners is [{float(lo)},{float(hi)}]")
            # ⊆ true range ⊆ subinterval-direct ⊆ direct
            for outer, name in ((SD, "subinterval/direct"), (D, "direct")):
                if okv(outer) and not (le(outer[1], SE[1], tol) and le(SE[2], outer[2], tol)):
                    ctx.fail(feat(c, cfe, "subendpoints-outside-" + name.split("/")[-1], SE), cj(c, cfe, impl=list(SE), outer=list(outer)),
                             f"subinterval/endpoints n_sub={n} result {SE[1:]} is not inside the {name} result {outer[1:]}")
            if c["mono"] and okv(E) and not (abs(F(SE[1]) - F(E[1])) <= ptol and abs(F(SE[2]) - F(E[2])) <= ptol):
                ctx.fail(feat(c, cfe, "monotone-subendpoints-differs", SE), cj(c, cfe, impl=list(SE), endpoints=list(E)),
                         f"monotone {show_expr(e)}: subinterval/endpoints {SE[1:]} differs from the vertex result {E[1:]}")
    # refinement: when n1 divides n2 every tile of the finer tiling lies in a tile of the coarser one, so
    # subinterval/direct shrinks and subinterval/endpoints grows (inclusion isotonicity / more lattice points)
    for n1 in subs:
        for n2 in subs:
            if n1 < n2 and n2 % max(n1, 1) == 0:
                a, b = R(("subinterval", "direct", n1)), R(("subinterval", "direct", n2))
                if okv(a) and okv(b) and not (le(a[1], b[1], tol) and le(b[2], a[2], tol)):
                    ctx.fail(feat(c, ("subinterval", "direct", n2), "refinement-not-nested", b), cj(c, ("subinterval", "direct", n2), coarse=list(a), fine=list(b)),
                             f"subinterval/direct with n_sub={n2} gives {b[1:]}, not inside the coarser n_sub={n1} result {a[1:]}")
                a, b = R(("subinterval", "endpoints", n1)), R(("subinterval", "endpoints", n2))
                if okv(a) and okv(b) and not (le(b[1], a[1], tol) and le(a[2], b[2], tol)):
                    ctx.fail(feat(c, ("subinterval", "endpoints", n2), "refinement-not-nested", b), cj(c, ("subinterval", "endpoints", n2), coarse=list(a), fine=list(b)),
                             f"subinterval/endpoints with n_sub={n2} gives {b[1:]}, which does not contain the coarser n_sub={n1} result {a[1:]}")


def oracle_malformed(ctx, ci, c, results):
    e, box = c["e"], c["box"]
    d = len(box)
    for (k, cf), impl in results.items():
        if k != ci:
            continue
        s, st, n = cf
        bad_call = s not in ("direct", "endpoints", "subinterval") or \
            (s == "subinterval" and (st not in ("direct", "endpoints") or n is None)) or d == 0 \
            or max(vars_of(e), default=0) >= d
        if bad_call:
            if impl[0] != "err":
                ctx.fail(feat(c, cf, "malformed-accepted", impl), cj(c, cf, impl=list(impl)),
                         f"b2b({cf}) on {d} inputs returned {impl} instead of raising")
            continue
        # the function has a pole / leaves its domain on the box: interval evaluation must raise, never return a value
        if s == "direct" or st == "direct":
            if impl[0] != "err":
                ctx.fail(feat(c, cf, "undefined-function-evaluated", impl), cj(c, cf, impl=list(impl)),
                         f"{show_expr(e)} is undefined somewhere on {box} but b2b({cf}) returned {impl}")


def replay(obj):
    c = obj.get("case", {})
    if "e" not in c:
        print(json.dumps(obj, indent=1))
        return 0
    e = to_tuple(c["e"])
    box = [tuple(b) for b in c["box"]]
    print("expr :", show_expr(e), " box:", box, " form:", c["form"])
    cfs = [tuple(c["config"])] if c.get("config") and c["config"][0] != "ep" else \
        [("direct", None, None), ("endpoints", None, None), ("subinterval", "direct", 2), ("subinterval", "endpoints", 2)]
    for cf in cfs:
        impl, _ = run_b2b(e, box, c["form"], *cf)
        print(" ", cf, "->", impl)
    print("what :", obj.get("what"))
    return 0
