"""C07 — uncertain-number hierarchy: degenerate operands reduce to the simpler arithmetic.

proof  : Pun.Props.C07 (embedding theorems: interval / real operands under every dependency give the C01
         interval result as a constant p-box; interval op precise distribution = shifted / scaled quantiles;
         the dispatch graph agrees with "convert every operand first")
tie    : every ordered pair of operand kinds {int, float, Interval, Pbox, Distribution, DempsterShafer} x
         {+ - * /} x ambient dependency {f,p,o,i}, bare operators and the explicit-dependency methods, the two
         conversion functions, against `Pun.Hier.evalOp / method / spec / convert`
oracle : exact Fractions, independent of the model:
         (a) low x low (numbers, intervals): embedded as p-boxes on the real code under every dependency the result
             is the constant p-box of the exact interval result;
         (b) mixed expression == the same expression with every operand converted first (real code both sides);
         (c) constant (number / interval) op anything: focal-wise exact interval arithmetic, re-sorted
             (covers interval op distribution = shifted / scaled distribution);
         (d) both operands p-box-like: random-set reference of C03 for p/o/i, rank-wise containment for f;
         (e) conversions: constant lists of the right length, precise distributions have left == right == ppf grid.
"""
from __future__ import annotations
import math, warnings, json
from fractions import Fraction as F
import numpy as np
from . import core, pbx
from .core import q, ql, unq, unql, err_kind
from .pbx import fr

N = 200
OPS = ("add", "sub", "mul", "div")
DEPS = ("f", "p", "o", "i")
KINDS = ("int", "float", "ivl", "pbox", "dist", "dss")
LOW = ("int", "float", "ivl")


# ---------------------------------------------------------------------------------------------
# operands:  ("N", value, "int"|"float")  ("I", a, b)  ("P", left, right)  ("D", family, params)  ("S", intervals, masses)
def pba():
    from pyuncertainnumber import pba as _p
    return _p


def build(o):
    """the real object.  Optional last element = representation of the same value (theme "operand representation"):
    P: "int" (integer-dtype bound arrays) | "list" (Python lists);  D: "list" (parameters as a list);
    S: "intervals" (list of Interval objects) | "vec" (one vector Interval) | "mixed" (Interval objects and [lo,hi] lists) | "tuple" """
    P = pba()
    k = o[0]
    rep = o[3] if len(o) > 3 else None
    if k == "N":
        if rep == "fraction":
            return F(float(o[1])).limit_denominator(10 ** 6)
        if rep in ("float32", "float16", "longdouble"):
            return getattr(np, rep)(o[1])
        if rep == "bigint":
            return int(o[1])
        return int(o[1]) if o[2] == "int" else float(o[1])
    if k == "I":
        return P.I(o[1], o[2])
    if k == "P":
        if rep == "f32":
            return pbx.Staircase()(left=np.array(o[1], dtype=np.float32), right=np.array(o[2], dtype=np.float32))
        if rep == "int":
            return pbx.Staircase()(left=np.array(o[1], dtype=np.int64), right=np.array(o[2], dtype=np.int64))
        if rep == "list":
            return pbx.Staircase()(left=list(o[1]), right=list(o[2]))
        return pbx.stair(o[1], o[2])
    if k == "D":
        return P.Distribution(o[1], list(o[2]) if rep == "list" else tuple(o[2]))
    if k == "S":
        if rep == "intervals":
            return P.DempsterShafer([P.I(a, b) for a, b in o[1]], list(o[2]))
        if rep == "vec":
            return P.DempsterShafer(P.I(np.array([float(a) for a, _ in o[1]]), np.array([float(b) for _, b in o[1]])), np.array(o[2]))
        if rep == "mixed":
            return P.DempsterShafer([P.I(a, b) if i % 2 == 0 else [a, b] for i, (a, b) in enumerate(o[1])], list(o[2]))
        if rep == "tuple":
            return P.DempsterShafer(tuple(tuple(x) for x in o[1]), tuple(o[2]))
        return P.DempsterShafer([list(x) for x in o[1]], list(o[2]))
    raise ValueError(k)


def dss_reference(o):
    """belief / plausibility p-box of a DS structure computed WITHOUT the library (C08's specification, lean/Pun/Model/Dss.lean):
    left[i] = generalised inverse of the cumulated mass of the lower endpoints at level p_i, right[i] of the upper endpoints"""
    from .c08 import geninv
    from pyuncertainnumber.pba.params import Params
    G = [F(float(x)) for x in Params.p_values]
    m = [F(float(x)) for x in o[2]]
    tot = sum(m)
    m = [x / tot for x in m]
    l, _ = geninv([a for a, _ in o[1]], m, G)
    r, _ = geninv([b for _, b in o[1]], m, G)
    return [float(v) for v in l], [float(v) for v in r]


def kind_of(o):
    return {"N": o[2] if o[0] == "N" else None, "I": "ivl", "P": "pbox", "D": "dist", "S": "dss"}[o[0]]


def is_low(o):
    return o[0] in ("N", "I")


_BCACHE = {}


def bounds(o):
    """bounds of the operand as a p-box.  Numbers / intervals / p-boxes: their declared values; a DS structure: the independent
    reference `dss_reference` (NOT the library's conversion, which the conversion oracle compares with it); a distribution: the
    quantile list the library's to_pbox() returns (scipy ppf values are parameters), fetched once per distinct description"""
    key = json.dumps(o[:3], default=str)
    if key not in _BCACHE:
        if o[0] == "S":
            _BCACHE[key] = dss_reference(o)
        elif o[0] in ("N", "I"):
            _BCACHE[key] = declared_bounds(o)
        elif o[0] == "P":
            _BCACHE[key] = ([float(x) for x in o[1]], [float(x) for x in o[2]])
        else:
            from pyuncertainnumber.pba.operation import convert
            with warnings.catch_warnings():
                warnings.simplefilter("ignore")
                p = convert(build(o))
            _BCACHE[key] = ([float(x) for x in p.left], [float(x) for x in p.right])
    return _BCACHE[key]


def wire_opd(o):
    k = o[0]
    if k == "N":
        return "N:" + q(int(o[1]) if o[2] == "int" else float(o[1]))
    if k == "I":
        return f"I:{q(o[1])}:{q(o[2])}"
    if k == "P":
        return f"P:{ql(o[1])}:{ql(o[2])}"
    l, r = bounds(o)
    if k == "D":
        return f"D:{ql(l)}"
    return f"S:{ql(l)}:{ql(r)}"


def exact_opd(o):
    """all values integers / dyadic so that + - * are exact in binary64"""
    if o[0] == "N":
        return abs(float(o[1])) <= 2 ** 20 and float(o[1]) * 8 == int(float(o[1]) * 8)
    if o[0] == "I":
        return all(abs(float(v)) <= 2 ** 20 and float(v) * 8 == int(float(v) * 8) for v in o[1:3])
    if o[0] == "P":
        return all(float(v) == int(v) for v in o[1] + o[2])
    if o[0] == "S":
        l, r = bounds(o)
        return all(float(v) == int(v) for v in l + r)
    return False


def short(o):
    if o[0] == "P":
        return ["P", {"n": len(o[1]), "left": [o[1][0], o[1][-1]], "right": [o[2][0], o[2][-1]], "full": [list(o[1]), list(o[2])]}] + list(o[3:])
    return list(o)


def unshort(o):
    if o[0] == "P" and isinstance(o[1], dict):
        return ("P", o[1]["full"][0], o[1]["full"][1]) + tuple(o[2:])
    return tuple(o)


# ---------------------------------------------------------------------------------------------
# the real code
def canon(r):
    from pyuncertainnumber.pba.pbox_abc import Pbox
    from pyuncertainnumber.pba.intervals.number import Interval
    if isinstance(r, Pbox):
        l = [float(x) for x in np.asarray(r.left).ravel()]
        rr = [float(x) for x in np.asarray(r.right).ravel()]
        if any(math.isnan(x) or math.isinf(x) for x in l + rr):
            return ("nonfinite", "P")
        return ("ok", "P", l, rr)
    if isinstance(r, Interval):
        return ("ok", "I", [float(r.lo)], [float(r.hi)])
    if isinstance(r, (int, float, np.floating, np.integer)) and not isinstance(r, bool):
        if math.isnan(float(r)) or math.isinf(float(r)):
            return ("nonfinite", "N")
        return ("ok", "N", [float(r)], [float(r)])
    return ("ok", "other:" + type(r).__name__, [], [])


_LAST = [None]     # the real object the last expression returned (kept alive and re-read later)


def run_expr(dep, op, L, R, bare_default=False):
    """`L op R` inside `pba.dependency(dep)`; with `bare_default` (only for dep == 'f') outside any context manager, so the
    library's default ambient dependency is what is exercised"""
    P = pba()
    try:
        with warnings.catch_warnings():
            warnings.simplefilter("ignore")
            if bare_default and dep == "f":
                res = pbx.PYOPS[op](L, R)
            else:
                with P.dependency(dep):
                    res = pbx.PYOPS[op](L, R)
            _LAST[0] = res
            return canon(res)
    except BaseException as e:  # noqa
        return ("err", err_kind(e))


def run_meth(dep, op, L, R):
    try:
        with warnings.catch_warnings():
            warnings.simplefilter("ignore")
            res = getattr(L, op)(R, dependency=dep)
            _LAST[0] = res
            return canon(res)
    except BaseException as e:  # noqa
        return ("err", err_kind(e))


def conv_first(o):
    from pyuncertainnumber.pba.operation import convert
    with warnings.catch_warnings():
        warnings.simplefilter("ignore")
        return convert(build(o))


def run_conv(which, o):
    from pyuncertainnumber.pba.operation import convert
    from pyuncertainnumber.pba.pbox_abc import convert_pbox
    try:
        with warnings.catch_warnings():
            warnings.simplefilter("ignore")
            return canon((convert if which == "o" else convert_pbox)(build(o)))
    except BaseException as e:  # noqa
        return ("err", err_kind(e))


def parse_model(s):
    t = s.split()
    if t[0] == "err":
        return ("err", t[1])
    if t[0] == "ok" and t[1] == "P":
        return ("ok", "P", unql(t[2]), unql(t[3]))
    if t[0] == "ok" and t[1] == "I":
        return ("ok", "I", [unq(t[2])], [unq(t[3])])
    if t[0] == "ok" and t[1] == "N":
        return ("ok", "N", [unq(t[2])], [unq(t[2])])
    return ("bad", s)


def same(impl, model, exact, depth=24):
    if impl[0] != model[0]:
        return False
    if impl[0] == "err":
        return impl[1] == model[1]
    if impl[0] != "ok" or impl[1] != model[1]:
        return False
    return pbx.same(("ok", impl[2], impl[3]), ("ok", model[2], model[3]), exact, depth)


def same_scaled(impl, model, exact, scale, depth=48):
    """like `same`, with the tolerance tied to `scale` (the magnitude of the operands: a history can cancel, e.g. (D - P) - D)"""
    if exact or impl[0] != "ok" or model[0] != "ok":
        return same(impl, model, exact, depth)
    if impl[1] != model[1] or len(impl[2]) != len(model[2]) or len(impl[3]) != len(model[3]):
        return False
    tol = F(4 * depth) * F(core.ulp(float(scale)))
    return all(abs(F(a) - b) <= tol for a, b in zip(impl[2] + impl[3], model[2] + model[3]))


def js(t):
    if t is None:
        return None
    if t[0] == "ok":
        return [t[1]] + pbx.js(("ok", t[2], t[3]))[1:]
    return list(t)


# ---------------------------------------------------------------------------------------------
# exact references
def zero_in(l, r):
    return any(a <= 0 <= b for a, b in zip(l, r))


def ref_focal(op, xb, yb):
    """one operand is constant (number / interval): combine every focal step of the other operand with it by exact
    interval arithmetic, sort lower and upper endpoints.  None when a divisor contains zero."""
    (l1, r1), (l2, r2) = (fr(xb[0]), fr(xb[1])), (fr(yb[0]), fr(yb[1]))
    lo, hi = [], []
    n = len(l1)
    for k in range(n):
        h = pbx.ivl_hull(op, l1[k], r1[k], l2[k], r2[k])
        if h is None:
            return None
        lo.append(h[0]); hi.append(h[1])
    return sorted(lo), sorted(hi)


def straddles(b):
    return min(b[0]) < 0 < max(b[1])


def fast_ok(res, Lf, Uf, scale, mode):
    """binary64 pre-check with half the tolerance: True = certainly inside the tolerance of the exact comparison
    (reference values given as floats carry at most a few ulp of their own rounding); False = decide exactly"""
    a, b = np.asarray(res[2], dtype=float), np.asarray(res[3], dtype=float)
    Lf, Uf = np.asarray(Lf, dtype=float), np.asarray(Uf, dtype=float)
    if a.shape != Lf.shape or b.shape != Uf.shape:
        return False
    tol = 2 * 16 * core.ulp(float(scale))
    if mode == "enc":
        return bool(np.all(a <= Lf + tol) and np.all(b >= Uf - tol))
    return bool(np.all(np.abs(a - Lf) <= tol) and np.all(np.abs(b - Uf) <= tol))


def ref_focal_fast(op, xb, yb):
    l1, r1, l2, r2 = (np.asarray(v, dtype=float) for v in (xb[0], xb[1], yb[0], yb[1]))
    if op == "div" and np.any((l2 <= 0) & (r2 >= 0)):
        return None
    f = {"add": np.add, "sub": np.subtract, "mul": np.multiply, "div": np.divide}[op]
    with np.errstate(all="ignore"):
        cs = [f(l1, l2), f(l1, r2), f(r1, l2), f(r1, r2)]
    return np.sort(np.minimum.reduce(cs)), np.sort(np.maximum.reduce(cs))


def cmp_bounds(res, L, U, scale, mode):
    """mode 'eq': result bounds equal the reference; 'enc': result encloses the reference. returns witness or None"""
    resL, resR = fr(res[2]), fr(res[3])
    if len(resL) != len(L) or len(resR) != len(U):
        return {"why": "length", "len": len(resL)}
    for k in range(len(L)):
        okl = pbx.tol_le(resL[k], L[k], scale) and (mode == "enc" or pbx.tol_le(L[k], resL[k], scale))
        okr = pbx.tol_le(U[k], resR[k], scale) and (mode == "enc" or pbx.tol_le(resR[k], U[k], scale))
        if not okl:
            return {"why": "left", "step": k, "reported": float(resL[k]), "reference": float(L[k])}
        if not okr:
            return {"why": "right", "step": k, "reported": float(resR[k]), "reference": float(U[k])}
    return None


def op_scale(op, xb, yb, *refs):
    """magnitude the rounding of one operation is relative to: for x and / the results themselves (every product / quotient is
    correctly rounded; tiny operands give tiny tolerances), for + and - also the operands (cancellation).  No floor at 1."""
    m = 5e-324
    lists = list(refs) + ([] if op in ("mul", "div") else [xb[0], xb[1], yb[0], yb[1]])
    for l in lists:
        for v in l:
            a = abs(float(v))
            if a > m and a != float("inf"):
                m = a
    return m


def scale_of(*lists):
    m = 1
    for l in lists:
        for v in l:
            a = abs(v)
            if a > m:
                m = a
    return m


# ---------------------------------------------------------------------------------------------
# generators
def gen_num(rng, sign, ty, exact=True):
    if sign == "str":
        v = rng.choice([0, 0, 1, -1, 2, -3])
    else:
        v = rng.randint(1, 9) * (1 if sign == "pos" else -1)
    if ty == "float":
        v = v + rng.choice([0, 0.5, 0.25, 0.125]) * (1 if v >= 0 else -1) if exact else v * rng.uniform(0.5, 1.5)
        if sign == "str" and exact and rng.random() < 0.3:
            v = 0.0
        return ("N", float(v), "float")
    return ("N", int(v), "int")


def gen_ivl(rng, sign, exact=True):
    w = rng.choice([0, 1, 1, 2, 5]) if exact else rng.uniform(0, 4)
    if sign == "pos":
        a = rng.choice([0, 1, 1, 2, 3, 7]) if exact else rng.uniform(0.1, 5)
        b = a + w
        if a == 0 and b == 0:
            b = 2
    elif sign == "neg":
        b = -rng.choice([0, 1, 1, 2, 3, 7]) if exact else -rng.uniform(0.1, 5)
        a = b - w
        if a == 0 and b == 0:
            a = -2
    else:
        a = -rng.randint(1, 5) if exact else -rng.uniform(0.1, 5)
        b = rng.randint(1, 5) if exact else rng.uniform(0.1, 5)
    return ("I", a, b)


def gen_pbox(rng, sign, exact=True):
    if exact:
        l, r = pbx.int_box200(rng, sign)
        rep = rng.choice(["float", "float", "int", "list"])
        return ("P", [int(x) for x in l], [int(x) for x in r]) + (() if rep == "float" else (rep,))
    l, r, _ = pbx.lib_box200(rng, sign)
    return ("P", l, r)


def gen_dist(rng, sign):
    o = _gen_dist(rng, sign)
    return o + (("list",) if rng.random() < 0.25 else ())


def _gen_dist(rng, sign):
    fam = rng.choice(["gaussian", "uniform", "gaussian", "exponential", "gamma", "beta"])
    if sign == "str":
        fam = rng.choice(["gaussian", "uniform"])
        if fam == "gaussian":
            return ("D", "gaussian", [rng.choice([0.0, 0.5, -1.0]), rng.choice([1.0, 2.0])])
        return ("D", "uniform", [-rng.choice([1.0, 2.0]), rng.choice([1.0, 3.0])])
    if fam in ("exponential", "gamma", "beta") and sign == "neg":
        fam = "gaussian"
    if fam == "gaussian":
        s = rng.choice([0.5, 1.0])
        m = rng.choice([6.0, 8.0, 10.5])
        return ("D", "gaussian", [m if sign == "pos" else -m, s])
    if fam == "uniform":
        a = rng.choice([0.5, 1.0, 2.0]); b = a + rng.choice([1.0, 2.5])
        return ("D", "uniform", [a, b] if sign == "pos" else [-b, -a])
    if fam == "exponential":
        return ("D", "exponential", [rng.choice([0.5, 1.0, 2.0])])
    if fam == "gamma":
        return ("D", "gamma", [rng.choice([2.0, 3.0]), rng.choice([1.0, 2.0])])
    return ("D", "beta", [rng.choice([2.0, 3.0]), rng.choice([2.0, 5.0])])


def gen_dss(rng, sign):
    k = rng.choice([2, 2, 3, 4])
    masses = {2: [[0.5, 0.5], [0.25, 0.75]], 3: [[0.5, 0.25, 0.25]], 4: [[0.25] * 4, [0.5, 0.125, 0.125, 0.25]]}[k]
    m = rng.choice(masses)
    ivs = []
    for _ in range(k):
        a = rng.randint(-6, 6); ivs.append([a, a + rng.choice([0, 1, 2, 4])])
    lo = min(x[0] for x in ivs); hi = max(x[1] for x in ivs)
    if sign == "pos" and lo <= 0:
        ivs = [[a + 1 - lo, b + 1 - lo] for a, b in ivs]
    elif sign == "neg" and hi >= 0:
        ivs = [[a - 1 - hi, b - 1 - hi] for a, b in ivs]
    elif sign == "str" and not (lo < 0 < hi):
        mid = (lo + hi) // 2
        ivs = [[a - mid - 1, b - mid + 1] for a, b in ivs]
    rep = rng.choice(["pairs", "pairs", "intervals", "vec", "mixed", "tuple"])
    return ("S", ivs, m) + (() if rep == "pairs" else (rep,))


def gen_opd(rng, kind, sign, exact=True):
    if kind in ("int", "float"):
        return gen_num(rng, sign, kind, exact)
    if kind == "ivl":
        return gen_ivl(rng, sign, exact)
    if kind == "pbox":
        return gen_pbox(rng, sign, exact)
    if kind == "dist":
        return gen_dist(rng, sign)
    return gen_dss(rng, sign)


def scale_opd(o, k):
    """the operand with every value multiplied by 2**k (exact in binary64 for the integer / dyadic families)"""
    f = 2.0 ** k
    if o[0] == "N":
        return ("N", float(o[1]) * f, "float")
    if o[0] == "I":
        return ("I", float(o[1]) * f, float(o[2]) * f)
    if o[0] == "P":
        return ("P", [float(v) * f for v in o[1]], [float(v) * f for v in o[2]])
    if o[0] == "S":
        return ("S", [[float(a) * f, float(b) * f] for a, b in o[1]], list(o[2]))
    if o[0] == "D" and o[1] in ("gaussian", "uniform"):
        return ("D", o[1], [float(v) * f for v in o[2]])
    return o


def gen_cases(ctx):
    rng = ctx.rng
    cases = []
    signs = ["pos", "neg", "str"]
    # grid: every ordered kind pair x operation x ambient dependency; sign classes rotate so that every
    # (pair, op) meets all nine sign combinations over the dependencies and repetitions
    reps = ctx.scale(1, 8)
    for rep in range(reps):
        for lk in KINDS:
            for rk in KINDS:
                for op in OPS:
                    sp = [(a, b) for a in signs for b in signs]
                    rng.shuffle(sp)
                    for di, dep in enumerate(DEPS):
                        sl, sr = sp[di]
                        if op == "div" and sr == "str" and rng.random() < 0.8:
                            sr = rng.choice(["pos", "neg"])
                        exact = rng.random() < 0.8
                        quick = ctx.tier != "thorough"
                        if quick and dep == "i":
                            # the model sorts n*n 53-bit rationals for every independent case with a non-integer operand (about a
                            # second each): the quick tier keeps integer operands there and half of the distribution cells
                            exact = True
                        l, r = gen_opd(rng, lk, sl, exact), gen_opd(rng, rk, sr, exact)
                        if quick and dep == "i" and "dist" in (lk, rk) and op in ("sub", "div"):
                            continue
                        cases.append(("expr", dep, op, l, r))
    # witnesses of the defects repaired in the worktree (always present)
    I12, Pw = ("I", 1, 2), ("P", [4] * 100 + [6] * 100, [5] * 100 + [9] * 100)
    Dw, Sw = ("D", "gaussian", [8.0, 1.0]), ("S", [[1, 5], [3, 6]], [0.5, 0.5])
    for op in OPS:
        for X in (Pw, Dw, Sw):
            cases.append(("expr", "f", op, I12, X))
        cases.append(("expr", "f", op, ("N", 3, "int"), Dw))
        cases.append(("expr", "f", op, ("N", 2.5, "float"), Dw))
        cases.append(("expr", "p", op, Dw, ("I", -1, 2)))
        cases.append(("expr", "o", op, ("D", "gaussian", [0.0, 1.0]), Pw))
        cases.append(("expr", "i", op, I12, ("D", "uniform", [-1.0, 3.0])))
    cases.append(("expr", "f", "div", Pw, Dw))
    # witness of KF-C07-frechet-precise-straddle-rounding (open)
    cases.append(("expr", "f", "div", ("D", "gaussian", [-1.0, 2.0]), ("N", -9, "int")))
    cases.append(("spec", "f", "div", ("D", "gaussian", [-1.0, 2.0]), ("N", 9, "int")))
    # dependency-sensitive pairs (always present): a zero-straddling constant with a zero-straddling p-box-like operand,
    # where Frechet is strictly wider than p/o/i — an operator that forgets the ambient dependency is seen here
    Ps = ("P", [-3] * 50 + [-1] * 50 + [1] * 100, [-2] * 50 + [0] * 50 + [4] * 100)
    Ds, Ss = ("D", "gaussian", [0.5, 1.0]), ("S", [[-3, 1], [-1, 2], [0, 4]], [0.5, 0.25, 0.25])
    Pp, Dp, Sp = ("P", [1] * 100 + [3] * 100, [2] * 100 + [5] * 100), ("D", "uniform", [1.0, 3.0]), ("S", [[1, 2], [2, 5]], [0.5, 0.5])
    for dep in ("p", "o", "i"):
        for H, Hp in ((Ps, Pp), (Ds, Dp), (Ss, Sp)):
            cases.append(("expr", dep, "mul", ("I", -1, 2), H))
            cases.append(("expr", dep, "mul", H, ("I", -1, 2)))
            cases.append(("expr", dep, "div", ("I", -1, 2), Hp))
            cases.append(("expr", dep, "div", H, ("I", 1, 2)))
            cases.append(("expr", dep, "mul", ("N", -2, "int"), H))
            cases.append(("expr", dep, "sub", ("I", -1, 2), H))
    # explicit-dependency methods on a p-box / DS structure with an operand of any kind
    for _ in range(ctx.scale(80, 2500)):
        lk = rng.choice(["pbox", "pbox", "dss"])
        rk = rng.choice(KINDS)
        op, dep = rng.choice(OPS), rng.choice(DEPS)
        sl, sr = rng.choice(signs), rng.choice(signs)
        if op == "div" and sr == "str" and rng.random() < 0.8:
            sr = rng.choice(["pos", "neg"])
        exact = rng.random() < 0.7
        cases.append(("meth", dep, op, gen_opd(rng, lk, sl, exact), gen_opd(rng, rk, sr, exact)))
    # low x low: the embedded expression under every dependency (property: constant p-box of the interval result)
    for _ in range(ctx.scale(40, 800)):
        lk, rk = rng.choice(LOW), rng.choice(LOW)
        op = rng.choice(OPS)
        sl, sr = rng.choice(signs), rng.choice(signs)
        if op == "div" and sr == "str":
            sr = rng.choice(["pos", "neg"])
        exact = rng.random() < (0.8 if ctx.tier == "thorough" else 0.92)
        l, r = gen_opd(rng, lk, sl, exact), gen_opd(rng, rk, sr, exact)
        for dep in DEPS:
            cases.append(("spec", dep, op, l, r))
    # ---- operands touching zero (upper or lower endpoint exactly 0): the sign routing of the Frechet product / quotient
    Z0 = [("I", -2, 0), ("I", 0, 3), ("I", -5, 0)]
    for T in Z0:
        for Y in (("I", 1, 3), ("I", 0, 3), ("I", -4, -1), ("I", -1, 2)):
            cases.append(("spec", "f", "mul", T, Y))
            cases.append(("spec", "f", "mul", Y, T))
        cases.append(("spec", "f", "div", T, ("I", 1, 3)))
        for H in (Pw, Dw, Sw):
            cases.append(("expr", "f", "mul", T, H))
            cases.append(("expr", "f", "mul", H, T))
        cases.append(("expr", "f", "div", T, Pw))
    Pz = ("P", [-6] * 100 + [-2] * 100, [-3] * 100 + [0] * 100)       # a p-box whose upper end is exactly 0
    for Y in (I12, ("I", 0, 3), Pw, Dw, ("N", 2, "int")):
        cases.append(("expr", "f", "mul", Pz, Y))
        cases.append(("expr", "f", "mul", Y, Pz))
    # ---- Interval x Interval over the nine sign classes (the library's own interval arithmetic against the exact hull, and the
    # embedded expression against it: the embedding must commute with the operation)
    cls = [("I", 1, 3), ("I", 0, 2), ("I", -4, -1), ("I", -3, 0), ("I", -1, 2), ("I", -5, 1), ("I", 2, 2), ("I", 0, 0), ("I", -2, -2)]
    for A in cls:
        for B in cls:
            cases.append(("expr", "f", "mul", A, B))
            if not (B[1] <= 0 <= B[2]):
                cases.append(("expr", "f", "div", A, B))
    for A in cls[:6]:
        for B in cls[:6]:
            cases.append(("spec", rng.choice(DEPS), "mul", A, B))
    # ---- magnitudes: the fixed families once more with ONE operand (x, /) or BOTH operands (+, -) scaled by a power of two, so
    # that every value stays exact: tiny (2^-580: a product of two such endpoints underflows; 2^-70, 2^-30) and huge (2^36, 2^500)
    base = []
    for T in (("I", -1, 2), ("I", -2, 0), ("I", 0, 3), ("I", 1, 2), ("I", -4, -1), ("N", 3, "int"), ("N", -2.5, "float")):
        for H in (Pw, Ps, Sw, Ss, Dw, Ds, ("I", 2, 3), ("I", -1, 2)):
            base.append((T, H))
    scales = (-580, -70, 36) if ctx.tier != "thorough" else (-580, -560, -70, -30, 36, 500)
    j = 0
    for bi, (T, H) in enumerate(base):
        for oi, op in enumerate(OPS):
            j += 1
            if ctx.tier != "thorough" and (bi + oi) % 2:
                continue
            ks = scales if ctx.tier == "thorough" else (scales[j % len(scales)],)
            for k2 in ks:
                for order in ((0, 1) if ctx.tier == "thorough" else (j % 2,)):
                    a, b = (T, H) if order == 0 else (H, T)
                    if op in ("add", "sub"):
                        a, b = scale_opd(a, k2), scale_opd(b, k2)
                    elif (j // 2) % 2 == 0:
                        a = scale_opd(a, k2)
                    else:
                        b = scale_opd(b, k2)
                    dep = DEPS[j % 4] if (ctx.tier == "thorough" or j % 3) else "f"
                    if dep == "i" and ctx.tier != "thorough" and ((a[0] == "D" or b[0] == "D") or j % 16):
                        dep = "f" if j % 2 else "o"      # n*n sorts of 600-bit rationals are slow in the model: few in the quick tier
                    form = "spec" if (is_low(a) and is_low(b)) else "expr"
                    if ctx.tier != "thorough" and form == "expr" and dep == "f" and op in ("mul", "div") and (j // 4) % 4 \
                            and (straddles(bounds(a)) or straddles(bounds(b))):
                        continue      # naive x Balch on 600-bit rationals: a quarter of them in the quick tier
                    cases.append((form, dep, op, a, b))
    # ---- thin but not degenerate intervals (relative width 1e-9 .. 1e-5, tiny absolute magnitudes): nothing may treat them as points
    thin = [("I", 2000.0, 2000.01), ("I", 1e5, 1e5 + 0.5), ("I", 1e6, 1e6 + 5.0), ("I", -3000.001, -3000.0),
            ("I", 2e-9, 8e-9), ("I", 1.0, 1.0 + 2.0 ** -20), ("I", 7.0, 7.0 + 7e-9)]
    partners = [Pw, Dw, Sw, ("P", [-3] * 50 + [-1] * 50 + [1] * 100, [-2] * 50 + [0] * 50 + [4] * 100), ("D", "gaussian", [0.5, 1.0])]
    k = 0
    for T in thin:
        for op in OPS:
            for order in (0, 1):
                H = partners[k % len(partners)]
                dep = DEPS[(k // 2) % 4] if ctx.tier == "thorough" else ("f", "p", "o", "f", "p", "o", "i")[k % 7]
                k += 1
                if op == "div" and order == 0 and divisor_has_zero(op, H):
                    H = Pw
                cases.append(("expr", dep, op, T, H) if order == 0 else ("expr", dep, op, H, T))
        cases.append(("meth", rng.choice(DEPS), rng.choice(OPS), Pw, T))
        cases.append(("meth", rng.choice(DEPS), rng.choice(["add", "sub", "mul"]), ("S", [[1, 5], [3, 6]], [0.25, 0.75]), T))
        for dep in ("f", "p"):
            cases.append(("spec", dep, rng.choice(OPS), I12, T))
            cases.append(("spec", dep, rng.choice(["add", "sub", "mul"]), T, ("I", -1, 2)))
    # ---- sequences: DS structures with the SAME focal elements and different masses one after the other (and again the
    # first), in every operand position; the p-box of each must be the one of ITS masses
    for ivs, ms in (([[1, 5], [3, 6]], ([0.5, 0.5], [0.25, 0.75], [0.75, 0.25], [0.5, 0.5])),
                    ([[-3, 1], [-1, 2], [0, 4]], ([0.5, 0.25, 0.25], [0.25, 0.25, 0.5], [0.125, 0.75, 0.125]))):
        for m in ms:
            Sm = ("S", ivs, m)
            cases.append(("conv", "p", None, Sm, None))
            cases.append(("expr", "f", "add", Sm, ("I", 10, 12)))
            cases.append(("expr", "p", "sub", ("I", 10, 12), Sm))
            cases.append(("expr", "o", "mul", Sm, ("N", 3, "int")))
            cases.append(("expr", "f", "add", Pw, Sm))
            cases.append(("meth", "i", "add", Sm, Dw))
    # ---- extreme constants as number operands: below machine epsilon and above 2**53
    for cst in (1e-20, 2.0 ** -60, 1.380649e-23, -3e-18, 1e18, -2.5e17, 9007199254740993.0):
        for H in (Pw, Dw, Sw):
            for op in OPS:
                dep = rng.choice(["f", "f", "p", "o"])
                cases.append(("expr", dep, op, H, ("N", cst, "float")))
                if rng.random() < 0.6:
                    cases.append(("expr", dep, op, ("N", cst, "float"), H))
    # ---- numeric types of a number operand (Fraction, Python int beyond 2**53, float32 / float16 / longdouble scalars) and float32
    # p-box bounds: the result is the binary64 computation on the same values
    nums = [("N", 1 / 3, "float", "fraction"), ("N", -2.75, "float", "fraction"), ("N", float(2 ** 60 + 1), "float", "bigint"),
            ("N", float(np.float32(0.1)), "float", "float32"), ("N", float(np.float16(-2.5)), "float", "float16"),
            ("N", 0.1, "float", "longdouble")]
    P32 = ("P", [4] * 100 + [6] * 100, [5] * 100 + [9] * 100, "f32")
    for ci, cn in enumerate(nums):
        for hi_, H in enumerate((Pw, Dw, Sw, P32)):
            for oi, op in enumerate(OPS):
                if ctx.tier != "thorough" and (ci + hi_ + oi) % 2:
                    continue
                dep = rng.choice(["f", "p", "o"])
                cases.append(("expr", dep, op, H, cn))
                if rng.random() < 0.5:
                    cases.append(("expr", dep, op, cn, H))
    for H in (I12, Dw, Sw, ("N", 3, "int")):
        for op in OPS:
            cases.append(("expr", rng.choice(DEPS), op, P32, H))
            cases.append(("expr", rng.choice(DEPS), op, H, P32))
    # conversions
    for _ in range(ctx.scale(40, 400)):
        k = rng.choice(KINDS)
        o = gen_opd(rng, k, rng.choice(signs), rng.random() < 0.7)
        cases.append(("conv", rng.choice(["p", "o"]), None, o, None))
    # malformed / outside the property: unknown dependency code, zero divisors (error kinds only)
    for op in OPS:
        cases.append(("meth", "u", op, Pw, I12))
        cases.append(("meth", "u", op, Pw, ("N", 2, "int")))
    for Z in (("I", 0, 2), ("I", -1, 1), ("I", -3, 0), ("N", 0, "int"), ("N", 0.0, "float")):
        for X in (Pw, Dw, Sw, I12, ("N", 3, "int")):
            cases.append(("expr", "f", "div", X, Z))
    return cases


def wire(c):
    form, dep, op, l, r = c
    if form == "conv":
        return f"conv {N} {dep} {wire_opd(l)}"
    return f"{form} {N} {dep} {op} {wire_opd(l)} {wire_opd(r)}"


# ---------------------------------------------------------------------------------------------
def model_batch_par(reqs, workers=None):
    """the compiled model on all requests; the driver is a pure line filter, so the batch is dealt round-robin to a few
    driver processes (n*n sorts of 53-bit rationals cost about a second each)"""
    import os
    from concurrent.futures import ThreadPoolExecutor
    workers = workers or max(1, min(12, (os.cpu_count() or 2) - 2, len(reqs) // 8 or 1))
    chunks = [list(range(w, len(reqs), workers)) for w in range(workers)]
    with ThreadPoolExecutor(workers) as ex:
        outs = list(ex.map(lambda ix: core.model_batch("C07", [reqs[i] for i in ix]), chunks))
    res = [None] * len(reqs)
    for ix, out in zip(chunks, outs):
        for i, o in zip(ix, out):
            res[i] = o
    return res


def declared_bounds(o):
    if o[0] == "N":
        v = float(int(o[1]) if o[2] == "int" else o[1])
        return ([v] * N, [v] * N)
    return ([float(o[1])] * N, [float(o[2])] * N)


def zero_width_end(b):
    """the lowest or the highest step of the converted operand is a point"""
    return b[0][0] == b[1][0] or b[0][-1] == b[1][-1]


def rounding_raise(feat, impl):
    return (impl[0] == "err" and impl[1] == "Other" and feat["dep"] == "f" and feat["op"] in ("mul", "div")
            and feat["lw0"] and feat["rw0"] and "str" in (feat["sl"], feat["sr"]))


def divisor_has_zero(op, r):
    if op != "div":
        return False
    b = bounds(r)
    return zero_in(b[0], b[1]) or (min(b[0]) < 0 < max(b[1]))


def check_result(ctx, rng, form, dep, op, l, r, impl, feat, case):
    """semantic oracle on a p-box result of `l op r` under `dep` (real code output `impl`)"""
    lowl, lowr = is_low(l), is_low(r)
    # a number / interval enters the reference with its DECLARED value, not with what the library converted it to
    xb = declared_bounds(l) if lowl else bounds(l)
    yb = declared_bounds(r) if lowr else bounds(r)
    if divisor_has_zero(op, r):
        return
    if lowl or lowr:
        # constant operand: focal-wise exact interval arithmetic
        loose = dep == "f" and op in ("mul", "div") and (straddles(xb) or straddles(yb)) and not (lowl and lowr)
        fastref = ref_focal_fast(op, xb, yb)
        if fastref is not None:
            fscale = op_scale(op, xb, yb, fastref[0], fastref[1])
            if np.isfinite(fscale) and fast_ok(impl, fastref[0], fastref[1], fscale, "enc" if loose else "eq"):
                ctx.bump("oracle:focal-" + ("enc" if loose else "eq"))
                return
        ref = ref_focal(op, xb, yb)
        if ref is None:
            return
        L, U = ref
        scale = op_scale(op, xb, yb, L, U)
        w = cmp_bounds(impl, L, U, scale, "enc" if loose else "eq")
        ctx.bump("oracle:focal-" + ("enc" if loose else "eq"))
        if w is not None:
            what = "interval result as constant p-box" if (lowl and lowr) else "focal-wise shifted/scaled reference"
            ctx.fail({**feat, "check": "reference-" + w["why"], "symptom": "wrong-bounds"}, {**case, "witness": w},
                     f"{kind_of(l)} {op} {kind_of(r)} under {dep}: step {w.get('step')} {w['why']} bound is {w.get('reported')}, "
                     f"{what} gives {w.get('reference')}")
        return
    # both operands are p-box-like
    res = ("ok", impl[2], impl[3])
    if dep in ("p", "o", "i"):
        w = random_set_check(dep, op, xb, yb, res)
        ctx.bump("oracle:random-set")
        if w is not None:
            ctx.fail({**feat, "check": "random-set-" + w["why"], "symptom": "wrong-bounds"}, {**case, "witness": w},
                     f"{kind_of(l)} {op} {kind_of(r)} under {dep}: differs from the random-set combination of the converted operands at step {w.get('step')}: {w}")
    elif rng.random() < 0.5:
        from .c02 import check_validity
        w = check_validity(rng, op, xb, yb, res, exhaustive=False, nsel=0, ncoup=1)
        ctx.bump("oracle:frechet-validity")
        if w is not None:
            ctx.fail({**feat, "check": "frechet-validity", "symptom": "outcome-outside-step"}, {**case, "witness": w},
                     f"{kind_of(l)} {op} {kind_of(r)} under f: an order statistic of the outcomes falls outside result step {w['rank']}")


def random_set_check(dep, op, xb, yb, res):
    """random-set meaning of perfect / opposite / independent on the converted operands: focal pairs (k,k), (k,n-1-k) or
    all n*n pairs combined by interval arithmetic (four corners, numpy binary64 — a few ulp, inside the tolerance), endpoints
    sorted; p/o: equal to the result bounds; i: result step k inside the k-th block of n sorted endpoints."""
    l1, r1, l2, r2 = (np.array(v, dtype=float) for v in (xb[0], xb[1], yb[0], yb[1]))
    n = len(l1)
    if op == "div" and np.any((l2 <= 0) & (r2 >= 0)):
        return None
    f = {"add": np.add, "sub": np.subtract, "mul": np.multiply, "div": np.divide}[op]
    if dep == "o":
        l2, r2 = l2[::-1], r2[::-1]
    if dep == "i":
        a, b, c, d = l1[:, None], r1[:, None], l2[None, :], r2[None, :]
    else:
        a, b, c, d = l1, r1, l2, r2
    cs = [f(a, c), f(a, d), f(b, c), f(b, d)]
    lo = np.sort(np.minimum.reduce(cs).ravel()); hi = np.sort(np.maximum.reduce(cs).ravel())
    L, R = np.array(res[1], dtype=float), np.array(res[2], dtype=float)
    if len(L) != n or len(R) != n:
        return {"why": "length", "len": len(L)}
    scale = op_scale(op, xb, yb, lo, hi)
    tol = 4 * 24 * core.ulp(scale)
    if dep in ("p", "o"):
        for nm, got, ref in (("left", L, lo), ("right", R, hi)):
            bad = np.nonzero(np.abs(got - ref) > tol)[0]
            if len(bad):
                k = int(bad[0])
                return {"why": nm, "step": k, "reported": float(got[k]), "random_set": float(ref[k])}
        return None
    for nm, got, ref in (("left-block", L, lo), ("right-block", R, hi)):
        blk = ref.reshape(n, n)
        bad = np.nonzero((got < blk[:, 0] - tol) | (got > blk[:, -1] + tol))[0]
        if len(bad):
            k = int(bad[0])
            return {"why": nm, "step": k, "reported": float(got[k]), "block": [float(blk[k, 0]), float(blk[k, -1])]}
    return None


def snap(x):
    """the numbers an operand object holds (to see that an expression does not change its operands)"""
    from pyuncertainnumber.pba.pbox_abc import Pbox
    from pyuncertainnumber.pba.intervals.number import Interval
    from pyuncertainnumber.pba.dss import DempsterShafer
    if isinstance(x, Pbox):
        return ("P", np.asarray(x.left).tobytes(), np.asarray(x.right).tobytes())
    if isinstance(x, Interval):
        return ("I", float(x.lo), float(x.hi))
    if isinstance(x, DempsterShafer):
        return ("S", np.asarray(x._intervals.lo).tobytes(), np.asarray(x._intervals.hi).tobytes(), np.asarray(x._masses).tobytes())
    if isinstance(x, (int, float)):
        return ("N", x)
    return ("D", repr(getattr(x, "dist_params", None)), getattr(x, "dist_family", None))


# ---------------------------------------------------------------------------------------------
# histories: an operation applied to the result of a mixed-kind operation
SHAPES = ("L", "R", "S")     # (a op1 b) op2 c ;  a op1 (b op2 c) ;  (a op1 b) op2 a


def gen_chains(ctx):
    rng = ctx.rng
    out = []
    signs = ["pos", "neg", "str"]
    # fixed histories: every shape with a low sub-expression feeding a p-box operation and the reverse
    I12, Ineg, Dpos, Dstr = ("I", 1, 2), ("I", -3, -1), ("D", "gaussian", [8.0, 1.0]), ("D", "gaussian", [0.5, 1.0])
    Pw, Sw = ("P", [4] * 100 + [6] * 100, [5] * 100 + [9] * 100), ("S", [[1, 5], [3, 6]], [0.5, 0.5])
    for dep in DEPS:
        out.append((dep, "L", "sub", "mul", I12, Ineg, Dstr))          # (I - I) * D : interval calculus first
        out.append((dep, "L", "add", "div", ("N", 2, "int"), ("N", 3.5, "float"), Pw))   # (2 + 3.5) / P
        out.append((dep, "R", "sub", "mul", I12, Sw, ("N", -2, "int")))  # I - (S * -2)
        out.append((dep, "S", "sub", "sub", Dpos, Pw, None))            # (D - P) - D : the operand is used twice
        out.append((dep, "L", "mul", "sub", Dstr, I12, Sw))             # (D * I) - S
        out.append((dep, "R", "div", "add", Pw, ("I", -9, -7), Sw))     # P / (I + S) : the divisor is a computed p-box without zero
    for _ in range(ctx.scale(50, 2000)):
        sh = rng.choice(SHAPES)
        dep = rng.choice(DEPS)
        o1, o2 = rng.choice(OPS), rng.choice(OPS)
        if sh == "R" and o1 == "div":
            o1 = rng.choice(["add", "sub", "mul"])      # the divisor would be a computed sub-expression
        ks = [rng.choice(KINDS) for _ in range(3)]
        heavy = dep == "i" or (dep == "f" and ("mul" in (o1, o2) or "div" in (o1, o2)))
        if heavy and ctx.tier != "thorough":
            # n*n sorts of 53-bit rationals cost the model about a second each: in the quick tier such histories use
            # integer-valued p-box-like operands (distributions keep appearing under p/o and in Frechet sums)
            ks = [("dss" if k == "dist" else k) for k in ks]
        m = 2 if sh == "S" else 3
        if all(k in LOW for k in ks[:m]):
            ks[rng.randrange(m)] = rng.choice(["pbox", "dist", "dss"])
        sg = [rng.choice(signs) for _ in range(3)]
        # divisors are original operands of one sign
        if sh == "L":
            if o1 == "div" and sg[1] == "str": sg[1] = rng.choice(["pos", "neg"])
            if o2 == "div" and sg[2] == "str": sg[2] = rng.choice(["pos", "neg"])
        elif sh == "R":
            if o2 == "div" and sg[2] == "str": sg[2] = rng.choice(["pos", "neg"])
        else:
            if o1 == "div" and sg[1] == "str": sg[1] = rng.choice(["pos", "neg"])
            if o2 == "div" and sg[0] == "str": sg[0] = rng.choice(["pos", "neg"])
        exact = rng.random() < 0.8 or (heavy and ctx.tier != "thorough")
        a, b, c = (gen_opd(rng, ks[i], sg[i], exact) for i in range(3))
        out.append((dep, sh, o1, o2, a, b, None if sh == "S" else c))
    return out


def wire_chain(ch):
    dep, sh, o1, o2, a, b, c = ch
    return f"chain {N} {dep} {sh} {o1} {o2} {wire_opd(a)} {wire_opd(b)} {wire_opd(a if c is None else c)}"


def eval_chain(dep, sh, o1, o2, A, B, C, bare):
    """the history on native objects (bare operators under the ambient dependency)"""
    P = pba()
    f1, f2 = pbx.PYOPS[o1], pbx.PYOPS[o2]
    try:
        with warnings.catch_warnings():
            warnings.simplefilter("ignore")
            if bare:
                r = f2(f1(A, B), C) if sh == "L" else f1(A, f2(B, C)) if sh == "R" else f2(f1(A, B), A)
            else:
                with P.dependency(dep):
                    r = f2(f1(A, B), C) if sh == "L" else f1(A, f2(B, C)) if sh == "R" else f2(f1(A, B), A)
        return canon(r)
    except BaseException as e:  # noqa
        return ("err", err_kind(e))


def eval_chain_converted(dep, sh, o1, o2, a, b, c):
    """the same history with every operand converted first; returns (result, failing step description | None)"""
    x, y = conv_first(a), conv_first(b)
    z = x if c is None else conv_first(c)
    steps = {"L": [(o1, x, y), (o2, None, z)], "R": [(o2, y, z), (o1, x, None)], "S": [(o1, x, y), (o2, None, x)]}[sh]
    prev = None
    for op, u, v in steps:
        u = prev if u is None else u
        v = prev if v is None else v
        r = run_meth(dep, op, u, v)
        if r[0] != "ok":
            ub = ([float(t) for t in u.left], [float(t) for t in u.right])
            vb = ([float(t) for t in v.left], [float(t) for t in v.right])
            return r, {"op": op, "sl": pbx.sign_class(*ub)[:3], "sr": pbx.sign_class(*vb)[:3],
                       "lw0": zero_width_end(ub), "rw0": zero_width_end(vb), "zero_div": op == "div" and (zero_in(*vb) or min(vb[0]) < 0 < max(vb[1]))}
        prev = pbx.stair(r[2], r[3])
    return r, None


def recheck_alive(ctx, alive, when):
    """results handed out earlier are re-read: they must still hold the value they had when they were produced
    (a result that shares memory with a cache / work buffer / later result changes behind the caller's back)"""
    for obj, was, case in alive:
        now = canon(obj)
        ctx.bump("oracle:result-reread")
        if now != was:
            ctx.fail({"form": "alive", "check": "result-changed-later", "symptom": "result-changed-later", "op": case["op"], "dep": case["dep"]},
                     {**case, "was": js(was), "now": js(now), "when": when},
                     f"the p-box returned by an earlier expression ({case['form']} {case['op']}, {case['dep']}) changed afterwards ({when})")
            alive.remove((obj, was, case))
            return


def run_entry_points(ctx):
    """less common entry points of the same constructs: pba.<family>(...) vs Distribution(...), stacking / stochastic_mixture vs
    DempsterShafer: used as an operand of the same mixed expression they must give the same p-box (real code on both sides)"""
    P = pba()
    rng = ctx.rng
    X = [("I", 1, 2), ("P", [4] * 100 + [6] * 100, [5] * 100 + [9] * 100), ("N", 3, "int"), ("I", -1, 2)]
    dists = [("gaussian", (8.0, 1.0), lambda: P.normal(8.0, 1.0)), ("gaussian", (0.5, 2.0), lambda: P.normal(0.5, 2.0)),
             ("uniform", (1.0, 3.0), lambda: P.uniform(1.0, 3.0)), ("gamma", (2.0, 1.0), lambda: P.gamma(2.0, 1.0)),
             ("beta", (2.0, 5.0), lambda: P.beta(2.0, 5.0))]
    dsss = [([[1, 5], [3, 6]], [0.25, 0.75]), ([[-3, 1], [-1, 2], [0, 4]], [0.5, 0.25, 0.25]), ([[1, 5], [3, 6]], [0.5, 0.5])]
    for _ in range(ctx.scale(18, 400)):
        op, dep = rng.choice(OPS), rng.choice(DEPS)
        x = rng.choice(X)
        if op == "div":
            x = rng.choice(X[:3])
        order = rng.random() < 0.5
        if rng.random() < 0.5:
            fam, prm, alt = rng.choice(dists[:2] if op == "div" else dists)
            if op == "div" and prm[0] < 1:
                fam, prm, alt = dists[0]
            objs = [("Distribution(tuple)", lambda: P.Distribution(fam, tuple(prm))), ("Distribution(list)", lambda: P.Distribution(fam, list(prm))),
                    ("pba." + fam, alt), ("Distribution.to_pbox()", lambda: P.Distribution(fam, tuple(prm)).to_pbox())]
            if fam == "gaussian":
                import scipy.stats as sps
                # a frozen scipy object handed over: positional, keywords in either order, mixed (keyword order is the caller's)
                objs += [("dist_from_sps(norm(loc=, scale=))", lambda: P.Distribution.dist_from_sps(sps.norm(loc=prm[0], scale=prm[1]), shape="gaussian")),
                         ("dist_from_sps(norm(scale=, loc=))", lambda: P.Distribution.dist_from_sps(sps.norm(scale=prm[1], loc=prm[0]), shape="gaussian")),
                         ("dist_from_sps(norm(m, s))", lambda: P.Distribution.dist_from_sps(sps.norm(prm[0], prm[1]), shape="gaussian")),
                         ("dist_from_sps(norm(m, scale=))", lambda: P.Distribution.dist_from_sps(sps.norm(prm[0], scale=prm[1]), shape="gaussian"))]
            what = ["D", fam, list(prm)]
        else:
            ivs, m = rng.choice(dsss[:1] + dsss[2:] if op == "div" else dsss)
            objs = [("DempsterShafer", lambda: P.DempsterShafer([list(t) for t in ivs], list(m))),
                    ("stacking", lambda: P.stacking([P.I(a, b) for a, b in ivs], weights=list(m))),
                    ("stacking(vector interval)", lambda: P.stacking(P.I(np.array([float(a) for a, _ in ivs]), np.array([float(b) for _, b in ivs])), weights=np.array(m))),
                    ("DempsterShafer.to_pbox()", lambda: P.DempsterShafer([list(t) for t in ivs], list(m)).to_pbox())]
            what = ["S", ivs, m]
        res = []
        for name, mkobj in objs:
            try:
                o = mkobj()
                r = run_expr(dep, op, build(x), o) if order else run_expr(dep, op, o, build(x))
            except BaseException as e:  # noqa
                r = ("err", err_kind(e))
            res.append((name, r))
        ctx.count(("entry", op, dep, str(what), str(x), order), True, "entry-points")
        case = {"form": "entry", "op": op, "dep": dep, "construct": what, "other": short(x), "construct_on_the_right": order,
                "results": {n_: js(r_)[:1] for n_, r_ in res}}
        ref = res[0][1]
        for name, r in res[1:]:
            if r != ref:
                ctx.fail({"form": "entry", "op": op, "dep": dep, "check": "entry-points-differ", "symptom": "entry-points-differ", "entry": name}, case,
                         f"{name} and {res[0][0]} used in the same expression ({op}, {dep}) give different results")
                break
        if ref[0] == "err" and not (op == "div" and divisor_has_zero(op, tuple(what)) and order is False):
            ctx.fail({"form": "entry", "op": op, "dep": dep, "check": "raises", "symptom": "raises:" + ref[1]}, case, f"entry-point expression raised {ref[1]}")


def run_aliasing(ctx):
    """caller-visible aliasing: a p-box built from the caller's own float64 arrays of exactly Params.steps entries must not keep
    them; a result must not share memory with an operand; changing the buffers / a result in place afterwards changes nothing"""
    P = pba()
    S = pbx.Staircase()
    rng = ctx.rng
    for it in range(ctx.scale(10, 120)):
        l0, r0 = pbx.int_box200(rng, rng.choice(["pos", "neg", "str"]))
        bufL, bufR = np.array(l0, dtype=np.float64), np.array(r0, dtype=np.float64)
        keepL, keepR = bufL.copy(), bufR.copy()
        op, dep = rng.choice(["add", "sub", "mul"]), rng.choice(DEPS)
        yk = rng.choice(["ivl", "num", "dist", "dss", "pbox"])
        yo = {"ivl": ("I", 1, 2), "num": ("N", 3, "int"), "dist": ("D", "gaussian", [8.0, 1.0]), "dss": ("S", [[1, 5], [3, 6]], [0.25, 0.75]),
              "pbox": ("P", [4] * 100 + [6] * 100, [5] * 100 + [9] * 100)}[yk]
        left_side = rng.random() < 0.5
        case = {"form": "alias", "op": op, "dep": dep, "other": short(yo), "pbox_on_the_left": left_side,
                "pbox": {"left": [l0[0], l0[-1]], "right": [r0[0], r0[-1]]}}
        ctx.count(("alias", it, op, dep, yk, left_side), True, "aliasing")
        feat = {"form": "alias", "op": op, "dep": dep, "rkind": yk}
        try:
            with warnings.catch_warnings():
                warnings.simplefilter("ignore")
                X = S(left=bufL, right=bufR)
                Y = build(yo)
                was = canon(X)
                first_obj = None
                first = run_expr(dep, op, X, Y) if left_side else run_expr(dep, op, Y, X)
                first_obj, _LAST[0] = _LAST[0], None
        except BaseException as e:  # noqa
            ctx.fail({**feat, "check": "raises", "symptom": "raises:" + err_kind(e)}, case, f"aliasing stream: construction raised {err_kind(e)}")
            continue
        if first[0] != "ok":
            ctx.fail({**feat, "check": "raises", "symptom": "raises:" + str(first[1])}, case, f"aliasing stream: expression raised {first[1]}")
            continue
        bad = None
        if first_obj is X or first_obj is Y:
            bad = "the result IS one of the operand objects"
        elif hasattr(first_obj, "left") and any(np.shares_memory(np.asarray(a), np.asarray(b)) for a in (first_obj.left, first_obj.right)
                                                for b in (X.left, X.right, bufL, bufR) + ((Y.left, Y.right) if yk == "pbox" else ())):
            bad = "the result shares memory with an operand"
        if bad is None:
            # the caller goes on using its arrays as work buffers
            bufL *= 3.0; bufL -= 7.0; bufR[:] = bufR[::-1].copy() + 11.0
            if canon(X) != was:
                bad = "the p-box changed when the arrays it was built from were modified in place afterwards"
            else:
                second = run_expr(dep, op, X, Y) if left_side else run_expr(dep, op, Y, X)
                if second != first:
                    bad = "the same expression gives another answer after the caller modified its own arrays"
        if bad is None and hasattr(first_obj, "left"):
            first_obj.left[...] = -1e9                       # the caller scribbles over a result it owns
            if canon(X) != was or (yk == "pbox" and canon(Y) != canon(build(yo))):
                bad = "writing into a result changed an operand"
        if bad is None and not (np.array_equal(keepL * 3.0 - 7.0, bufL)):
            bad = "the caller's array was modified by the library"
        ctx.bump("oracle:aliasing")
        if bad:
            ctx.fail({**feat, "check": "aliasing", "symptom": "aliasing"}, case, f"p-box from caller-owned float64 arrays of {N} entries, {op} with {yk} under {dep}: {bad}")


def run_fp_state(ctx):
    """process-wide floating-point / warning settings: under np.errstate(all='raise') and under warnings-as-errors an expression gives
    the SAME value as under the default settings or raises - never another value; the ambient dependency and the operands stay as they were"""
    from pyuncertainnumber.pba.context import get_current_dependency
    rng = ctx.rng
    Pw, Ps = ("P", [4] * 100 + [6] * 100, [5] * 100 + [9] * 100), ("P", [-3] * 50 + [-1] * 50 + [1] * 100, [-2] * 50 + [0] * 50 + [4] * 100)
    pool = [("I", 1, 2), ("I", -1, 2), ("N", 3, "int"), ("N", -2.5, "float"), Pw, Ps, ("D", "gaussian", [8.0, 1.0]), ("D", "gaussian", [0.5, 1.0]),
            ("S", [[1, 5], [3, 6]], [0.25, 0.75]), ("S", [[-3, 1], [-1, 2], [0, 4]], [0.5, 0.25, 0.25]), ("I", 2e-9, 8e-9), ("N", 1e-20, "float")]
    for it in range(ctx.scale(16, 400)):
        l, r = rng.choice(pool), rng.choice(pool)
        if is_low(l) and is_low(r):
            r = rng.choice(pool[4:10])
        op, dep = rng.choice(OPS), rng.choice(DEPS)
        if op == "div" and divisor_has_zero(op, r):
            op = "mul"
        base = run_expr(dep, op, build(l), build(r))
        ctx.count(("fpstate", it, op, dep, str(l)[:40], str(r)[:40]), True, "fp-state")
        case = {"form": "fpstate", "op": op, "dep": dep, "l": short(l), "r": short(r), "default": js(base)}
        feat = {"form": "fpstate", "op": op, "dep": dep, "lkind": kind_of(l), "rkind": kind_of(r)}
        P = pba()
        for mode in ("errstate-raise", "warnings-error"):
            L, R = build(l), build(r)
            before = (snap(L), snap(R))
            try:
                if mode == "errstate-raise":
                    with np.errstate(all="raise"), warnings.catch_warnings():
                        warnings.simplefilter("ignore")
                        with P.dependency(dep):
                            got = canon(pbx.PYOPS[op](L, R))
                else:
                    with warnings.catch_warnings():
                        warnings.simplefilter("error")
                        with P.dependency(dep):
                            got = canon(pbx.PYOPS[op](L, R))
            except BaseException as e:  # noqa  (an escalated warning / FloatingPointError propagating is acceptable)
                got = ("err", err_kind(e))
            ctx.bump("oracle:fp-state-" + mode)
            if got[0] != "err" and got != base:
                ctx.fail({**feat, "check": "value-depends-on-" + mode, "symptom": "value-depends-on-global-state"}, {**case, mode: js(got)},
                         f"{kind_of(l)} {op} {kind_of(r)} under {dep}: a different value under {mode} than under the default settings")
            if get_current_dependency() != "f" or before != (snap(L), snap(R)):
                ctx.fail({**feat, "check": "state-not-restored-" + mode, "symptom": "state-not-restored"}, case,
                         f"after {mode}: ambient dependency {get_current_dependency()!r} / operands changed")
        again = run_expr(dep, op, build(l), build(r))
        if again != base:
            ctx.fail({**feat, "check": "not-repeatable", "symptom": "second-evaluation-differs"}, {**case, "again": js(again)},
                     "the default-settings value changed after the runs under altered floating-point / warning settings")


def run_chains(ctx, chains, chain_replies):
    replies, sreplies = chain_replies
    rng = ctx.rng
    for ch, rep, srep in zip(chains, replies, sreplies):
        dep, sh, o1, o2, a, b, c = ch
        model = parse_model(rep)
        smodel = parse_model(srep)
        ops3 = [a, b] + ([] if c is None else [c])
        ctx.count(("chain",) + tuple(map(str, ch)), True, "chain")
        ctx.bump(f"chain:{sh}")
        A, B = build(a), build(b)
        C = A if c is None else build(c)
        before = [snap(A), snap(B), snap(C)]
        bare = dep == "f" and rng.random() < 0.5
        impl = eval_chain(dep, sh, o1, o2, A, B, C, bare)
        after = [snap(A), snap(B), snap(C)]
        cf, cf_fail = eval_chain_converted(dep, sh, o1, o2, a, b, c)
        feat = {"form": "chain", "shape": sh, "dep": dep, "op1": o1, "op2": o2, "kinds": "/".join(kind_of(t) for t in ops3)}
        case = {"form": "chain", "dep": dep, "shape": sh, "op1": o1, "op2": o2, "a": short(a), "b": short(b),
                "c": None if c is None else short(c), "impl": js(impl)}
        ctx.sample(case, cap=8)
        exact = all(exact_opd(t) for t in ops3) and "div" not in (o1, o2)
        mag = max([1.0] + [abs(v) for t in ops3 for v in (bounds(t)[0][0], bounds(t)[0][-1], bounds(t)[1][0], bounds(t)[1][-1])])
        if impl[0] == "ok":
            mag = max([mag] + [abs(v) for v in impl[2] + impl[3]])
        mag = mag * mag if ("mul" in (o1, o2) or "div" in (o1, o2)) else mag
        rounding = cf_fail is not None and cf[0] == "err" and cf[1] == "Other" and dep == "f" and cf_fail["op"] in ("mul", "div") \
            and cf_fail["lw0"] and cf_fail["rw0"] and "str" in (cf_fail["sl"], cf_fail["sr"])
        zero_div = (cf_fail is not None and cf_fail["zero_div"]) or (impl[0] == "err" and impl[1] == "ZeroDivision")
        if impl[0] == "nonfinite" or zero_div:
            ctx.bump("chain:zero-divisor-skipped")
            continue
        if impl[0] == "err" and impl[1] == "Other" and model[0] == "ok" and dep == "f":
            ctx.bump("tie-skipped:rounding-dependent-raise")
        elif same_scaled(impl, model, exact, mag):
            ctx.tie_ok()
        else:
            ctx.tie_bad("chain", case, js(impl), js(model))
        # the converted-first history on the real code against the model's `specChain` (the function `chain_agrees` is about)
        if rounding and smodel[0] == "ok":
            ctx.bump("tie-skipped:rounding-dependent-raise")
        elif same_scaled(cf, smodel, exact, mag):
            ctx.tie_ok()
        else:
            ctx.tie_bad("chain-converted", case, js(cf), js(smodel))
        if before != after:
            ctx.fail({**feat, "check": "operand-mutated", "symptom": "operand-changed"}, case,
                     "an operand object was changed by evaluating the expression")
            continue
        known_feat = None if not rounding else {"form": "chain", "dep": "f", "op": cf_fail["op"], "symptom": "raises:Other", "lw0": True,
                                                "rw0": True, "sl": cf_fail["sl"], "sr": cf_fail["sr"], "check": "convert-first-raises"}
        if impl[0] == "err":
            ctx.fail(known_feat if (rounding and impl[1] == "Other") else {**feat, "check": "raises", "symptom": "raises:" + impl[1]},
                     case, f"history raised {impl[1]}")
            continue
        if cf[0] != "ok":
            if rounding:
                ctx.fail(known_feat, case, "converted-first history raises in the Frechet product of two zero-width-ended operands")
            else:
                ctx.fail({**feat, "check": "convert-first-raises", "symptom": "raises:" + str(cf[1])}, case,
                         f"history with every operand converted first failed: {cf[:2]} at {cf_fail}")
            continue
        if impl[1] != "P":
            ctx.fail({**feat, "check": "result-type", "symptom": "type:" + impl[1]}, case, f"history returned {impl[1]}")
            continue
        w = None if fast_ok(impl, cf[2], cf[3], mag * 4, "eq") else cmp_bounds(impl, fr(cf[2]), fr(cf[3]), F(mag) * 4, "eq")
        ctx.bump("oracle:chain-convert-first")
        if w is not None:
            ctx.fail({**feat, "check": "convert-first-" + w["why"], "symptom": "differs-from-converted"}, {**case, "witness": w},
                     f"history {sh} ({o1},{o2}) under {dep} differs from the history with every operand converted first: {w}")
            continue
        L_, R_ = impl[2], impl[3]
        if any(x > y for x, y in zip(L_, L_[1:])) or any(x > y for x, y in zip(R_, R_[1:])) or any(x > y for x, y in zip(L_, R_)):
            ctx.fail({**feat, "check": "ill-formed", "symptom": "ill-formed-result"}, case, "history returned an ill-formed p-box")



def run(ctx: core.Check):
    core.stub_moments()
    ctx.rule = ("grid: every ordered pair of operand kinds {int,float,Interval,Pbox,Distribution,DempsterShafer} x {+,-,*,/} x ambient "
                "dependency {f,p,o,i}, operands drawn per sign class (positive / negative / zero-straddling; integer-valued = exact "
                "stream, or library-constructed = general stream), bare operators; explicit-dependency methods of a p-box / DS structure "
                "with an operand of any kind; number/interval pairs embedded as p-boxes under every dependency; both conversion functions; "
                "histories (a op1 b) op2 c, a op1 (b op2 c), (a op1 b) op2 a over all kinds (the result of one expression is an operand of "
                "the next, the same operand object used twice), compared with the history on converted operands; operands must come out unchanged. "
                "Fixed streams: operands touching zero, thin but not degenerate intervals (relative width 1e-9..1e-5, [2e-9,8e-9]), number "
                "operands below machine epsilon and above 2**53, sequences of DS structures with the same focal elements and different masses "
                "(their p-box is referred to an independent belief/plausibility inverse, not to the library's conversion), operand "
                "representations (integer-dtype / list p-box bounds, list parameters, Interval-object / vector / mixed focal elements), other "
                "entry points (pba.<family>, stacking, Distribution.dist_from_sps with keywords in either order); results are kept alive and re-read, "
                "a sample of expressions is evaluated twice; power-of-two scaled families (2^-580 .. 2^500); number operands as Fraction / big int / "
                "float32 / float16 / longdouble and float32 bounds; p-boxes built from caller-owned float64 arrays that are then overwritten "
                "(no shared memory with operands or results); the same expressions under np.errstate(all='raise') and warnings-as-errors. "
                "Non-trivial = not (number op number); distinct on (form, dependency, operation, operands).")
    ctx.assumptions = ["a Distribution operand is represented by the quantile list its to_pbox() returns (scipy ppf values are parameters); "
                       "a DempsterShafer operand by the p-box of its to_pbox() (C08's subject)",
                       "binary64 rounding not modelled: integer/dyadic streams agree exactly for + - *, others within 4*24 ulp of the largest magnitude",
                       "moments (mean/var passed by Interval.to_pbox, LP moments) are not part of the compared result",
                       "division by an operand containing zero is outside the property (tie on the error kind / returned bounds only)",
                       "a raise that depends on binary64 rounding (imposition of two coinciding zero-width bounds, KF-C07-frechet-precise-"
                       "straddle-rounding) cannot be mirrored by the exact model: those cases are excluded from the tie count and reported by the oracle"]
    ctx.lean_stage(["Pun.Lemmas.Hier", "Pun.Lemmas.HierComm", "Pun.Lemmas.HierScale", "Pun.Lemmas.HierTotal",
                    "Pun.Props.C07", "Pun.Props.C07Route", "Pun.Props.C07Chain"])
    cases = gen_cases(ctx)
    chains = gen_chains(ctx)
    allrep = model_batch_par([wire(c) for c in cases] + [wire_chain(ch) for ch in chains] + ["s" + wire_chain(ch) for ch in chains])
    replies = allrep[:len(cases)]
    chain_replies = (allrep[len(cases):len(cases) + len(chains)], allrep[len(cases) + len(chains):])
    rng = ctx.rng
    alive, again = [], []
    for c, rep in zip(cases, replies):
        form, dep, op, l, r = c
        model = parse_model(rep)
        if form == "conv":
            run_conv_case(ctx, c, model)
            continue
        kl, kr = kind_of(l), kind_of(r)
        stream = form
        ctx.count((form, dep, op, l, r), not (l[0] == "N" and r[0] == "N"), stream)
        ctx.bump(f"pair:{kl}x{kr}")
        ctx.bump(f"dep:{dep}")
        exact = exact_opd(l) and exact_opd(r) and op != "div"
        L, R = build(l), build(r)
        before = (snap(L), snap(R))
        if form == "expr":
            bare = dep == "f" and rng.random() < 0.5
            if bare:
                ctx.bump("expr:default-dependency-no-context")
            impl = run_expr(dep, op, L, R, bare)
        elif form == "meth":
            impl = run_meth(dep, op, L, R)
        else:  # spec: every operand converted first, on the real code
            impl = run_meth(dep, op, conv_first(l), conv_first(r))
        mutated = before != (snap(L), snap(R))
        if form in ("expr", "meth") and impl[0] == "ok" and _LAST[0] is not None:
            alive.append((_LAST[0], impl, {"form": form, "dep": dep, "op": op, "l": short(l), "r": short(r)}))
            _LAST[0] = None
            if len(alive) > 64:
                alive.pop(0)
            if form == "expr" and len(again) < ctx.scale(24, 400) and ctx.evaluations % 17 == 0:
                again.append((c, impl, locals().get("bare", False)))
        if ctx.evaluations % 150 == 0:
            recheck_alive(ctx, alive, "after %d evaluations" % ctx.evaluations)
        feat = {"form": form, "op": op, "dep": dep, "lkind": kl, "rkind": kr,
                "sl": pbx.sign_class(*bounds(l))[:3], "sr": pbx.sign_class(*bounds(r))[:3],
                "lw0": zero_width_end(bounds(l)), "rw0": zero_width_end(bounds(r))}
        case = {"form": form, "dep": dep, "op": op, "l": short(l), "r": short(r), "impl": js(impl)}
        ctx.sample({k: v for k, v in case.items()})
        if impl[0] == "nonfinite" or (form == "spec" and op == "div" and model == ("err", "Value") and impl[0] == "err"):
            # a zero bound in a p-box divisor: numpy produces inf (or the bare `except` around `1 / other` turns the failure into
            # TypeError); the model's reciprocal reports "not representable" (`Value`).  Outside the property; both must fail.
            ctx.tie_ok() if model[0] == "err" else ctx.tie_bad(stream, case, js(impl), js(model))
            continue
        if rounding_raise(feat, impl) and model[0] == "ok":
            # Frechet product of two operands whose extreme step is a point, one straddling zero: naive and Balch bounds coincide
            # exactly there, the imposition raises or not depending on binary64 rounding, which the exact model cannot mirror
            ctx.bump("tie-skipped:rounding-dependent-raise")
        elif same(impl, model, exact):
            ctx.tie_ok()
        else:
            ctx.tie_bad(stream, case, js(impl), js(model))
        # ---- oracle ------------------------------------------------------------------------
        if mutated:
            ctx.fail({**feat, "check": "operand-mutated", "symptom": "operand-changed"}, case,
                     f"{kl} {op} {kr}: an operand object was changed by evaluating the expression")
            continue
        if dep == "u":
            if impl[0] != "err" and not is_low(r):
                ctx.fail({**feat, "check": "unknown-dependency", "symptom": "answered"}, case, "unknown dependency code answered")
            continue
        zero_div = divisor_has_zero(op, r) or (op == "div" and r[0] == "N" and float(r[1]) == 0)
        if impl[0] == "err":
            if zero_div:
                continue
            ctx.fail({**feat, "check": "raises", "symptom": "raises:" + impl[1]}, case,
                     f"{kl} {op} {kr} ({form}, dependency {dep}) raised {impl[1]}")
            continue
        if zero_div:
            # zero strictly inside the divisor: interval arithmetic has no result (ZeroDivisionError), so neither has the embedded /
            # mixed expression; answering a bounded p-box is a wrong finite value (operands merely touching zero are left alone)
            db = bounds(r)
            if op == "div" and min(db[0]) < 0 < max(db[1]) and impl[0] == "ok":
                ctx.fail({**feat, "check": "zero-inside-divisor-answered", "symptom": "answered"}, case,
                         f"{kl} / {kr} ({form}, {dep}): the divisor has zero strictly inside, yet a bounded result was returned")
            continue
        if is_low(l) and is_low(r) and form == "expr":
            # number / interval result: compare with the exact interval reference
            xb, yb = bounds(l), bounds(r)
            h = pbx.ivl_hull(op, F(xb[0][0]), F(xb[1][0]), F(yb[0][0]), F(yb[1][0]))
            sc = op_scale(op, xb, yb, h)
            got = (F(impl[2][0]), F(impl[3][0]))
            if not all(pbx.tol_le(a, b, sc) and pbx.tol_le(b, a, sc) for a, b in zip(got, h)):
                ctx.fail({**feat, "check": "low-reference", "symptom": "wrong-bounds"}, case,
                         f"{kl} {op} {kr}: got {[float(v) for v in got]}, exact {[float(v) for v in h]}")
            continue
        if impl[1] != "P":
            ctx.fail({**feat, "check": "result-type", "symptom": "type:" + impl[1]}, case, f"{kl} {op} {kr} returned {impl[1]}, not a p-box")
            continue
        # (b) mixed expression == every operand converted first (real code on both sides)
        if form != "spec":
            cf = run_meth(dep, op, conv_first(l), conv_first(r))
            ctx.bump("oracle:convert-first")
            if cf[0] != "ok" or cf[1] != "P":
                ctx.fail({**feat, "check": "convert-first-raises", "symptom": "raises:" + str(cf[1])}, case,
                         f"convert({kl}).{op}(convert({kr}), {dep}) failed: {cf[:2]}")
            else:
                scf = op_scale(op, bounds(l), bounds(r), cf[2], cf[3], impl[2], impl[3])
                if fast_ok(impl, cf[2], cf[3], scf, "eq"):
                    w = None
                else:
                    w = cmp_bounds(impl, fr(cf[2]), fr(cf[3]), scf, "eq")
                if w is not None:
                    ctx.fail({**feat, "check": "convert-first-" + w["why"], "symptom": "differs-from-converted"}, {**case, "witness": w},
                             f"{kl} {op} {kr} ({form}, dependency {dep}) differs from the expression with both operands converted first: "
                             f"step {w.get('step')} {w['why']} {w.get('reported')} vs {w.get('reference')}")
                    continue
        check_result(ctx, rng, form, dep, op, l, r, impl, feat, case)
    recheck_alive(ctx, alive, "at the end of the main stream")
    run_chains(ctx, chains, chain_replies)
    run_entry_points(ctx)
    run_aliasing(ctx)
    run_fp_state(ctx)
    # the same expressions once more, after everything else has run: identical answers
    for c, first, bare in again:
        form, dep, op, l, r = c
        second = run_expr(dep, op, build(l), build(r), bare)
        ctx.bump("oracle:evaluated-twice")
        if second != first:
            ctx.fail({"form": "again", "op": op, "dep": dep, "lkind": kind_of(l), "rkind": kind_of(r), "check": "not-repeatable",
                      "symptom": "second-evaluation-differs"}, {"form": form, "dep": dep, "op": op, "l": short(l), "r": short(r),
                      "first": js(first), "second": js(second)},
                     f"{kind_of(l)} {op} {kind_of(r)} under {dep}: the same expression evaluated again later gives a different answer")
    recheck_alive(ctx, alive, "at the end of the run")


def run_conv_case(ctx, c, model):
    _, which, _, o, _ = c
    k = kind_of(o)
    ctx.count(("conv", which, o), True, "conv")
    impl = run_conv(which, o)
    exact = exact_opd(o)
    case = {"form": "conv", "which": which, "x": short(o), "impl": js(impl)}
    if same(impl, model, exact):
        ctx.tie_ok()
    else:
        ctx.tie_bad("conv", case, js(impl), js(model))
    feat = {"form": "conv", "which": which, "lkind": k}
    if impl[0] == "err":
        if which == "p" and o[0] == "N" and impl[1] == "Type":
            return  # convert_pbox is documented to accept constructs only
        ctx.fail({**feat, "check": "raises", "symptom": "raises:" + impl[1]}, case, f"conversion of {k} raised {impl[1]}")
        return
    l, r = impl[2], impl[3]
    bad = None
    if len(l) != N or len(r) != N:
        bad = f"length {len(l)}"
    elif o[0] == "N" and not (set(l) == {float(o[1])} and set(r) == {float(o[1])}):
        bad = "number is not embedded as a constant p-box"
    elif o[0] == "I" and not (set(l) == {float(o[1])} and set(r) == {float(o[2])}):
        bad = "interval is not embedded with repeated endpoints"
    elif o[0] == "P" and not (l == [float(v) for v in o[1]] and r == [float(v) for v in o[2]]):
        bad = "p-box changed by conversion"
    elif o[0] == "D":
        import scipy.stats as sps
        from pyuncertainnumber.pba.params import Params
        if l != r or any(a > b for a, b in zip(l, l[1:])):
            bad = "precise distribution does not give equal, sorted bounds"
        elif o[1] == "gaussian":
            ref = sps.norm(*o[2]).ppf(Params.p_values)
            if not np.allclose(ref, np.array(l), rtol=1e-9, atol=1e-12):
                bad = "bounds are not the quantiles of the distribution on the probability grid"
    elif o[0] == "S":
        rl, rr = dss_reference(o)
        dif = [i for i in range(N) if l[i] != rl[i] or r[i] != rr[i]]
        if dif:
            i = dif[0]
            bad = (f"p-box of the DS structure differs from the belief / plausibility inverse of ITS masses at {len(dif)} steps, "
                   f"first step {i}: [{l[i]}, {r[i]}] vs [{rl[i]}, {rr[i]}]")
    if bad:
        ctx.fail({**feat, "check": "embedding", "symptom": "wrong-embedding"}, case, f"conversion of {k}: {bad}")


def replay(obj):
    core.stub_moments()
    c = obj.get("case", {})
    if "form" not in c:
        print(json.dumps(obj, indent=1))
        return 0
    if c["form"] == "conv":
        o = unshort(c["x"])
        print("impl :", js(run_conv(c["which"], o)))
        print("model:", core.model_batch("C07", [wire(("conv", c["which"], None, o, None))])[0][:300])
        return 0
    l, r = unshort(c["l"]), unshort(c["r"])
    form, dep, op = c["form"], c["dep"], c["op"]
    L, R = build(l), build(r)
    impl = run_expr(dep, op, L, R) if form == "expr" else run_meth(dep, op, L, R) if form == "meth" else \
        run_meth(dep, op, conv_first(l), conv_first(r))
    cf = run_meth(dep, op, conv_first(l), conv_first(r))
    rep = core.model_batch("C07", [wire((form, dep, op, l, r))])[0]
    print("case           :", form, dep, op, short(l)[:2], short(r)[:2])
    print("impl           :", js(impl))
    print("converted first:", js(cf))
    print("model          :", js(parse_model(rep)))
    return 0
