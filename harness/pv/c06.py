"""C06 — p-box with a real number, negation and monotone maps act step by step, exactly.

proof  : Pun.Props.C06 (steps of P±c, P*c, P/c, -P, 1/P, monotone unary maps, P**k are the images of the
         operand's steps, exchanged and reversed for decreasing maps; -(-P)=P; c-P=-(P-c); c/P=c*(1/P);
         P*0 = all-zero steps; P/0 raises for every constant kind)
tie    : real `P op c`, `c op P` (bare operators and methods; constant as int, float, numpy.float64, numpy.int64),
         `-P`, `P.reciprocal()`, `exp/log/sqrt` (method and numpy ufunc), `P**c` against the Lean model, n = 200
oracle : independent of the model, exact Fractions: every focal interval [left_i, right_i] is mapped by exact
         interval arithmetic; the sorted lower / upper endpoints must equal the returned bounds (equality on the
         exact stream, a few ulp per entry otherwise); the four identities and the zero cases on the real outputs.
"""
from __future__ import annotations
import math, operator, json, sys
from fractions import Fraction as F
import numpy as np
from . import core, pbx

N = 200
OPS = ("add", "sub", "mul", "div")
KINDS = ("int", "float", "npf", "npi")
XKINDS = ("npu8", "npu64", "npi8", "npf32")          # numpy unsigned / narrow scalars
INTK = ("int", "npi", "npu8", "npu64", "npi8")       # integer-valued kinds
UNSIGNED = ("npu8", "npu64")
MODEL_KIND = {"frac": "float", "int": "int", "float": "float", "npf": "npf", "npi": "npi", "npu8": "npi", "npu64": "npi", "npi8": "npi", "npf32": "npf"}
UNARY = ("exp", "log", "sqrt")


# ---- constants -------------------------------------------------------------------------------
def mkconst(kind, v):
    if kind == "int":
        return int(v)
    if kind == "float":
        return float(v)
    if kind == "npf":
        return np.float64(v)
    if kind == "npi":
        return np.int64(v)
    if kind == "npu8":
        return np.uint8(v)
    if kind == "npu64":
        return np.uint64(v)
    if kind == "npi8":
        return np.int8(v)
    if kind == "npf32":
        return np.float32(v)
    if kind == "frac":
        from fractions import Fraction
        return Fraction(v)
    raise ValueError(kind)


def const_value(rng, kind, ccls, dyadic):
    """a constant of sign class ccls in {neg, m1, zero, one, pos}"""
    if ccls == "m1":
        return -1
    if ccls == "zero":
        return 0
    if ccls == "one":
        return 1
    if kind in UNSIGNED:
        return rng.choice([2, 3, 5, 8, 200])          # unsigned: classes neg / m1 do not exist
    if kind == "npi8":
        v = rng.choice([2, 3, 5, 8, 100])
        return -v if ccls == "neg" else v
    if kind == "npf32":
        v = float(np.float32(rng.choice([0.25, 1.5, 2.5, 0.1, 1.0 / 3.0, 6.75])))   # the value the scalar really has
        return -v if ccls == "neg" else v
    if ccls in ("tiny", "huge"):
        # non-zero constants far below machine epsilon / far above 2**53 (physical constants, unit changes)
        if kind in INTK:
            v = rng.choice([10 ** 16, 10 ** 18, 2 ** 62]) if ccls == "huge" else 1
        elif ccls == "tiny":
            v = rng.choice([1e-20, 2.0 ** -60, 1.380649e-23, 1.602176634e-19, 3e-17, 2.0 ** -53])
        else:
            v = rng.choice([1e18, 2.0 ** 70, 3e16, 6.02214076e23, 2.0 ** 53 + 2])
        return -v if rng.random() < 0.3 else v
    if kind in INTK:
        v = rng.choice([2, 3, 4, 5, 7, 8, 16])
    elif dyadic:
        v = rng.choice([0.25, 0.5, 1.5, 2.0, 2.5, 4.0, 6.75, 8.0])
    else:
        v = rng.choice([rng.uniform(0.05, 9.0), rng.uniform(1.0, 1.0e3), 1.0 / 3.0, 0.1, math.pi])
    return -v if ccls == "neg" else v


def is_pow2(v):
    m, _ = math.frexp(abs(float(v)))
    return v != 0 and m == 0.5


# ---- boxes ------------------------------------------------------------------------------------
BOXCLS = ("pos", "neg", "str", "pos0", "neg0", "point", "precise", "interval", "any")


def make_box(rng, cls):
    """integer-valued 200-step boxes of a given class (exact stream)"""
    if cls in ("pos", "neg", "str"):
        return pbx.int_box200(rng, cls)
    if cls == "any":
        return pbx.int_box200(rng, None)
    if cls == "pos0":
        l, r = pbx.int_box200(rng, "pos")
        m = min(l)
        return [x - m for x in l], [x - m for x in r]
    if cls == "neg0":
        l, r = pbx.int_box200(rng, "neg")
        m = max(r)
        return [x - m for x in l], [x - m for x in r]
    if cls == "point":
        a = rng.choice([-5, -1, 1, 2, 9])
        return [a] * N, [a] * N
    if cls == "precise":
        l, _ = pbx.int_box200(rng, rng.choice(["pos", "neg", "str"]))
        return list(l), list(l)
    if cls == "interval":
        a = rng.randint(-9, 9)
        b = a + rng.randint(1, 6)
        return [a] * N, [b] * N
    raise ValueError(cls)


def distinct_steps_box(rng, sign, n=None):
    """every step different (no plateaus): a reversed or shifted index shows at every position"""
    n = n or N
    l = sorted(rng.sample(range(1, 2000), n))
    w = [rng.randint(0, 40) for _ in range(n)]
    r = [a + b for a, b in zip(l, w)]
    r = [int(x) for x in np.maximum.accumulate(r)]
    if sign == "neg":
        l, r = [-x for x in reversed(r)], [-x for x in reversed(l)]
    elif sign == "str":
        l, r = [x - 1000 for x in l], [x - 1000 for x in r]
    return l, r


THIN = ("thin-rel", "thin-rel-neg", "thin-abs", "thin-abs-neg", "thin-str", "thin-big")


def thin_box(rng, mode):
    """thin but NOT degenerate float boxes: relative width 1e-9..1e-5, or tiny absolute magnitudes
    (everything numpy.allclose / isclose would call equal), plateaus and distinct steps mixed"""
    k = rng.choice([1, 3, 10, N])
    if mode in ("thin-rel", "thin-rel-neg", "thin-big"):
        lo_, hi_ = (1.0, 600.0) if mode != "thin-big" else (1e6, 1e9)
        base = sorted(rng.uniform(lo_, hi_) for _ in range(k))
        rel = rng.choice([1e-9, 1e-7, 1e-6, 5e-6, 9e-6])
        l = [base[(i * k) // N] for i in range(N)]
        r = [x * (1.0 + rel) for x in l]
    elif mode in ("thin-abs", "thin-abs-neg"):
        base = sorted(rng.uniform(2e-9, 5e-9) for _ in range(k))
        l = [base[(i * k) // N] for i in range(N)]
        w = rng.choice([1e-9, 3e-9, 4e-10])
        r = [x + w for x in l]
    else:  # thin-str: a sliver around zero
        base = sorted(rng.uniform(-3e-9, 3e-9) for _ in range(k))
        l = [base[(i * k) // N] for i in range(N)]
        r = [x + 2e-9 for x in l]
        if not (min(l) < 0 < max(r)):
            l = [x - 4e-9 for x in l[: N // 2]] + l[N // 2:]
            l.sort()
    if mode.endswith("-neg"):
        l, r = [-x for x in reversed(r)], [-x for x in reversed(l)]
    assert all(a < b for a, b in zip(l, r)) and l == sorted(l) and r == sorted(r)
    return l, r


SHAPES = ("flatL", "flatR", "step", "onezw")


def shape_box(rng, shape, sign):
    """integer boxes with a special shape of the bounds:
    flatL  left bound flat, right bound varying (nested focal elements sharing the lower endpoint)
    flatR  the mirror image;  step  few plateaus, the jumps of the two bounds at different levels;
    onezw  exactly one zero-width component"""
    def plateaus(k, lo, hi):
        vals = sorted(rng.sample(range(lo, hi), k))
        cuts = sorted(rng.sample(range(1, N), k - 1))
        out, seg = [], 0
        for i in range(N):
            while seg < len(cuts) and i >= cuts[seg]:
                seg += 1
            out.append(vals[seg])
        return out
    if shape == "flatL":
        vary = sorted(rng.sample(range(5, 900), N)) if rng.random() < 0.5 else plateaus(rng.choice([2, 3, 7]), 5, 900)
        l, r = [rng.randint(1, 5)] * N, vary
    elif shape == "flatR":
        vary = sorted(rng.sample(range(5, 900), N)) if rng.random() < 0.5 else plateaus(rng.choice([2, 3, 7]), 5, 900)
        l, r = vary, [rng.randint(900, 950)] * N
    elif shape == "step":
        l = plateaus(rng.choice([2, 3, 5]), 1, 400)
        r = plateaus(rng.choice([2, 4, 6]), 400, 900)
    else:
        l = plateaus(4, 1, 800)
        r = [x + 37 for x in l]
        v = sorted(set(l))[rng.randrange(4)]
        r = [b if a != v else a for a, b in zip(l, r)]
        r = [int(x) for x in np.maximum.accumulate(r)]
        if sum(1 for a, b in set(zip(l, r)) if a == b) != 1:
            return shape_box(rng, shape, sign)
    if sign == "neg":      # the mirror image turns flatL into flatR and back: both are requested for every sign
        l, r = [-x for x in reversed(r)], [-x for x in reversed(l)]
    elif sign == "str":
        l, r = [x - 450 for x in l], [x - 450 for x in r]
    assert all(a <= b for a, b in zip(l, r)) and l == sorted(l) and r == sorted(r)
    return l, r


def shape_of(l, r):
    fl, frr = min(l) == max(l), min(r) == max(r)
    return "flatL" if fl and not frr else "flatR" if frr and not fl else "other"


REPRS = ("intarr", "intlist", "intderived", "floatlist")


def build_operand(c):
    """the p-box operand in the representation the case asks for (theme: integer dtypes, lists)"""
    if c.get("_obj") is not None:
        return c["_obj"]          # a live p-box: the result of an earlier call, or an operand used again
    S = pbx.Staircase()
    l, r = c["box"]
    rp = c.get("repr", "float")
    if rp == "float":
        return pbx.stair(l, r)
    if rp == "floatlist":
        return S(left=[float(x) for x in l], right=[float(x) for x in r])
    if rp == "intarr":
        return S(left=np.array(l, dtype=np.int64), right=np.array(r, dtype=np.int64))
    if rp == "intlist":
        return S(left=[int(x) for x in l], right=[int(x) for x in r])
    if rp == "intderived":   # integer arithmetic keeps the integer dtype
        K = S(left=np.array([x - 1 for x in l], dtype=np.int64), right=np.array([x - 1 for x in r], dtype=np.int64))
        return K + 1
    if rp in ("f32arr", "f16arr", "longdouble"):     # the values are exactly representable in the narrow dtype
        dt = {"f32arr": np.float32, "f16arr": np.float16, "longdouble": np.longdouble}[rp]
        return S(left=np.array(l, dtype=dt), right=np.array(r, dtype=dt))
    if rp == "minmax":
        from pyuncertainnumber import pba
        return pba.min_max(int(l[0]), int(r[0]))
    raise ValueError(rp)


def operand_intact(c, P):
    l, r = c["box"]
    try:
        pl, pr = np.asarray(P.left), np.asarray(P.right)
        return len(pl) == len(l) and len(pr) == len(r) and bool(np.all(pl == np.array(l, dtype=float))) \
            and bool(np.all(pr == np.array(r, dtype=float)))
    except Exception:
        return False


# ---- the real code --------------------------------------------------------------------------------
@__import__("contextlib").contextmanager
def grid(n):
    """the public discretisation set to n steps, and set back whatever happens"""
    from pyuncertainnumber.pba.params import Params
    old = (Params.steps, Params.p_values)
    try:
        Params.steps = n
        Params.p_values = np.linspace(Params.p_lboundary, Params.p_hboundary, n)
        yield
    finally:
        Params.steps, Params.p_values = old


def ambient():
    from pyuncertainnumber.pba.params import Params
    from pyuncertainnumber.pba.context import get_current_dependency
    return (Params.steps, len(Params.p_values), float(Params.p_values[0]), float(Params.p_values[-1]), str(get_current_dependency()),
            tuple(sorted(np.geterr().items())), len(__import__("warnings").filters))


def run_impl(c, keep=None, strict=False):
    """canonical result of the real call; `keep` (a dict) receives the live result and operand objects"""
    import warnings, contextlib
    try:
        with contextlib.ExitStack() as stack:
            if strict:
                # escalated floating-point errors and warnings: same value or an exception, never another value
                stack.enter_context(np.errstate(all="raise"))
                stack.enter_context(warnings.catch_warnings())
                warnings.simplefilter("error")
            else:
                stack.enter_context(warnings.catch_warnings())
                warnings.simplefilter("ignore")
            if c.get("n", N) != N:
                stack.enter_context(grid(c["n"]))
            P = build_operand(c)
            if keep is not None:
                keep["operand"] = P
            k = c["k"]
            if k == "num":
                cv = mkconst(c["ckind"], c["c"])
                r = getattr(P, c["op"])(cv) if c.get("via") == "method" else pbx.PYOPS[c["op"]](P, cv)
            elif k == "rnum":
                r = pbx.PYOPS[c["op"]](mkconst(c["ckind"], c["c"]), P)
            elif k == "neg":
                r = -P
            elif k == "recip":
                r = np.reciprocal(P) if c.get("via") == "ufunc" else P.reciprocal()
            elif k == "un":
                r = getattr(np, c["f"])(P) if c.get("via") == "ufunc" else getattr(P, c["f"])()
            elif k == "pow":
                r = P.pow(mkconst(c["ckind"], c["c"])) if c.get("via") == "method" else P ** mkconst(c["ckind"], c["c"])
            else:
                raise ValueError(k)
        if keep is not None:
            keep["result"] = r
        if not hasattr(r, "left"):
            return ("notbox", type(r).__name__)
        return pbx.canon_pb(r)
    except BaseException as e:  # noqa
        return ("err", core.err_kind(e))


def supplied(c):
    """values of the transcendental map on the two bound arrays (the call the implementation makes)"""
    l, r = np.array(c["box"][0], dtype=float), np.array(c["box"][1], dtype=float)
    with np.errstate(all="ignore"):
        if c["k"] == "un":
            f = getattr(np, c["f"])
            fl, fr = f(l), f(r)
        else:
            cv = mkconst(c["ckind"], c["c"])
            fl, fr = operator.pow(l, cv), operator.pow(r, cv)
    clean = lambda a: [float(x) if math.isfinite(x) else 0.0 for x in a]
    finite = bool(np.all(np.isfinite(fl)) and np.all(np.isfinite(fr)))
    return clean(fl), clean(fr), finite


def wire(c):
    k = c["k"]
    b = pbx.wire_pb(*c["box"])
    if k == "num":
        return f"numk {c.get('n', N)} {MODEL_KIND[c['ckind']]} {c['op']} {b} {core.q(c['c'])}"
    if k == "rnum":
        return f"rnumk {c.get('n', N)} {MODEL_KIND[c['ckind']]} {c['op']} {core.q(c['c'])} {b}"
    if k in ("neg", "recip"):
        return f"{k} {c.get('n', N)} {b}"
    if k == "un":
        fl, fr, _ = supplied(c)
        return f"un {c.get('n', N)} {c['f']} {b} {core.ql(fl)} {core.ql(fr)}"
    if k == "pow":
        if c["ckind"] in INTK:
            return f"pown {c.get('n', N)} {b} {int(c['c'])}"
        fl, fr, _ = supplied(c)
        return f"poww {c.get('n', N)} {b} {core.ql(fl)} {core.ql(fr)}"
    raise ValueError(k)


# ---- domain and exact semantics -------------------------------------------------------------------
def excludes_zero(l, r):
    return min(l) > 0 or max(r) < 0


def in_domain(c):
    l, r = c["box"]
    k = c["k"]
    if k == "num":
        return not (c["op"] == "div" and c["c"] == 0)
    if k == "rnum":
        return c["op"] != "div" or excludes_zero(l, r)
    if k == "recip":
        return excludes_zero(l, r)
    if k == "un":
        return {"exp": max(r) < 700, "log": min(l) > 0, "sqrt": min(l) >= 0}[c["f"]]   # exp(x) is finite in binary64 for x < 709
    if k == "pow":
        if c["ckind"] in INTK:
            return c["c"] >= 1
        return min(l) >= 0 and c["c"] > 0
    return True


def point_map(c):
    """the real map x -> f(x) as an exact function on Fractions (None when transcendental)"""
    k = c["k"]
    if k in ("num", "rnum"):
        cc = F(c["c"])
        f = pbx.FOPS[c["op"]]
        return (lambda x: f(x, cc)) if k == "num" else (lambda x: f(cc, x))
    if k == "neg":
        return lambda x: -x
    if k == "recip":
        return lambda x: 1 / x
    if k == "pow" and c["ckind"] in INTK:
        kk = int(c["c"])
        return lambda x: x ** kk
    return None


def float_map(c):
    """transcendental maps through the C library (not numpy)"""
    if c["k"] == "un":
        return {"exp": math.exp, "log": math.log, "sqrt": math.sqrt}[c["f"]]
    cc = float(c["c"])
    return lambda x: math.pow(x, cc)


def expected_steps(c):
    """sorted lower / upper endpoints of the images of the focal intervals; exact when the map is rational"""
    l, r = c["box"]
    f = point_map(c)
    even_pow = c["k"] == "pow" and c["ckind"] in INTK and int(c["c"]) % 2 == 0
    lo, hi = [], []
    if f is not None:
        for a, b in zip(pbx.fr(l), pbx.fr(r)):
            u, v = f(a), f(b)
            if even_pow and a < 0 < b:
                lo.append(F(0))
            else:
                lo.append(min(u, v))
            hi.append(max(u, v))
        return sorted(lo), sorted(hi), True
    g = float_map(c)
    for a, b in zip(l, r):
        u, v = g(float(a)), g(float(b))
        lo.append(F(min(u, v))); hi.append(F(max(u, v)))
    return sorted(lo), sorted(hi), False


def exact_case(c):
    """inputs for which the implementation's floating-point result is exact"""
    if not c["intbox"]:
        return False
    k = c["k"]
    if k == "neg":
        return True
    if k == "num":
        cv = c["c"]
        small = float(cv) == cv and abs(F(cv)).denominator <= 64 and abs(cv) < 4096
        if c["op"] in ("add", "sub", "mul"):
            return small
        return is_pow2(cv) and small
    if k == "rnum":
        cv = c["c"]
        small = float(cv) == cv and abs(F(cv)).denominator <= 64 and abs(cv) < 4096
        return c["op"] in ("add", "sub", "mul") and small
    if k == "pow":
        return c["ckind"] in INTK and 0 <= c["c"] <= 2   # numpy squares exactly; higher powers go through pow()
    return False


def compare_steps(res, L, U, exact, depth):
    """None or a witness {bound, step, reported, expected}"""
    for name, got, want in (("left", res[1], L), ("right", res[2], U)):
        if len(got) != len(want):
            return {"bound": name, "why": "length", "reported": len(got), "expected": len(want)}
        for i, (g, w) in enumerate(zip(got, want)):
            if isinstance(g, float) and not math.isfinite(g):
                return {"bound": name, "step": i, "reported": repr(g), "expected": float(w)}
            ok = (F(g) == w) if exact else core.close(g, w, depth)
            if not ok:
                return {"bound": name, "step": i, "reported": float(g), "expected": float(w)}
    return None


def overflow_bad(c, impl):
    """the exact image of some steps is not representable in binary64 (exp(1000), x*1e306): the property's "exact image"
    cannot be returned there, so the call MAY raise; if it returns a box, the overflowing steps must be exactly +-inf,
    every other step the image as usual, no NaN anywhere, and both bounds non-decreasing"""
    if impl[0] == "err":
        return None
    if impl[0] != "ok":
        return "returned a " + str(impl[1])
    l, r = c["box"]
    big = F(sys.float_info.max)
    if c["k"] == "un":
        def g(x):
            try:
                return math.exp(x)
            except OverflowError:
                return math.inf
    else:
        cc = F(c["c"])
        def g(x):
            v = F(x) * cc
            return math.inf if v > big else -math.inf if v < -big else float(v)
    for name, got in (("left", impl[1]), ("right", impl[2])):
        if any(isinstance(a, float) and math.isnan(a) for a in got):
            return f"{name} holds NaN"
        if any(got[i] > got[i + 1] for i in range(len(got) - 1)):
            return f"{name} is not non-decreasing"
    want_l, want_r = sorted(g(float(x)) for x in l), sorted(g(float(x)) for x in r)
    if want_l and want_l[0] > want_r[0]:
        want_l, want_r = want_r, want_l
    for name, got, want in (("left", impl[1], want_l), ("right", impl[2], want_r)):
        if len(got) != len(want):
            return f"{name} has {len(got)} steps"
        for i, (a, w) in enumerate(zip(got, want)):
            if math.isinf(w):
                if not (isinstance(a, float) and math.isinf(a) and (a > 0) == (w > 0)):
                    return f"{name}[{i}] = {a!r}, the image overflows: expected {w!r}"
            elif not core.close(a, F(w), 4):
                return f"{name}[{i}] = {a!r}, expected {w!r}"
    return None


def roundtrip_bad(c, res):
    """log/exp/sqrt: undo the map with the C library and compare with the operand's steps"""
    inv = {"exp": math.log, "log": math.exp, "sqrt": lambda y: y * y}[c["f"]]
    l, r = c["box"]
    for name, got, src in (("left", res[1], l), ("right", res[2], r)):
        for i, (g, s) in enumerate(zip(got, src)):
            try:
                back = inv(float(g))
            except (ValueError, OverflowError):
                return {"bound": name, "step": i, "reported": float(g)}
            if abs(back - float(s)) > 1e-9 * max(1.0, abs(float(s))):
                return {"bound": name, "step": i, "reported": float(g), "operand": float(s), "inverse": back}
    return None


# ---- cases ----------------------------------------------------------------------------------------
def new_case(k, box, intbox=True, **kw):
    d = {"k": k, "box": (list(box[0]), list(box[1])), "intbox": intbox, "repr": "float"}
    d.update(kw)
    return d


def extra_cases(ctx):
    """round-3 streams: operand representation, thin-but-not-degenerate boxes, extreme constants"""
    rng = ctx.rng
    cases = []
    ccls_all = ("neg", "m1", "zero", "one", "pos")
    # (D) extreme constants: every op x order x float kind x {tiny, huge}, integer kinds for huge
    for cc in ("tiny", "huge"):
        for op in OPS:
            for order in ("num", "rnum"):
                for kind in KINDS:
                    if cc == "tiny" and kind in INTK:
                        continue
                    bc = rng.choice(["pos", "neg"]) if (order == "rnum" and op == "div") else rng.choice(["pos", "neg", "str", "interval"])
                    box = make_box(rng, bc) if rng.random() < 0.6 else distinct_steps_box(rng, bc if bc in ("pos", "neg", "str") else "pos")
                    cases.append(new_case(order, box, op=op, ckind=kind, c=const_value(rng, kind, cc, True), ccls=cc,
                                          bcls=bc, stream="extreme", via=rng.choice(["bare", "method"])))
    for _ in range(ctx.scale(30, 1500)):
        order, op, kind, cc = rng.choice(["num", "rnum"]), rng.choice(["mul", "mul", "div", "add", "sub"]), rng.choice(["float", "npf"]), rng.choice(["tiny", "huge"])
        sg = rng.choice(["pos", "neg"]) if (order == "rnum" and op == "div") else rng.choice(["pos", "neg", "str"])
        l, r, kd = pbx.lib_box200(rng, sg)
        cases.append(new_case(order, (l, r), intbox=False, op=op, ckind=kind, c=const_value(rng, kind, cc, True), ccls=cc,
                              bcls="lib-" + kd, stream="extreme", via="bare"))
    # (B) integer-dtype / list operands through every call
    for rp in REPRS:
        for bc in ("pos", "neg"):
            mk_ = lambda: (make_box(rng, bc) if rng.random() < 0.5 else distinct_steps_box(rng, bc))
            cases.append(new_case("recip", mk_(), repr=rp, bcls=bc, stream="repr", via="method"))
            cases.append(new_case("recip", mk_(), repr=rp, bcls=bc, stream="repr", via="ufunc"))
            cases.append(new_case("neg", mk_(), repr=rp, bcls=bc, stream="repr"))
            for kind, cv in (("int", 6), ("float", 2.5), ("npf", -2.5), ("npi", -3), ("int", 1)):
                cases.append(new_case("rnum", mk_(), repr=rp, op="div", ckind=kind, c=cv, ccls="pos" if cv > 0 else "neg",
                                      bcls=bc, stream="repr", via="bare"))
            for op in OPS:
                kind = rng.choice(KINDS)
                cc = rng.choice(["neg", "pos", "m1"])
                cases.append(new_case("num", mk_(), repr=rp, op=op, ckind=kind, c=const_value(rng, kind, cc, True), ccls=cc,
                                      bcls=bc, stream="repr", via=rng.choice(["bare", "method"])))
                if op != "div":
                    cases.append(new_case("rnum", mk_(), repr=rp, op=op, ckind=kind, c=const_value(rng, kind, cc, True), ccls=cc,
                                          bcls=bc, stream="repr", via="bare"))
        for f in UNARY:
            cases.append(new_case("un", make_box(rng, "pos"), repr=rp, f=f, bcls="pos", stream="repr", via=rng.choice(["method", "ufunc"])))
        for kind, cv in (("int", 2), ("npi", 3), ("float", 0.5), ("npf", 2.0)):
            bc = "pos" if kind in ("float", "npf") else rng.choice(["pos", "neg", "str"])
            cases.append(new_case("pow", make_box(rng, bc), repr=rp, ckind=kind, c=cv, bcls=bc, stream="repr", via=rng.choice(["bare", "method"])))
    # integer input times an integer beyond 2**63 / |bound| (int64 wrap-around before fix 6617ecd, KF-C06-int-dtype-overflow)
    for rp, kind in (("intarr", "int"), ("intlist", "npi"), ("intderived", "int"), ("minmax", "npi")):
        box = ([2] * N, [50] * N) if rp == "minmax" else distinct_steps_box(rng, "pos")
        for order in ("num", "rnum"):
            cases.append(new_case(order, box, repr=rp, op="mul", ckind=kind, c=10 ** 18, ccls="huge", bcls="int-overflow",
                                  stream="repr", via="bare"))
    for a, b in ((2, 5), (-7, -3), (-2, 3)):
        box = ([a] * N, [b] * N)
        cases.append(new_case("num", box, repr="minmax", op="mul", ckind="float", c=-0.5, ccls="neg", bcls="minmax", stream="repr", via="bare"))
        cases.append(new_case("neg", box, repr="minmax", bcls="minmax", stream="repr"))
        if a * b > 0:
            cases.append(new_case("recip", box, repr="minmax", bcls="minmax", stream="repr", via="method"))
            cases.append(new_case("rnum", box, repr="minmax", op="div", ckind="int", c=6, ccls="pos", bcls="minmax", stream="repr", via="bare"))
    # (C) thin but not degenerate boxes through every call
    for f in UNARY:
        for md in THIN:
            if f == "exp" and md == "thin-big":
                continue   # overflows binary64
            for via in ("method", "ufunc"):
                cases.append(new_case("un", thin_box(rng, md), intbox=False, f=f, bcls=md, stream="thin", via=via))
    for md in THIN:
        cases.append(new_case("neg", thin_box(rng, md), intbox=False, bcls=md, stream="thin"))
        cases.append(new_case("recip", thin_box(rng, md), intbox=False, bcls=md, stream="thin", via=rng.choice(["method", "ufunc"])))
        for kind, cv in (("int", 2), ("npi", 3), ("float", 0.5), ("npf", 1.5)):
            if kind in ("float", "npf") and md in ("thin-rel-neg", "thin-abs-neg", "thin-str"):
                continue   # real powers of negative numbers: outside the domain (nan)
            cases.append(new_case("pow", thin_box(rng, md), intbox=False, ckind=kind, c=cv, bcls=md, stream="thin", via="bare"))
        for op in OPS:
            for order in ("num", "rnum"):
                kind = rng.choice(KINDS)
                cc = rng.choice(ccls_all + ("tiny", "huge") if kind in ("float", "npf") else ccls_all)
                cases.append(new_case(order, thin_box(rng, md), intbox=False, op=op, ckind=kind, c=const_value(rng, kind, cc, False),
                                      ccls=cc, bcls=md, stream="thin", via="bare"))
    return cases


def gen_cases(ctx):
    rng = ctx.rng
    cases = []
    ccls_all = ("neg", "m1", "zero", "one", "pos")
    # grid A: every box class x op x operand order x constant class, the kind cycling
    ki = 0
    for bc in ("pos", "neg", "str", "pos0", "neg0", "precise", "interval"):
        for op in OPS:
            for order in ("num", "rnum"):
                for cc in ccls_all:
                    kind = KINDS[ki % 4]; ki += 1
                    cv = const_value(rng, kind, cc, dyadic=True)
                    cases.append(new_case(order, make_box(rng, bc), op=op, ckind=kind, c=cv, ccls=cc, bcls=bc,
                                          stream="grid", via=rng.choice(["bare", "method"])))
    # grid B: every constant kind x op x order x constant class
    for kind in KINDS:
        for op in OPS:
            for order in ("num", "rnum"):
                for cc in ccls_all:
                    bc = rng.choice(["pos", "neg", "str", "any"])
                    if order == "rnum" and op == "div":
                        bc = rng.choice(["pos", "neg"])
                    cv = const_value(rng, kind, cc, dyadic=rng.random() < 0.5)
                    cases.append(new_case(order, make_box(rng, bc), op=op, ckind=kind, c=cv, ccls=cc, bcls=bc,
                                          stream="grid", via="bare"))
    # distinct-step boxes: a lost flip / sort / exchange shows at every index
    for _ in range(ctx.scale(60, 3000)):
        sg = rng.choice(["pos", "neg", "str"])
        order, op, kind, cc = rng.choice(["num", "rnum"]), rng.choice(OPS), rng.choice(KINDS), rng.choice(ccls_all)
        if order == "rnum" and op == "div" and sg == "str":
            sg = "pos"
        cases.append(new_case(order, distinct_steps_box(rng, sg), op=op, ckind=kind,
                              c=const_value(rng, kind, cc, dyadic=True), ccls=cc, bcls="distinct-" + sg,
                              stream="distinct", via="bare"))
    # random: integer boxes and library-constructor boxes, arbitrary float constants
    for _ in range(ctx.scale(120, 14000)):
        order, op, kind, cc = rng.choice(["num", "rnum"]), rng.choice(OPS), rng.choice(KINDS), rng.choice(ccls_all)
        sg = rng.choice(["pos", "neg", "str", None])
        if rng.random() < 0.5:
            box, intbox, bc = pbx.int_box200(rng, sg), True, "int-" + str(sg)
        else:
            l, r, kd = pbx.lib_box200(rng, sg)
            box, intbox, bc = (l, r), False, "lib-" + kd
        cases.append(new_case(order, box, intbox=intbox, op=op, ckind=kind, c=const_value(rng, kind, cc, dyadic=False),
                              ccls=cc, bcls=bc, stream="random", via=rng.choice(["bare", "method"])))
    # negation and reciprocal
    for _ in range(ctx.scale(60, 3000)):
        t = rng.random()
        if t < 0.4:
            bc = rng.choice(BOXCLS); box, intbox = make_box(rng, bc), True
        elif t < 0.7:
            sg = rng.choice(["pos", "neg", "str"]); bc = "distinct-" + sg; box, intbox = distinct_steps_box(rng, sg), True
        else:
            l, r, kd = pbx.lib_box200(rng, rng.choice(["pos", "neg", "str", None])); bc = "lib-" + kd; box, intbox = (l, r), False
        cases.append(new_case("neg", box, intbox=intbox, bcls=bc, stream="neg"))
    for _ in range(ctx.scale(70, 3000)):
        t = rng.random()
        if t < 0.35:
            bc = rng.choice(["pos", "neg", "precise", "interval", "point"]); box, intbox = make_box(rng, bc), True
        elif t < 0.65:
            sg = rng.choice(["pos", "neg"]); bc = "distinct-" + sg; box, intbox = distinct_steps_box(rng, sg), True
        elif t < 0.85:
            l, r, kd = pbx.lib_box200(rng, rng.choice(["pos", "neg"])); bc = "lib-" + kd; box, intbox = (l, r), False
        else:
            bc = rng.choice(["str", "pos0", "neg0"]); box, intbox = make_box(rng, bc), True   # outside the domain
        cases.append(new_case("recip", box, intbox=intbox, bcls=bc, stream="recip", via=rng.choice(["method", "ufunc"])))
    # exp, log, sqrt: every map on every box class (guards at the edge of the domain included), both call routes
    for f in UNARY:
        for bc in ("pos", "pos0", "neg", "neg0", "str", "precise", "interval"):
            for via in ("method", "ufunc"):
                cases.append(new_case("un", make_box(rng, bc), f=f, bcls=bc, stream="unary", via=via))
    for _ in range(ctx.scale(60, 4500)):
        f = rng.choice(UNARY)
        t = rng.random()
        sg = rng.choice(["pos", "pos", "neg", "str"]) if f != "exp" else rng.choice(["pos", "neg", "str"])
        if t < 0.5:
            bc = sg if rng.random() < 0.7 else rng.choice(["pos0", "precise", "interval"])
            box, intbox = make_box(rng, bc), True
        else:
            l, r, kd = pbx.lib_box200(rng, sg); bc = "lib-" + kd; box, intbox = (l, r), False
        cases.append(new_case("un", box, intbox=intbox, f=f, bcls=bc, stream="unary", via=rng.choice(["method", "ufunc"])))
    # powers: integer exponents on every sign class (even powers of straddling boxes fold at zero)
    for kind in INTK:
        for cv in (2, 3):
            for bc in ("pos", "neg", "str", "pos0", "neg0"):
                cases.append(new_case("pow", make_box(rng, bc), ckind=kind, c=cv, bcls=bc, stream="pow"))
    for bc in ("str", "neg"):
        cases.append(new_case("pow", distinct_steps_box(rng, bc), ckind="int", c=2, bcls="distinct-" + bc, stream="pow"))
    for _ in range(ctx.scale(90, 5000)):
        kind = rng.choice(KINDS)
        if kind in INTK:
            cv = rng.choice([1, 2, 2, 3, 3, 4])
            sg = rng.choice(["pos", "neg", "str", "pos0", "neg0"])
        else:
            cv = rng.choice([0.5, 1.5, 2.0, 2.5, 3.0, rng.uniform(0.1, 3.5)])
            sg = rng.choice(["pos", "pos", "pos0"])
        if rng.random() < 0.6:
            bc = sg; box, intbox = make_box(rng, sg), True
        elif sg in ("pos", "neg", "str") and rng.random() < 0.5:
            bc = "distinct-" + sg; box, intbox = distinct_steps_box(rng, sg), True
        else:
            l, r, kd = pbx.lib_box200(rng, sg if sg in ("pos", "neg", "str") else "pos"); bc = "lib-" + kd; box, intbox = (l, r), False
        cases.append(new_case("pow", box, intbox=intbox, ckind=kind, c=cv, bcls=bc, stream="pow", via=rng.choice(["bare", "method"])))
    cases += extra_cases(ctx)
    cases += round4_cases(ctx)
    cases += round7_cases(ctx)
    return cases


def round7_cases(ctx):
    """floating dtypes of the stored bounds, Fraction constants, another public discretisation, identity maps (aliasing)"""
    from fractions import Fraction
    rng = ctx.rng
    cases = []
    nondy = [0.1, 1.0 / 3.0, math.pi, -0.7, 1e-9, -1e-9, 1.0 + 2.0 ** -30]
    # (S) bounds handed over as float32 / float16 / longdouble arrays (values exactly representable there): every result
    # must be the binary64 computation of the same values
    for rp in ("f32arr", "f16arr", "longdouble"):
        for op in OPS:
            for order in ("num", "rnum"):
                bc = rng.choice(["pos", "neg"]) if (order == "rnum" and op == "div") else rng.choice(["pos", "neg", "str"])
                box = make_box(rng, bc) if rng.random() < 0.5 else distinct_steps_box(rng, bc)
                kind = rng.choice(["float", "npf"])
                cv = rng.choice(nondy[:4] if op in ("mul", "div") else nondy)
                cases.append(new_case(order, box, repr=rp, op=op, ckind=kind, c=cv, ccls="pos" if cv > 0 else "neg", bcls=bc,
                                      stream="dtype", via=rng.choice(["bare", "method"])))
        cases.append(new_case("num", distinct_steps_box(rng, "pos"), repr=rp, op="div", ckind="int", c=3, ccls="pos", bcls="pos", stream="dtype", via="bare"))
        cases.append(new_case("neg", distinct_steps_box(rng, "pos"), repr=rp, bcls="pos", stream="dtype"))
        for via in ("method", "ufunc"):
            cases.append(new_case("recip", distinct_steps_box(rng, rng.choice(["pos", "neg"])), repr=rp, bcls="distinct", stream="dtype", via=via))
        for f in UNARY:
            cases.append(new_case("un", make_box(rng, "pos"), repr=rp, f=f, bcls="pos", stream="dtype", via=rng.choice(["method", "ufunc"])))
        for kind, cv in (("float", 0.5), ("npf", 1.5), ("int", 3), ("float", 2.0), ("npf32", 2.0)):
            cases.append(new_case("pow", make_box(rng, "pos"), repr=rp, ckind=kind, c=cv, bcls="pos", stream="dtype", via=rng.choice(["bare", "method"])))
    # (S) Fraction constants are Numbers and are accepted: same result as the rational they denote
    for fr_ in (Fraction(1, 3), Fraction(-7, 2), Fraction(22, 7), Fraction(0), Fraction(10 ** 18 + 1, 3)):
        for op in OPS:
            for order in ("num", "rnum"):
                bc = rng.choice(["pos", "neg"]) if (order == "rnum" and op == "div") else rng.choice(["pos", "neg", "str"])
                cc = "zero" if fr_ == 0 else ("pos" if fr_ > 0 else "neg")
                cases.append(new_case(order, make_box(rng, bc), op=op, ckind="frac", c=fr_, ccls=cc, bcls=bc, stream="fraction", via="bare"))
    # (P ii) another public discretisation (Params.steps / p_values set, used, set back in run_impl)
    for n in (100, 40, 300):
        for op in OPS:
            for order in ("num", "rnum"):
                sg = rng.choice(["pos", "neg"]) if (order == "rnum" and op == "div") else rng.choice(["pos", "neg", "str"])
                kind = rng.choice(KINDS)
                cc = rng.choice(["neg", "pos", "m1"])
                cases.append(new_case(order, distinct_steps_box(rng, sg, n), n=n, op=op, ckind=kind, c=const_value(rng, kind, cc, True), ccls=cc,
                                      bcls=f"grid{n}", stream="grid-n", via=rng.choice(["bare", "method"])))
        cases.append(new_case("neg", distinct_steps_box(rng, "str", n), n=n, bcls=f"grid{n}", stream="grid-n"))
        cases.append(new_case("recip", distinct_steps_box(rng, "neg", n), n=n, bcls=f"grid{n}", stream="grid-n", via="ufunc"))
        for f in UNARY:
            b = distinct_steps_box(rng, "pos", n)
            b = ([x / 8.0 for x in b[0]], [x / 8.0 for x in b[1]])
            cases.append(new_case("un", b, n=n, f=f, bcls=f"grid{n}", stream="grid-n", via=rng.choice(["method", "ufunc"])))
        cases.append(new_case("pow", distinct_steps_box(rng, "neg", n), n=n, ckind="int", c=2, bcls=f"grid{n}", stream="grid-n", via="bare"))
        cases.append(new_case("pow", distinct_steps_box(rng, "pos", n), n=n, ckind="float", c=0.5, bcls=f"grid{n}", stream="grid-n", via="method"))
    # (Q) identity maps: the result must be a new p-box that shares no memory with the operand or the caller's arrays
    for order, op, kind, cv in (("num", "add", "int", 0), ("num", "sub", "float", 0.0), ("num", "mul", "int", 1), ("num", "div", "npf", 1.0),
                                ("rnum", "add", "float", 0.0), ("rnum", "mul", "npi", 1), ("num", "add", "npf", 0.0), ("num", "mul", "float", 1.0)):
        for bc in ("pos", "str"):
            cases.append(new_case(order, distinct_steps_box(rng, bc), op=op, ckind=kind, c=cv, ccls="zero" if cv == 0 else "one",
                                  bcls=bc, stream="alias-id", via=rng.choice(["bare", "method"])))
    for kind, cv in (("int", 1), ("float", 1.0)):
        cases.append(new_case("pow", distinct_steps_box(rng, "pos"), ckind=kind, c=cv, bcls="pos", stream="alias-id", via="bare"))
    return cases


def alias_check(ctx, c):
    """(Q) operand built from the caller's float64 arrays of exactly the configured length; the result may not be the
    operand, may not share memory with it or with the caller's arrays, and must survive their in-place mutation"""
    import warnings
    l, r = c["box"]
    bufL, bufR = np.array(l, dtype=np.float64), np.array(r, dtype=np.float64)
    with warnings.catch_warnings():
        warnings.simplefilter("ignore")
        P = pbx.Staircase()(left=bufL, right=bufR)
    keep = {}
    impl = run_impl({**c, "_obj": P}, keep)
    ctx.bump("alias-checked")
    if impl[0] != "ok" or "result" not in keep:
        return
    res, bad = keep["result"], None
    if res is P:
        bad = "the result is the operand object itself"
    else:
        for nm in ("left", "right"):
            arr = np.asarray(getattr(res, nm))
            for onm, o in (("the caller's left array", bufL), ("the caller's right array", bufR),
                           ("the operand's left bound", np.asarray(P.left)), ("the operand's right bound", np.asarray(P.right))):
                if bad is None and np.shares_memory(arr, o):
                    bad = f"result.{nm} shares memory with {onm}"
    if bad is None:
        bufL += 5.0; bufR += 5.0
        np.asarray(P.left)[...] = -1.0
        np.asarray(P.right)[...] = 7.0
        if repr(pbx.canon_pb(res)) != repr(impl):
            bad = "the result changed when the caller's arrays / the operand's bounds were overwritten in place"
    if bad is not None:
        ctx.fail({**features(c), "check": "caller-aliasing", "symptom": "aliasing"}, case_json(c, impl, full=True),
                 f"{describe_full(c)}: {bad}")


def round4_cases(ctx):
    """shapes of the bounds (one flat bound, unaligned steps, one zero-width component) under every map;
    numpy unsigned / narrow scalar kinds; domain edges that must raise; overflow that must not"""
    rng = ctx.rng
    cases = []
    allk = KINDS + XKINDS
    ki = 0
    for shape in SHAPES:
        for sg in ("pos", "neg", "str"):
            for op in OPS:
                for order in ("num", "rnum"):
                    if order == "rnum" and op == "div" and sg == "str":
                        continue
                    for cc in ("neg", "m1", "zero", "one", "pos"):
                        kind = allk[ki % len(allk)]; ki += 1
                        if kind in UNSIGNED and cc in ("neg", "m1"):
                            kind = rng.choice(["int", "float", "npf", "npi", "npi8"])
                        box = shape_box(rng, shape, sg)
                        cases.append(new_case(order, box, op=op, ckind=kind, c=const_value(rng, kind, cc, True), ccls=cc,
                                              bcls=shape_of(*box) if shape in ("flatL", "flatR") else shape, stream="shape",
                                              via=rng.choice(["bare", "method"])))
            box = shape_box(rng, shape, sg)
            bl = lambda b: shape_of(*b) if shape in ("flatL", "flatR") else shape
            cases.append(new_case("neg", box, bcls=bl(box), stream="shape"))
            if sg != "str":
                box = shape_box(rng, shape, sg)
                cases.append(new_case("recip", box, bcls=bl(box), stream="shape", via=rng.choice(["method", "ufunc"])))
            for f in (UNARY if sg == "pos" else ("exp",)):
                box = shape_box(rng, shape, sg)
                if f == "exp":
                    box = ([x / 4.0 for x in box[0]], [x / 4.0 for x in box[1]])
                cases.append(new_case("un", box, f=f, bcls=bl(box), stream="shape", via=rng.choice(["method", "ufunc"])))
            for kind, cv in (("int", 2), ("npi", 3), ("npu8", 2), ("npu64", 3), ("npi8", 4), ("float", 0.5), ("npf32", 1.5)):
                if kind in ("float", "npf32") and sg != "pos":
                    continue
                box = shape_box(rng, shape, sg)
                cases.append(new_case("pow", box, ckind=kind, c=cv, bcls=bl(box), stream="shape", via=rng.choice(["bare", "method"])))
    # numpy unsigned / narrow scalar kinds on ordinary boxes
    for kind in XKINDS:
        for op in OPS:
            for order in ("num", "rnum"):
                for cc in (("zero", "one", "pos") if kind in UNSIGNED else ("neg", "zero", "one", "pos")):
                    bc = rng.choice(["pos", "neg"]) if (order == "rnum" and op == "div") else rng.choice(["pos", "neg", "str", "any"])
                    box = make_box(rng, bc) if rng.random() < 0.5 else distinct_steps_box(rng, bc if bc in ("pos", "neg", "str") else "pos")
                    cases.append(new_case(order, box, op=op, ckind=kind, c=const_value(rng, kind, cc, True), ccls=cc, bcls=bc,
                                          stream="xkind", via=rng.choice(["bare", "method"])))
    # (G) just outside the domain: must raise
    for f in ("log", "sqrt"):
        for via in ("method", "ufunc"):
            l, r = distinct_steps_box(rng, "pos")
            l = [float(x) for x in l]; r = [float(x) for x in r]
            l[0] = -1e-17
            cases.append(new_case("un", (l, r), intbox=False, f=f, bcls="edge-neg-tiny", stream="edge", via=via))
    l, r = distinct_steps_box(rng, "pos")
    cases.append(new_case("un", ([0] + l[1:], r), f="log", bcls="edge-zero", stream="edge", via="method"))
    # overflow: the exact image of the upper steps is not representable; raising is allowed, a returned box must have
    # +-inf exactly there, the other steps right, no NaN, non-decreasing bounds (negative factor: -inf at the low end)
    for via in ("method", "ufunc"):
        base = sorted(rng.uniform(600.0, 1000.0) for _ in range(N))
        wdt = rng.choice([1.0, 5.0])
        cases.append(new_case("un", (base, [x + wdt for x in base]), intbox=False, f="exp", bcls="overflow",
                              stream="overflow", via=via, notie=True))
        cases.append(new_case("un", ([600.0] * N, base), intbox=False, f="exp", bcls="overflow", stream="overflow", via=via, notie=True))
    for kind, cv in (("float", 1e306), ("npf", -1e306)):
        l, r = distinct_steps_box(rng, "pos")
        cases.append(new_case("num", (l, r), op="mul", ckind=kind, c=cv, ccls="huge", bcls="overflow", stream="overflow",
                              via="bare", notie=True))
    return cases


def case_json(c, impl=None, full=False):
    l, r = c["box"]
    d = {k: v for k, v in c.items() if k not in ("box",) and not k.startswith("_")}
    d["c"] = float(c["c"]) if "c" in c else None
    if full:
        d["box"] = [list(map(float, l)), list(map(float, r))]
    else:
        d["box_lr"] = [float(l[0]), float(l[-1]), float(r[0]), float(r[-1])]
    if impl is not None:
        d["impl"] = pbx.js(impl)
    return d


def describe(c):
    k = c["k"]
    if k == "num":
        return f"P {c['op']} {c['ckind']}({c['c']})"
    if k == "rnum":
        return f"{c['ckind']}({c['c']}) {c['op']} P"
    if k == "neg":
        return "-P"
    if k == "recip":
        return "P.reciprocal()" if c.get("via") != "ufunc" else "np.reciprocal(P)"
    if k == "un":
        return f"P.{c['f']}()" if c.get("via") != "ufunc" else f"np.{c['f']}(P)"
    return f"P ** {c['ckind']}({c['c']})" if c.get("via") != "method" else f"P.pow({c['ckind']}({c['c']}))"


def describe_full(c):
    rp = c.get("repr", "float")
    return describe(c) + (f" [P stored as {rp}]" if rp != "float" else "") + f" [{c.get('bcls', '')} box]"


def features(c):
    l, r = c["box"]
    return {"call": c["k"], "op": c.get("op", c.get("f", c["k"])), "ckind": c.get("ckind", "-"), "ccls": c.get("ccls", "-"),
            "sign": pbx.sign_class(l, r)[:3], "via": c.get("via", "-"), "stream": c["stream"], "repr": c.get("repr", "float"),
            "bcls": c.get("bcls", "-")}


def trivial(c):
    l, r = c["box"]
    if min(l) == max(r):
        return True
    if c["k"] == "num":
        return (c["op"] in ("add", "sub") and c["c"] == 0) or (c["op"] in ("mul", "div") and c["c"] == 1)
    if c["k"] == "rnum":
        return (c["op"] == "add" and c["c"] == 0) or (c["op"] == "mul" and c["c"] == 1)
    if c["k"] == "pow":
        return c["c"] == 1
    return False


def tie_agrees(c, impl, model, rep):
    """(agrees?, compared?)"""
    if rep == "unmodelled" or c.get("notie"):
        return True, False     # (int64 wrap-around of integer-dtype bounds is not modelled)
    if not in_domain(c) and c["k"] in ("recip", "rnum") and any(v == 0 for v in c["box"][0] + c["box"][1]):
        # a zero bound gives inf in numpy, not representable in the model: both must fail to give a finite box
        bad_impl = impl[0] != "ok" or any(not math.isfinite(v) for v in impl[1] + impl[2])
        return (bad_impl and model[0] == "err"), True
    if c["k"] == "num" and c["op"] == "div" and c["c"] == 0:
        # which exception a zero divisor produces depends on the kind of the zero (ZeroDivisionError for Python
        # numbers; for numpy zeros 1/0 is inf and the constructor rejects P*inf): the statement is "an error"
        return (impl[0] == "err" and model[0] == "err"), True
    depth = 16
    return pbx.same(impl, model, exact_case(c), depth), True


def identities(c, impl):
    """the four identities of the statement, on the real code's outputs; returns (name, detail) or None"""
    import warnings
    with warnings.catch_warnings():
        warnings.simplefilter("ignore")
        try:
            if c.get("n", N) != N:
                return None      # identities are checked at the default grid (the live operand belongs to its own grid)
            P = pbx.stair(*c["box"])
            if c["k"] == "neg":
                back = pbx.canon_pb(-(-P))
                if back[1] != [float(x) for x in c["box"][0]] or back[2] != [float(x) for x in c["box"][1]]:
                    return "neg-neg", "-(-P) differs from P"
            if c["k"] == "rnum" and c["op"] == "sub":
                cv = mkconst(c["ckind"], c["c"])
                alt = pbx.canon_pb(-(P - cv))
                if alt[1:] != impl[1:]:
                    return "rsub", "c - P differs from -(P - c)"
            if c["k"] == "rnum" and c["op"] == "div":
                cv = mkconst(c["ckind"], c["c"])
                alt = pbx.canon_pb(cv * (1 / P))
                if alt[1:] != impl[1:]:
                    return "rdiv", "c / P differs from c * (1/P)"
        except BaseException as e:  # noqa
            return "identity-raises", f"identity evaluation raised {type(e).__name__}"
    return None


def evaluate(ctx, c, rep, keep=None):
    """tie + oracle for one case"""
    keep = {} if keep is None else keep
    impl = run_impl(c, keep)
    feat = features(c)
    if "operand" in keep and not operand_intact(c, keep["operand"]):
        ctx.fail({**feat, "check": "operand-changed", "symptom": "operand-mutated"}, case_json(c, impl, full=True),
                 f"{describe_full(c)}: the operand p-box no longer holds the bounds it was built from after the call")
    if rep is not None:
        model = pbx.parse_reply(rep) if rep != "unmodelled" else None
        ok, compared = tie_agrees(c, impl, model, rep)
        if compared:
            if ok:
                ctx.tie_ok()
            else:
                ctx.tie_bad(c["stream"], case_json(c), pbx.js(impl) if impl[0] in ("ok", "err") else list(impl),
                            pbx.js(model) if model and model[0] in ("ok", "err") else rep)
    what = describe_full(c)
    cj = lambda extra=None: {**case_json(c, impl, full=True), **(extra or {})}
    # division by the constant zero must be an error, whatever the kind of the zero
    if c["k"] == "num" and c["op"] == "div" and c["c"] == 0:
        if impl[0] != "err":
            ctx.fail({**feat, "check": "div-zero", "symptom": "no-error"}, cj(), f"{what}: division by zero did not raise")
        return impl
    if c["stream"] == "overflow":
        w = overflow_bad(c, impl)
        ctx.bump("overflow:" + ("raised" if impl[0] == "err" else "returned"))
        if w is not None:
            ctx.fail({**feat, "check": "overflow", "symptom": "wrong-step"}, cj({"witness": w}),
                     f"{what}: some images exceed the largest double; the call may raise, but the box it returned is wrong: {w}")
        return impl
    if c["k"] == "un" and ((c["f"] == "log" and min(c["box"][0]) <= 0) or (c["f"] == "sqrt" and min(c["box"][0]) < 0)):
        if impl[0] == "ok":
            ctx.fail({**feat, "check": "domain-edge", "symptom": "no-error"}, cj(),
                     f"{what}: the p-box reaches {min(c['box'][0])!r}, outside the domain of {c['f']}, and no error was raised")
        return impl
    if c["k"] in ("recip", "rnum") and c.get("op", "div") == "div" and min(c["box"][0]) < 0 < max(c["box"][1]):
        # 1/x is unbounded on a support holding zero in its interior: no box can be the image (9df94fc)
        if impl[0] == "ok":
            ctx.fail({**feat, "check": "recip-straddle", "symptom": "no-error"}, cj(),
                     f"{what}: the p-box straddles zero, the reciprocal is unbounded, and a p-box was returned")
        return impl
    if not in_domain(c):
        return impl
    if impl[0] != "ok":
        sym = "raises:" + impl[1] if impl[0] == "err" else "returns:" + impl[1]
        ctx.fail({**feat, "check": "raises", "symptom": sym}, cj(), f"{what} on a well-formed p-box in the domain: {sym}")
        return impl
    L, U, rational = expected_steps(c)
    exact = exact_case(c) and rational
    w = compare_steps(impl, L, U, exact, depth=2 if rational else 4)
    if w is not None:
        ctx.fail({**feat, "check": "steps-" + w["bound"], "symptom": "step-not-image"}, cj({"witness": w}),
                 f"{what}: {w['bound']}[{w.get('step')}] is {w.get('reported')}, the sorted focal images give {w.get('expected')}")
        return impl
    if c["k"] == "un":
        w = roundtrip_bad(c, impl)
        if w is not None:
            ctx.fail({**feat, "check": "roundtrip", "symptom": "inverse-mismatch"}, cj({"witness": w}),
                     f"{what}: undoing the map on {w['bound']}[{w['step']}] does not give the operand's step")
            return impl
    if c["k"] in ("num", "rnum") and c["op"] == "mul" and c["c"] == 0:
        if any(v != 0 for v in impl[1] + impl[2]):
            ctx.fail({**feat, "check": "mul-zero", "symptom": "nonzero-step"}, cj(), f"{what}: a step of the product with 0 is not [0,0]")
            return impl
    idn = identities(c, impl)
    if idn is not None:
        ctx.fail({**feat, "check": "identity-" + idn[0], "symptom": idn[0]}, cj(), f"{what}: {idn[1]}")
    return impl


FOLLOW = (("neg", {}), ("num", {"op": "mul", "ckind": "float", "c": -2.0, "ccls": "neg", "via": "bare"}),
          ("rnum", {"op": "sub", "ckind": "int", "c": 3, "ccls": "pos", "via": "bare"}),
          ("num", {"op": "div", "ckind": "npf", "c": -4.0, "ccls": "neg", "via": "method"}),
          ("num", {"op": "add", "ckind": "npi", "c": 7, "ccls": "pos", "via": "bare"}),
          ("rnum", {"op": "mul", "ckind": "npf", "c": 0.5, "ccls": "pos", "via": "bare"}))


def run(ctx: core.Check):
    core.stub_moments()
    ctx.rule = ("200-step p-boxes (integer step boxes of every sign class incl. zero-touching, precise, interval, point, all-distinct "
                "steps; boxes from the library constructors) combined with a constant of class {negative,-1,0,1,positive} given as "
                "int / float / numpy.float64 / numpy.int64 on either side of + - * /, plus -P, reciprocal, exp/log/sqrt (method and "
                "numpy ufunc) and P**c (integer and real exponents). Non-trivial = not an identity map (x+0, x*1, x**1) and not a "
                "single-point box; distinct on (call, op, kind, constant, box).")
    ctx.assumptions = ["binary64 rounding not modelled: exact agreement on integer boxes with dyadic constants, a few ulp otherwise",
                       "exp/log/sqrt/real powers are parameters: the model receives numpy's values, the theorems assume monotonicity; "
                       "the oracle checks them against the C library and by undoing the map",
                       "P**c on a zero-straddling p-box goes through Interval.__pow__ and stacking (C05/C08): oracle only, integer c",
                       "moments (LP) are stubbed in the harness process; they are C04's concern",
                       "reading of 'P * 0 is the number 0': every step of the returned p-box is [0,0]",
                       "binary64 overflow is outside the model: where the exact image of a step is not representable the call may "
                       "raise; a returned box must carry exactly +-inf there, the right values elsewhere, no NaN, ordered bounds"]
    from .translator import numops as _tr
    def _gen():
        res = _tr.generate(core.REPO, core.LEAN / "Pun/Gen/NumOpsGen.lean")
        return "ok: pbox_number_ops, __neg__, reciprocal, _unary_template, %d number branches, %d operators regenerated" % (
            len(res["methods"]), len(res["ops"]) + 1)
    ctx.lean_stage(["Pun.Lemmas.PBoxNum", "Pun.Props.C06", "Pun.Props.C06Gen"],
                   generators=[("number operations of pbox_abc.py (numops translator)", _gen)])
    cases = gen_cases(ctx)
    replies = core.model_batch("C06", [wire(c) for c in cases])
    amb0, amb_reported = ambient(), []
    recorded = []
    alive, pending = [], []   # live result objects of recent cases ; cases scheduled for a second evaluation

    def recheck(final=False):
        """results handed out earlier must still read the same, and their operands too (shared buffers, caches)"""
        for a in alive:
            ctx.bump("alive-rechecked")
            now = pbx.canon_pb(a["result"])
            if repr(now) != repr(a["canon"]) or not operand_intact(a["case"], a["operand"]):
                ctx.fail({**features(a["case"]), "check": "result-changed-later", "symptom": "aliasing"},
                         case_json(a["case"], a["canon"], full=True),
                         f"{describe_full(a['case'])}: the result (or operand) object changed after later, unrelated calls")
        del alive[: (len(alive) if final else max(0, len(alive) - 24))]

    for idx, (c, rep) in enumerate(zip(cases, replies)):
        key = (c["k"], c.get("op"), c.get("f"), c.get("ckind"), repr(c.get("c")), c.get("via"), c.get("repr"), tuple(c["box"][0]), tuple(c["box"][1]))
        ctx.count(key, not trivial(c), c["stream"])
        ctx.bump("sign:" + pbx.sign_class(*c["box"]))
        if "ckind" in c:
            ctx.bump("kind:" + c["ckind"])
        if not in_domain(c):
            ctx.bump("outside-domain")
        keep = {}
        impl = evaluate(ctx, c, rep, keep)
        if impl[0] == "ok" and "result" in keep:
            alive.append({"case": c, "result": keep["result"], "operand": keep["operand"], "canon": impl})
        if idx % 6 == 2 and c.get("n", N) == N and impl[0] == "ok" and "result" in keep and all(math.isfinite(v) for v in impl[1] + impl[2]):
            # (F) the operand is used again after the call, and the result becomes the operand of the next call
            nxt = FOLLOW[(idx // 6) % len(FOLLOW)]
            c2 = new_case(nxt[0], c["box"], intbox=c["intbox"], repr=c.get("repr", "float"), bcls=c.get("bcls", "-"),
                          stream="reuse", _obj=keep["operand"], **nxt[1])
            c3 = new_case(nxt[0], (impl[1], impl[2]), intbox=False, bcls="result of " + describe(c), stream="chain",
                          _obj=keep["result"], **nxt[1])
            for cx in (c2, c3):
                ctx.count(("follow", idx, cx["stream"]), True, cx["stream"])
                evaluate(ctx, cx, None)
        if ambient() != amb0:
            if not amb_reported:
                amb_reported.append(1)
                ctx.fail({**features(c), "check": "ambient-state", "symptom": "state-leaked"}, case_json(c, impl, full=True),
                         f"{describe_full(c)}: Params / dependency context / numpy error state / warning filters differ after the call: "
                         f"{ambient()} vs {amb0}")
        if idx % 5 == 3 and impl[0] in ("ok", "err"):
            # (P i) the same call with floating-point errors raised and warnings escalated: same value, or an exception
            st = run_impl(c, strict=True)
            ctx.bump("strict:" + ("same" if repr(st) == repr(impl) else "raised" if st[0] == "err" else "DIFFERENT"))
            if st[0] != "err" and repr(st) != repr(impl):
                ctx.fail({**features(c), "check": "strict-fp", "symptom": "different-value"}, case_json(c, st, full=True),
                         f"{describe_full(c)}: under np.errstate(all='raise') and warnings escalated to errors the call returns a different "
                         f"result than under the default settings")
        if c["stream"] == "alias-id" or (idx % 8 == 5 and c.get("repr", "float") == "float" and c.get("n", N) == N and "_obj" not in c):
            alias_check(ctx, c)
        if idx % 7 == 0:
            pending.append((idx + 5, c, impl))
        if idx % 4 == 1 and len(recorded) < 400:
            recorded.append((c, impl))
        while pending and pending[0][0] <= idx:
            _, c2, first = pending.pop(0)
            ctx.bump("evaluated-twice")
            again = run_impl(c2)
            if repr(again) != repr(first):
                ctx.fail({**features(c2), "check": "not-reproducible", "symptom": "state-carried"}, case_json(c2, again, full=True),
                         f"{describe_full(c2)}: the same call on a fresh, equal operand gives a different result after other calls")
        if idx % 40 == 39:
            recheck()
        ctx.sample({"call": describe(c), "stream": c["stream"], "box_lr": case_json(c)["box_lr"], "impl": pbx.js(impl) if impl[0] in ("ok", "err") else list(impl)})
    for _, c2, first in pending:
        ctx.bump("evaluated-twice")
        again = run_impl(c2)
        if repr(again) != repr(first):
            ctx.fail({**features(c2), "check": "not-reproducible", "symptom": "state-carried"}, case_json(c2, again, full=True),
                     f"{describe_full(c2)}: the same call on a fresh, equal operand gives a different result after other calls")
    recheck(final=True)
    # sequence stream: the same kind of call many times in a row, operands and results created and dropped in
    # between (address reuse), nothing kept alive; every result must equal the one recorded in the main pass
    seq = sorted(recorded, key=lambda t: (t[0]["k"], t[0].get("f", ""), t[0].get("op", "")))
    for c2, first in seq:
        ctx.bump("sequence-replayed")
        again = run_impl(c2)
        if repr(again) != repr(first):
            ctx.fail({**features(c2), "check": "not-reproducible", "symptom": "state-carried"}, case_json(c2, again, full=True),
                     f"{describe_full(c2)}: repeated in a row with other operands created and dropped in between, the call "
                     f"no longer gives the result it gave before")


def replay(obj):
    """re-evaluate the stored failing case on the current code"""
    c = obj.get("case")
    if not c or "box" not in c:
        print(json.dumps(obj, indent=1))
        return 0
    core.stub_moments()
    case = {k: v for k, v in c.items() if k not in ("impl", "witness", "box_lr")}
    l, r = c["box"]
    as_int = all(float(x).is_integer() for x in l + r)
    case["box"] = ([int(x) for x in l], [int(x) for x in r]) if as_int else (l, r)
    if case.get("ckind") in INTK and case.get("c") is not None:
        case["c"] = int(case["c"])
    ctx = core.Check("C06", "quick", int(obj.get("seed", 0)))
    evaluate(ctx, case, None)
    print(json.dumps({"case": describe(case), "failures": ctx.failures[:1], "known": list(ctx.known_hit)}, indent=1, default=str))
    return 1 if ctx.failures else 0
