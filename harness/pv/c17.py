"""C17 — Kolmogorov-Smirnov confidence bands are valid bands around the empirical cdf.

proof  : Pun.Props.C17 (hand model Pun.KS) + Pun.Props.C17Gen (d_alpha table/constants regenerated from pbox_free.py)
tie    : d_alpha, KS_bounds(bounds), KS_bounds(pbox) on precise and interval data vs Pun.KS.{dAlpha,band,iband,fromBundles}
oracle : exact-Fraction statement of the property on the real outputs (grid, monotone, unit range, exact +-D shift,
         D>0 / decreasing in n and alpha / close to the exact Smirnov quantile, interval band contains every selection,
         p-box contains the empirical quantiles and equals the closed-form order statistics, unsupported alpha raises)
"""
from __future__ import annotations
import math, copy, bisect, json, collections, gc, pickle, warnings, contextlib
from fractions import Fraction as F
import numpy as np
from . import core
from .core import q, ql, unq, unql, err_kind
from .translator import ks as tr

SUPPORTED = [0.1, 0.05, 0.025]
ULP1 = 2.220446049250313e-16


# ---------------------------------------------------------------------------- implementation access
def _mods():
    from pyuncertainnumber.pba.pbox_free import KS_bounds, d_alpha
    from pyuncertainnumber.pba.intervals.number import Interval
    from pyuncertainnumber.pba.params import Params
    return KS_bounds, d_alpha, Interval, Params


def pvalues():
    return [float(x) for x in _mods()[3].p_values]


def build(c):
    """the object handed to KS_bounds"""
    I = _mods()[2]
    if c["kind"] == "interval":
        if c.get("dtype"):
            return I(lo=np.array(c["lo"], dtype=float).astype(c["dtype"]), hi=np.array(c["hi"], dtype=float).astype(c["dtype"]))
        return I(lo=np.array(c["lo"], dtype=float), hi=np.array(c["hi"], dtype=float))
    s = c["s"]
    cont = c.get("cont", "array")
    if cont == "bigintlist":                 # Python ints beyond 2**53 (odd, so not representable; they round to s)
        return [int(x) + 1 for x in s]
    if cont.startswith("dt:"):               # ndarray of an arbitrary numpy dtype (values are exactly representable in it)
        return np.array(s, dtype=float).astype(cont[3:])
    if cont == "list":
        return list(s)
    if cont == "col":
        return np.array(s, dtype=float).reshape(-1, 1)
    if cont in ("intarray", "int32", "intlist") and all(float(x).is_integer() and abs(x) < 2 ** 31 for x in s):
        if cont == "intlist":
            return [int(x) for x in s]          # list of Python ints
        return np.array([int(x) for x in s], dtype=np.int32 if cont == "int32" else np.int64)
    return np.array(s, dtype=float)


def alpha_obj(c):
    a = c["alpha"]
    if c.get("alpha_np"):
        return np.float64(a)
    return a


def _fl(a):
    return [float(x) for x in np.asarray(a, dtype=float).ravel()]


@contextlib.contextmanager
def grid_ctx(c):
    """the public discretisation Params.steps / Params.p_values set to c['grid'] for the duration of the call, always restored"""
    g = c.get("grid")
    P = _mods()[3]
    if not g:
        yield
        return
    old = (P.steps, P.p_values)
    try:
        P.steps = int(g)
        P.p_values = np.linspace(P.p_lboundary, P.p_hboundary, int(g))
        yield
    finally:
        P.steps, P.p_values = old


def pv_of(c, default_pv):
    g = c.get("grid")
    if not g:
        return default_pv
    P = _mods()[3]
    return [float(x) for x in np.linspace(P.p_lboundary, P.p_hboundary, int(g))]


@contextlib.contextmanager
def fp_mode(strict):
    """default harness mode: numpy warnings silenced; strict: every floating-point flag and every warning is an error"""
    if strict:
        with np.errstate(all="raise"), warnings.catch_warnings():
            warnings.simplefilter("error")
            yield
    else:
        with np.errstate(all="ignore"):
            yield


def _snap(obj):
    """canonical copy of the operand handed to KS_bounds (to check it is not modified)"""
    I = _mods()[2]
    if isinstance(obj, I):
        return ("I", np.array(obj.lo, dtype=float).tobytes(), np.array(obj.hi, dtype=float).tobytes())
    if isinstance(obj, np.ndarray):
        return ("A", str(obj.dtype), obj.shape, obj.tobytes())
    return ("L", tuple(type(x).__name__ for x in obj), tuple(obj))


def _canon_band(u, l):
    return ("ok", _fl(u.quantiles), _fl(u.probabilities), _fl(l.quantiles), _fl(l.probabilities))


def _ks(data, a, c, **kw):
    """the call under test; with c['display'] the display argument is LEFT AT ITS DEFAULT (True): Agg backend, figures closed"""
    KS_bounds = _mods()[0]
    if c.get("display"):
        import matplotlib.pyplot as plt
        try:
            return KS_bounds(data, a, **kw)
        finally:
            plt.close("all")
    return KS_bounds(data, a, display=False, **kw)


def run_impl(c, keep=False, data=None, strict=False):
    KS_bounds, d_alpha, I, Params = _mods()
    n = len(c["lo"]) if c["kind"] == "interval" else len(c["s"])
    a = alpha_obj(c)
    out = {"n": n}
    with fp_mode(strict), grid_ctx(c):
        try:
            out["D"] = ("ok", float(d_alpha(n, a)))
        except BaseException as e:  # noqa
            out["D"] = ("err", err_kind(e))
        data = build(c) if data is None else data
        snap = _snap(data)
        u = l = p = None
        try:
            u, l = _ks(data, a, c)
            out["band"] = _canon_band(u, l)
        except BaseException as e:  # noqa
            out["band"] = ("err", err_kind(e))
        try:
            p = _ks(data, a, c, output_type="pbox")
            out["pbox"] = ("ok", _fl(p.left), _fl(p.right))
        except BaseException as e:  # noqa
            out["pbox"] = ("err", err_kind(e))
        if c.get("un"):
            try:
                un = _ks(data, a, c, output_type="un")
                pc = un.construct
                out["un"] = ("ok", _fl(pc.left), _fl(pc.right))
            except BaseException as e:  # noqa
                out["un"] = ("err", err_kind(e))
        out["input_unchanged"] = _snap(data) == snap
        # the bundles returned by the first call must not have been touched by the second call
        out["band_stable"] = (u is None) or _canon_band(u, l) == out["band"]
    if keep:
        out["_objs"] = (u, l, p, data, snap)
    return out


def transc(n, a):
    """the two transcendental values d_alpha uses, as the implementation computes them (0 when not finite)"""
    r1 = r2 = 0.0
    with np.errstate(all="ignore"):
        try:
            v = float(np.sqrt(np.log(1 / a) / (2 * n)))
            if math.isfinite(v):
                r1 = v
        except BaseException:  # noqa
            pass
        try:
            v = float(n ** (-3 / 2))
            if math.isfinite(v):
                r2 = v
        except BaseException:  # noqa
            pass
    return r1, r2


# ---------------------------------------------------------------------------- model replies
def parse_lists(rep, k):
    t = rep.split()
    if t[0] == "err":
        return ("err", t[1])
    if t[0] == "ok" and len(t) == k + 1:
        return ("ok",) + tuple(unql(x) for x in t[1:])
    return ("bad", rep)


def parse_D(rep):
    t = rep.split()
    if t[0] == "err":
        return ("err", t[1])
    if t[0] == "ok" and len(t) == 2:
        return ("ok", unq(t[1]))
    return ("bad", rep)


def absclose(x, m, tol):
    if not math.isfinite(x):
        return False
    return abs(F(x) - m) <= F(tol)


def tol_n(n):
    return (n + 8) * 2 * ULP1


# ---------------------------------------------------------------------------- generators
def _scale_vals(rng, n, style):
    if style == "ints":          # many ties
        m = rng.choice([2, 3, 5, 10, 50])
        return [float(rng.randint(-m, m)) for _ in range(n)]
    if style == "const":
        v = float(rng.randint(-5, 5))
        return [v] * n
    if style == "tiny":
        e = 10 ** rng.uniform(-9, -3)
        return [rng.gauss(0, 1) * e for _ in range(n)]
    if style == "huge":
        e = 10 ** rng.uniform(3, 9)
        return [rng.gauss(0, 1) * e + rng.choice([0, e * 10]) for _ in range(n)]
    if style == "dyadic":        # ties + fractions
        return [rng.randint(-40, 40) / 8 for _ in range(n)]
    if style == "lognormal":
        return [math.exp(rng.gauss(0, 1.5)) for _ in range(n)]
    if style == "tiny12":        # data recorded in tiny units
        e = rng.choice([1e-9, 1e-10, 1e-12, 1e-15])
        return [rng.gauss(0, 1) * e for _ in range(n)]
    if style == "offset":        # large location, comparatively small gaps (ties likely)
        off = rng.choice([2e6, 1e7, 1e9])
        return [off + 3.0 * rng.randint(-n, n) for _ in range(n)]
    if style == "pow2tiny":      # integers with ties, scaled by a power of two (exact)
        k = rng.choice([30, 50, 70])
        return [rng.randint(-9, 9) * 2.0 ** -k for _ in range(n)]
    if style == "pow2huge":
        return [rng.randint(-9, 9) * 2.0 ** 36 for _ in range(n)]
    if style == "e-170":
        e = rng.choice([1e-19, 1e-170])
        return [rng.gauss(0, 1) * e for _ in range(n)]
    if style == "e150":
        return [rng.gauss(0, 1) * 1e150 for _ in range(n)]
    if style == "bigints":
        return [float(rng.randint(-10 ** 9, 10 ** 9)) for _ in range(n)]
    return [rng.gauss(rng.uniform(-3, 3), 1) for _ in range(n)]


STYLES = ["ints", "ints", "normal", "normal", "tiny", "huge", "dyadic", "lognormal", "const", "tiny12", "offset", "bigints", "pow2tiny", "pow2huge", "e-170", "e150"]


def _size(rng, big):
    r = rng.random()
    if r < 0.35:
        return rng.randint(2, 8)
    if r < 0.75:
        return rng.randint(9, 60)
    return rng.randint(61, big)


def _widths(rng, vals, style):
    sc = (max(vals) - min(vals)) or max(abs(vals[0]), 1.0)
    w = rng.choice(["zero", "small", "mixed", "wide", "const"])
    if w == "zero":
        return [0.0] * len(vals), [0.0] * len(vals)
    if w == "const":
        d = rng.uniform(0, 1) * sc
        return [d] * len(vals), [d] * len(vals)
    k = {"small": 0.02, "mixed": 0.5, "wide": 3.0}[w]
    if style in ("ints", "dyadic"):
        return ([float(rng.randint(0, 3)) * rng.choice([0, 1]) for _ in vals],
                [float(rng.randint(0, 3)) * rng.choice([0, 1]) for _ in vals])
    return [rng.uniform(0, k) * sc for _ in vals], [rng.uniform(0, k) * sc for _ in vals]


def selections(rng, lo, hi, k):
    n = len(lo)
    sels = [("lo", list(lo)), ("hi", list(hi)), ("mid", [(a + b) / 2 if math.isfinite((a + b) / 2) else a for a, b in zip(lo, hi)])]
    for _ in range(k):
        m = rng.choice(["uniform", "ends", "pile"])
        if m == "uniform":
            x = [a + rng.random() * (b - a) for a, b in zip(lo, hi)]
        elif m == "ends":
            x = [rng.choice([a, b]) for a, b in zip(lo, hi)]
        else:                     # pile the points on a common value where possible (creates ties)
            t = rng.choice(lo + hi)
            x = [min(max(t, a), b) for a, b in zip(lo, hi)]
        x = [min(max(v, a), b) for v, a, b in zip(x, lo, hi)]
        sels.append((m, x))
    return sels


DTYPES = ["uint8", "uint16", "uint32", "uint64", "int8", "int16", "int32", "float32", "float16", "longdouble", "bool"]


def _dtype_vals(rng, dt, n):
    """n values exactly representable in dtype dt (returned as floats), reaching both ends of its range"""
    if dt == "bool":
        v = [float(rng.random() < 0.5) for _ in range(n)]
        v[0], v[-1] = 1.0, 0.0
        return v
    if dt.startswith("float") or dt == "longdouble":
        sc = 10 ** rng.uniform(-2, 3)
        return [float(x) for x in np.array([rng.gauss(0, 1) * sc for _ in range(n)]).astype(dt)]
    info = np.iinfo(dt)
    lo, hi = int(info.min), min(int(info.max), 2 ** 53)
    pool = [lo, lo + 1, hi, hi - 1, hi // 2, 3, 7]
    v = [rng.choice(pool) if rng.random() < 0.6 else rng.randint(lo, hi) for _ in range(n)]
    v[0], v[1] = hi, lo              # a jump over the whole range right at the start
    return [float(x) for x in v]


def _dtype_widen(rng, dt, vals):
    if dt == "bool":
        return [max(v, float(rng.random() < 0.5)) for v in vals]
    if dt.startswith("float") or dt == "longdouble":
        w = (max(vals) - min(vals)) or 1.0
        return [float(x) for x in np.array([v + rng.random() * w * 0.3 for v in vals]).astype(dt)]
    hi = min(int(np.iinfo(dt).max), 2 ** 53)
    return [float(min(hi, int(v) + rng.choice([0, 1, 2, 50]))) for v in vals]


UNSUPPORTED = [0.2, 0.01, 0.5, 0.95, 0.9, 0.975, 0.0, 1.0, -0.05, 2.0, 0.15 - 0.1, math.nextafter(0.05, 1.0),
               math.nextafter(0.1, 0.0), 0.1 + 0.05, 1e-300, 0.3, 0.001, float("nan"), float("inf"), 0, 1, -0.0, False, True]


def gen_cases(ctx):
    rng = ctx.rng
    cases = []
    pdisp = ctx.scale(30, 4) / 100      # share of calls made with display left at its default (a figure each)
    # 1. grid: every sample over {0,1,2} of size 2..4 (all tie patterns, all orders) x the three levels
    import itertools
    for n in (2, 3, 4):
        for s in itertools.product([0.0, 1.0, 2.0], repeat=n):
            for a in SUPPORTED:
                cases.append({"stream": "grid-small", "kind": "precise", "s": list(s), "alpha": a,
                              "cont": ["list", "array", "intlist", "intarray", "int32"][len(cases) % 5],
                              "display": len(cases) % 7 == 0})
    # 1b. every size 2..500 once (D stream: positivity / monotonicity / accuracy on the whole quantifier range)
    for n in range(1, 501):
        for a in SUPPORTED:
            cases.append({"stream": "grid-n", "kind": "donly", "n": n, "alpha": a})
    # 2. random precise samples
    for i in range(ctx.scale(170, 9000)):
        n = _size(rng, 500)
        st = rng.choice(STYLES)
        cases.append({"stream": "random-precise", "kind": "precise", "s": _scale_vals(rng, n, st), "style": st,
                      "alpha": rng.choice(SUPPORTED), "alpha_np": rng.random() < 0.2,
                      "cont": rng.choice(["array", "array", "list", "col", "intarray", "int32", "intlist"]),
                      "display": rng.random() < (pdisp if n <= 150 else pdisp / 3), "un": i % 10 == 0})
    # 3. random interval samples with selections
    for i in range(ctx.scale(110, 5000)):
        n = _size(rng, 500 if i % 7 == 0 else 120)
        st = rng.choice(STYLES)
        mid = _scale_vals(rng, n, st)
        wl, wr = _widths(rng, mid, st)
        lo = [m - w for m, w in zip(mid, wl)]
        hi = [m + w for m, w in zip(mid, wr)]
        cases.append({"stream": "random-interval", "kind": "interval", "lo": lo, "hi": hi, "style": st,
                      "alpha": rng.choice(SUPPORTED), "nsel": 3, "display": rng.random() < (pdisp if n <= 150 else pdisp / 3)})
    # 3b. thin-but-wide interval data: widths comparable to the spread, yet below numpy's default closeness
    #     tolerances (atol 1e-8, rtol 1e-5): tiny units, or a large location with small gaps
    for i in range(ctx.scale(36, 1200)):
        n = rng.choice([2, 3, 5, 8, 20, 60])
        if i % 2 == 0:
            e = [1e-9, 1e-10, 1e-12, 1e-15][(i // 2) % 4]
            mid = [rng.gauss(0, 1) * e for _ in range(n)]
            lo = [m - rng.uniform(0.2, 1.5) * e for m in mid]
            hi = [m + rng.uniform(0.2, 1.5) * e for m in mid]
        else:
            off = [2e6, 1e7, 1e9][(i // 2) % 3]
            g = off * 1.5e-6                   # gap 3 at 2e6
            mid = [off + g * rng.randint(-n, n) for _ in range(n)]
            lo = [m - g * rng.choice([1, 4 / 3, 0.5]) for m in mid]
            hi = [m + g * rng.choice([1, 4 / 3, 0.5]) for m in mid]
        cases.append({"stream": "thin-interval", "kind": "interval", "lo": lo, "hi": hi, "style": "thin",
                      "alpha": SUPPORTED[i % 3], "nsel": 2, "display": i % 6 == 0})
    # 3d. sizes at equalities with the number of p-box steps: n+2, n+1, n == steps (and around), twice the steps; 1
    steps = int(_mods()[3].steps)
    for n in sorted(set([1, steps - 4, steps - 3, steps - 2, steps - 1, steps, steps + 1, steps + 2, 2 * steps - 2, 2 * steps - 1, 2 * steps])):
        if n < 1:
            continue
        for k, st in enumerate(["normal", "ints", "interval"]):
            a = SUPPORTED[(n + k) % 3]
            if st == "interval":
                mid = _scale_vals(rng, n, "normal")
                wl, wr = _widths(rng, mid, "normal")
                cases.append({"stream": "sizes", "kind": "interval", "lo": [m - w for m, w in zip(mid, wl)],
                              "hi": [m + w for m, w in zip(mid, wr)], "alpha": a, "nsel": 1, "un": True, "style": "steps",
                              "display": n % 2 == 0})
            else:
                cases.append({"stream": "sizes", "kind": "precise", "s": _scale_vals(rng, n, st), "alpha": a,
                              "cont": "array" if k else "list", "un": True, "style": "steps", "display": (n + k) % 2 == 1})
    # 3e. the public discretisation changed (Params.steps / Params.p_values), used, restored: sizes around the changed step
    #     count, with and without the default display; the p-box must have the configured number of levels and satisfy the
    #     oracle at that grid
    for g in (25, 100, 300):
        for n in sorted(set([2, 7, g - 3, g - 2, g - 1, g, g + 1, 2 * g - 2 if g < 200 else g + 40])):
            for k, kind in enumerate(["precise", "interval"]):
                a = SUPPORTED[(n + k + g) % 3]
                base = {"stream": "grid-changed", "grid": g, "alpha": a, "display": (n + k) % 2 == 0, "un": n % 3 == 0, "style": f"grid{g}"}
                if kind == "precise":
                    cases.append({**base, "kind": "precise", "s": _scale_vals(rng, n, rng.choice(["normal", "ints"])), "cont": "array"})
                else:
                    mid = _scale_vals(rng, n, "normal")
                    wl, wr = _widths(rng, mid, "normal")
                    cases.append({**base, "kind": "interval", "lo": [m - w for m, w in zip(mid, wl)],
                                  "hi": [m + w for m, w in zip(mid, wr)], "nsel": 1})
    # 3c. every numpy dtype as sample container (values near the ends of the dtype's range, so that differences wrap
    #     around in the dtype), unsorted / sorted / reversed; interval data with the same dtypes
    for di, dt in enumerate(DTYPES):
        for form in ("unsorted", "unsorted", "sorted", "reversed", "interval"):
            n = rng.choice([2, 3, 5, 9, 30])
            vals = _dtype_vals(rng, dt, n)
            if form == "sorted":
                vals = sorted(vals)
            elif form == "reversed":
                vals = sorted(vals, reverse=True)
            elif n > 2 and vals == sorted(vals):
                vals = vals[1:] + vals[:1]
            a = SUPPORTED[(di + len(cases)) % 3]
            if form == "interval":
                hi = _dtype_widen(rng, dt, vals)
                cases.append({"stream": "dtypes", "kind": "interval", "lo": vals, "hi": hi, "dtype": dt, "alpha": a,
                              "nsel": 1, "style": dt, "display": di % 4 == 0})
            else:
                cases.append({"stream": "dtypes", "kind": "precise", "s": vals, "cont": "dt:" + dt, "alpha": a,
                              "style": dt + ":" + form, "display": (di + n) % 5 == 0})
    for a in SUPPORTED:
        n = rng.choice([3, 6, 12])
        cases.append({"stream": "dtypes", "kind": "precise", "s": [float(2 ** 60 + 256 * rng.randint(0, 5)) for _ in range(n)],
                      "cont": "bigintlist", "alpha": a, "style": "int>2**53"})
    # 4. unsupported levels (always contains the known-finding witness alpha=0.2)
    for j, a in enumerate(UNSUPPORTED):
        n = [5, 2, 17, 100][j % 4]
        s = _scale_vals(rng, n, "ints")
        cases.append({"stream": "unsupported-alpha", "kind": "precise", "s": s, "alpha": a, "cont": "array"})
        if j % 3 == 0:
            cases.append({"stream": "unsupported-alpha", "kind": "interval", "lo": s, "hi": [x + 1 for x in s],
                          "alpha": a, "nsel": 0})
    for _ in range(ctx.scale(40, 1500)):
        r = rng.random()
        a = rng.choice(SUPPORTED) * rng.choice([2, 0.5, 10, 0.1, 1 + 2 ** -52, 1 - 2 ** -53]) if r < 0.5 else \
            (rng.uniform(-0.2, 1.2) if r < 0.8 else 1 - rng.choice(SUPPORTED))
        n = _size(rng, 200)
        cases.append({"stream": "unsupported-alpha", "kind": "precise", "s": _scale_vals(rng, n, rng.choice(STYLES)),
                      "alpha": a, "cont": "array", "alpha_np": rng.random() < 0.3})
    # 5. malformed: empty sample
    for a in (0.05, 0.2):
        cases.append({"stream": "malformed", "kind": "precise", "s": [], "alpha": a, "cont": "list"})
    # 6. synthetic bundles straight into Staircase.from_CDFbundle (all four extend_ecdf branches)
    for _ in range(ctx.scale(120, 4000)):
        def bundle():
            m = rng.randint(1, 12)
            qs = sorted(rng.randint(-6, 6) / 2 for _ in range(m))
            ps = sorted(rng.choice([0.0, 1.0, rng.randint(0, 16) / 16, rng.random()]) for _ in range(m))
            if rng.random() < 0.4:
                ps[0] = 0.0
            if rng.random() < 0.4:
                ps[-1] = 1.0
            return qs, ps
        cases.append({"stream": "bundles", "kind": "bundles", "a": bundle(), "b": bundle()})
    return cases


# ---------------------------------------------------------------------------- oracle helpers (exact)
def clipF(x):
    return min(max(x, F(0)), F(1))


def step_eval(qs, ps, t):
    """right-continuous step function drawn by a bundle: p at the last grid point <= t, 0 left of the grid"""
    i = bisect.bisect_right(qs, t) - 1
    return ps[i] if i >= 0 else 0.0


def ecdf_at(ss, t):
    return F(bisect.bisect_right(ss, t), len(ss))


def test_points(rng, *lists):
    vals = sorted(set(v for l in lists for v in l))
    pts = set(vals)
    for a, b in zip(vals, vals[1:]):
        m = a + (b - a) / 2
        if math.isfinite(m):
            pts.add(m)
    span = (vals[-1] - vals[0]) or 1.0
    pts.add(vals[0] - span)
    pts.add(vals[-1] + span)
    pts = sorted(pts)
    if len(pts) > 160:
        pts = sorted(set(rng.sample(pts, 150) + pts[:4] + pts[-4:]))
    return pts


_KS1 = {}


def smirnov_exact(n, a):
    """exact one-sided Smirnov critical value (scipy.stats.ksone), cached"""
    key = (n, a)
    if key not in _KS1:
        from scipy.stats import ksone
        _KS1[key] = float(ksone.ppf(1 - a, n))
    return _KS1[key]


def feat(c, call, symptom, **kw):
    a = c.get("alpha")
    d = {"call": call, "kind": c["kind"], "alpha_supported": bool(a in SUPPORTED) if a is not None else None,
         "symptom": symptom, "stream": c["stream"]}
    d.update(kw)
    return d


def cj(c):
    """case as JSON (floats kept exact through hex where it matters)"""
    d = dict(c)
    for k in ("s", "lo", "hi"):
        if k in d and len(d[k]) > 40:
            d[k + "_hex"] = [float(x).hex() for x in d[k]]
            d[k] = f"<{len(d[k])} values, see {k}_hex>"
    if "alpha" in d and isinstance(d["alpha"], float):
        d["alpha_repr"] = repr(d["alpha"])
    return d


def oracle_D(ctx, c, n, a, D):
    """D is positive, decreases in n and alpha, and is the Smirnov critical value"""
    d_alpha = _mods()[1]
    bad = []
    if not (math.isfinite(D) and D > 0):
        bad.append(("D-not-positive", f"d_alpha({n},{a}) = {D} is not positive"))
    else:
        D2 = float(d_alpha(n + 1, a))
        if not D2 < D:
            bad.append(("D-not-decreasing-in-n", f"d_alpha({n + 1},{a}) = {D2} >= d_alpha({n},{a}) = {D}"))
        for a2 in SUPPORTED:
            if a2 == a:
                continue
            Da2 = float(d_alpha(n, a2))
            if (a2 > a and not Da2 < D) or (a2 < a and not Da2 > D):
                bad.append(("D-not-decreasing-in-alpha", f"n={n}: d_alpha(.,{a2}) = {Da2} vs d_alpha(.,{a}) = {D}"))
        if n >= 2:
            ex = smirnov_exact(n, a)
            if abs(D - ex) > 0.1 / n ** 2 + 1e-9:
                bad.append(("D-not-smirnov", f"d_alpha({n},{a}) = {D} but the exact Smirnov critical value is {ex}"))
    for sym, what in bad:
        ctx.fail(feat(c, "d_alpha", sym, n=n), cj(c), what)
    return not bad


def oracle_band(ctx, c, rng, D, band, lo_s, hi_s):
    """band = (uq, up, lq, lp) floats from the real code; lo_s / hi_s the samples behind upper / lower bound"""
    uq, up, lq, lp = band
    n = len(lo_s)
    call = "KS_bounds(bounds)"
    bad = []
    ssl, ssh = sorted(lo_s), sorted(hi_s)
    tol = tol_n(n)
    if not (len(uq) == len(up) == len(lq) == len(lp) == n + 1):
        bad.append(("grid-shape", f"lengths {len(uq)},{len(up)},{len(lq)},{len(lp)} for n={n}"))
    else:
        if uq != [ssl[0]] + ssl or lq != [ssh[0]] + ssh:
            bad.append(("grid-quantiles", "quantile grid is not [min] + sorted(sample)"))
        if c["kind"] == "precise" and uq != lq:
            bad.append(("grid-not-common", "upper and lower bundle have different quantile grids"))
        for nm, p in (("upper", up), ("lower", lp)):
            if any(not math.isfinite(x) for x in p):
                bad.append(("not-finite", f"{nm} has non-finite probabilities"))
                continue
            if any(b < a for a, b in zip(p, p[1:])):
                bad.append(("not-monotone", f"{nm} probabilities decrease"))
            if min(p) < 0 or max(p) > 1:
                bad.append(("outside-unit", f"{nm} probabilities leave [0,1]: min {min(p)} max {max(p)}"))
        if not bad:
            Df = F(D)
            for k in range(n + 1):
                e = F(k, n)
                if not absclose(up[k], clipF(e + Df), tol):
                    bad.append(("shift-upper", f"upper[{k}] = {up[k]} but clip({k}/{n} + D) = {float(clipF(e + Df))}"))
                    break
                if not absclose(lp[k], clipF(e - Df), tol):
                    bad.append(("shift-lower", f"lower[{k}] = {lp[k]} but clip({k}/{n} - D) = {float(clipF(e - Df))}"))
                    break
        if not bad:
            # as functions: U(t) >= F_lo(t) , L(t) <= F_hi(t), with equality to the clipped shift right of the first grid point
            Df = F(D)
            for t in test_points(rng, lo_s, hi_s):
                Fl, Fh = ecdf_at(ssl, t), ecdf_at(ssh, t)
                U, L = step_eval(uq, up, t), step_eval(lq, lp, t)
                if t >= ssl[0] and not absclose(U, clipF(Fl + Df), tol):
                    bad.append(("function-upper", f"at t={t}: upper bound {U}, ecdf {float(Fl)}, D {D}"))
                    break
                if t >= ssh[0] and not absclose(L, clipF(Fh - Df), tol):
                    bad.append(("function-lower", f"at t={t}: lower bound {L}, ecdf {float(Fh)}, D {D}"))
                    break
                if F(U) < Fl - F(tol) and t >= ssl[0] or F(L) > Fh + F(tol):
                    bad.append(("band-misses-ecdf", f"at t={t}: upper {U} / ecdf {float(Fl)},{float(Fh)} / lower {L}"))
                    break
    for sym, what in bad:
        ctx.fail(feat(c, call, sym, n=n), cj(c), what)
    return not bad


def oracle_pbox(ctx, c, D, pb, lo_s, hi_s, pv, members):
    """pb = (left, right) of the real p-box; members = samples whose empirical quantiles must lie inside"""
    left, right = pb
    n = len(lo_s)
    call = "KS_bounds(pbox)"
    bad = []
    ssl, ssh = sorted(lo_s), sorted(hi_s)
    if len(left) != len(pv) or len(right) != len(pv):
        bad.append(("pbox-shape", f"{len(left)} / {len(right)} steps for {len(pv)} levels"))
    else:
        if any(b < a for a, b in zip(left, left[1:])) or any(b < a for a, b in zip(right, right[1:])):
            bad.append(("pbox-not-monotone", "left or right bound decreases"))
        if any(l > r for l, r in zip(left, right)):
            bad.append(("pbox-inverted", "left bound above right bound"))
        Df = F(D)
        pvf = [F(x) for x in pv]
        ks = [max(1, math.ceil(n * x)) for x in pvf]
        for nm, m in members:
            sm = sorted(m)
            for j, k in enumerate(ks):
                qe = sm[k - 1]
                if not (left[j] <= qe <= right[j]):
                    bad.append(("pbox-misses-ecdf", f"level {pv[j]}: empirical quantile {qe} of selection '{nm}' outside [{left[j]}, {right[j]}]"))
                    break
        if not bad and D > 0:
            eps = F(1, 10 ** 9)
            for j, x in enumerate(pvf):
                yl, yr = n * (x - Df), n * (x + Df)
                if abs(yl - round(yl)) > eps:
                    e = ssl[max(1, math.ceil(yl)) - 1]
                    if left[j] != e:
                        bad.append(("pbox-left-value", f"level {pv[j]}: left {left[j]} but the order statistic of the upper band is {e}"))
                        break
                if abs(yr - round(yr)) > eps:
                    e = ssh[min(n, math.ceil(yr)) - 1]
                    if right[j] != e:
                        bad.append(("pbox-right-value", f"level {pv[j]}: right {right[j]} but the order statistic of the lower band is {e}"))
                        break
    for sym, what in bad:
        ctx.fail(feat(c, call, sym, n=n), cj(c), what)
    return not bad


# ---------------------------------------------------------------------------- main
def requests_for(c, impl, pv):
    """model requests of one case -> list of (tag, line)"""
    if c["kind"] == "bundles":
        (qa, pa), (qb, pb) = c["a"], c["b"]
        return [("frombundles", f"frombundles {ql(qa)} {ql(pa)} {ql(qb)} {ql(pb)} {ql(pv)}")]
    if c["kind"] == "donly":
        r1, r2 = transc(c["n"], c["alpha"])
        return [("dalpha", f"dalpha {c['n']} {q(c['alpha'])} {q(r1)} {q(r2)}")]
    a = float(c["alpha"])
    if not math.isfinite(a):
        return []
    n = impl["n"]
    r1, r2 = transc(n, a) if n > 0 else (0.0, 0.0)
    reqs = [("dalpha", f"dalpha {n} {q(a)} {q(r1)} {q(r2)}")]
    Dr = impl["D"]
    if Dr[0] == "ok" and math.isfinite(Dr[1]):
        D = Dr[1]
        if c["kind"] == "precise":
            reqs.append(("band", f"band {ql(c['s'])} {q(D)}"))
            reqs.append(("pbox", f"kspbox {ql(c['s'])} {q(D)} {ql(pv)}"))
        else:
            reqs.append(("band", f"iband {ql(c['lo'])} {ql(c['hi'])} {q(D)}"))
            reqs.append(("pbox", f"ikspbox {ql(c['lo'])} {ql(c['hi'])} {q(D)} {ql(pv)}"))
        if impl["band"][0] == "ok":
            uq, up, lq, lp = impl["band"][1:]
            if len(uq) == len(up) and len(lq) == len(lp):
                reqs.append(("frombundles", f"frombundles {ql(uq)} {ql(up)} {ql(lq)} {ql(lp)} {ql(pv)}"))
    return reqs


def run_bundles_impl(c):
    from pyuncertainnumber.pba.ecdf import eCDF_bundle
    from pyuncertainnumber.pba.pbox_abc import Staircase
    (qa, pa), (qb, pb) = c["a"], c["b"]
    try:
        p = Staircase.from_CDFbundle(eCDF_bundle(np.array(qa, dtype=float), np.array(pa, dtype=float)),
                                     eCDF_bundle(np.array(qb, dtype=float), np.array(pb, dtype=float)))
        return ("ok", _fl(p.left), _fl(p.right))
    except BaseException as e:  # noqa
        return ("err", err_kind(e))


def same_lists_exact(impl, model):
    if impl[0] != model[0]:
        return False
    if impl[0] == "err":
        return impl[1] == model[1]
    if len(impl) != len(model):
        return False
    for a, b in zip(impl[1:], model[1:]):
        if len(a) != len(b):
            return False
        for x, y in zip(a, b):
            if not math.isfinite(x) or F(x) != y:
                return False
    return True


# ---------------------------------------------------------------------------- theme A: state / aliasing
def verify_ring(ctx, ring, when):
    """re-read the REAL result objects of earlier cases, their operands, and repeat the call"""
    for c, objs, canon in ring:
        u, l, p, data, snap = objs
        bad = []
        if u is not None and _canon_band(u, l) != canon["band"]:
            bad.append(("result-modified-later", "the bundles returned earlier changed after later calls"))
        if p is not None and ("ok", _fl(p.left), _fl(p.right)) != canon["pbox"]:
            bad.append(("result-modified-later", "the p-box returned earlier changed after later calls"))
        if _snap(data) != snap:
            bad.append(("input-modified", "the sample handed to KS_bounds was modified"))
        again = run_impl(c)
        for part in ("D", "band", "pbox"):
            if json.dumps(again[part]) != json.dumps(canon[part]):      # nan-safe, exact on floats
                bad.append(("repeat-call-differs", f"calling again ({when}) gives a different {part}"))
                break
        st_before = (np.geterr(), list(warnings.filters), _mods()[3].steps)
        r3 = run_impl(c, strict=True)
        for part in ("D", "band", "pbox"):
            if r3[part][0] == "ok" and json.dumps(r3[part]) != json.dumps(canon[part]):
                bad.append(("strict-fp-mode-differs", f"under np.errstate(all='raise') + warnings as errors the {part} is DIFFERENT (raising would be fine)"))
                break
        if (np.geterr(), list(warnings.filters), _mods()[3].steps) != st_before or not r3.get("input_unchanged", True):
            bad.append(("ambient-state-changed", "numpy error state / warning filters / Params / operand changed by the call"))
        ctx.bump("strict-fp:" + ("same" if r3["band"][0] == "ok" else "raised"))
        for how, mk in (("copy.copy", copy.copy), ("copy.deepcopy", copy.deepcopy), ("pickle", lambda o: pickle.loads(pickle.dumps(o)))):
            try:
                dup = mk(data)
            except BaseException as e:  # noqa
                bad.append(("operand-copy-raises", f"{how} of the operand raised {type(e).__name__}"))
                continue
            r2 = run_impl(c, data=dup)
            for part in ("D", "band", "pbox"):
                if json.dumps(r2[part]) != json.dumps(canon[part]):
                    bad.append(("copied-operand-differs", f"the {how} of the operand gives a different {part}"))
                    break
        for sym, what in bad:
            ctx.fail(feat(c, "KS_bounds", sym, n=canon["n"]), cj(c), what)
        ctx.bump("ring-verified")


ALIAS_WITNESS = {"stream": "aliasing", "kind": "precise", "s": [3.0, 1.0, 2.0, 2.0, 5.0], "alpha": 0.05, "cont": "array"}


def aliasing_stream(ctx):
    """the documented two-step route: bounds first, then `pbox_from_ecdf_bundle(ub, lb)`.  The p-box must equal the
    one-step result and the bounds the caller holds must still be the band."""
    from pyuncertainnumber.pba.pbox_abc import pbox_from_ecdf_bundle
    KS_bounds = _mods()[0]
    rng = ctx.rng
    cs = [dict(ALIAS_WITNESS)]
    for _ in range(ctx.scale(5, 60)):
        n = rng.randint(2, 30)
        v = _scale_vals(rng, n, rng.choice(["ints", "normal", "tiny12", "offset"]))
        if rng.random() < 0.5:
            cs.append({"stream": "aliasing", "kind": "precise", "s": v, "alpha": rng.choice(SUPPORTED), "cont": "array"})
        else:
            cs.append({"stream": "aliasing", "kind": "interval", "lo": v, "hi": [x + abs(x) * 0.5 + 1e-12 for x in v],
                       "alpha": rng.choice(SUPPORTED)})
    for c in cs:
        ctx.count(("alias", json.dumps(cj(c), default=str)), True, "aliasing")
        n = len(c["lo"]) if c["kind"] == "interval" else len(c["s"])
        with np.errstate(all="ignore"):
            try:
                u, l = KS_bounds(build(c), c["alpha"], display=False)
                before = _canon_band(u, l)
                P2 = pbox_from_ecdf_bundle(u, l)
                after = _canon_band(u, l)
                P1 = KS_bounds(build(c), c["alpha"], display=False, output_type="pbox")
            except BaseException as e:  # noqa
                ctx.fail(feat(c, "pbox_from_ecdf_bundle", "two-step-raises", n=n), cj(c), f"bounds -> pbox_from_ecdf_bundle raised {type(e).__name__}: {e}")
                continue
        if _fl(P1.left) != _fl(P2.left) or _fl(P1.right) != _fl(P2.right):
            ctx.fail(feat(c, "pbox_from_ecdf_bundle", "two-step-pbox-differs", n=n), cj(c),
                     "pbox_from_ecdf_bundle(ub, lb) differs from KS_bounds(..., output_type='pbox')")
        if after != before:
            ctx.fail(feat(c, "pbox_from_ecdf_bundle", "bounds-modified-in-place", n=n),
                     {**cj(c), "lower_before": before[3:], "lower_after": after[3:]},
                     f"after pbox_from_ecdf_bundle(ub, lb) the caller's bounds changed: lengths {[len(x) for x in before[1:]]} -> "
                     f"{[len(x) for x in after[1:]]} (extend_ecdf works in place): the lower bound now claims F(x_max) >= 1 and the two bounds are no longer on a common grid")


def run(ctx: core.Check, cases=None):
    ctx.rule = ("streams: every sample over {0,1,2} of size 2-4 x the 3 levels (all tie patterns); every n in 1..500 x 3 levels "
                "for d_alpha; random precise samples n in 2..500 (integers with ties, constant, dyadic, 1e-9..1e9 scales, lognormal; "
                "list / ndarray / int ndarray / column vector); random interval samples (zero, constant, small, mixed, wide widths) "
                "each with lo/hi/mid + 3 random selections (uniform, endpoint mix, piled ties); 21 fixed + random unsupported levels "
                "(neighbours of the table keys, confidence-level confusions, 0, 1, negative, nan, inf); empty sample; synthetic bundles "
                "with about a third of the calls made as KS_bounds(s, alpha[, output_type='pbox']) with display LEFT AT ITS DEFAULT (Agg backend); "
                "the same calls under np.errstate(all='raise') + warnings-as-errors (same value or raise, ambient state unchanged); Params.steps / p_values "
                "changed to 25, 100, 300 with sizes around the changed step count and restored; the default display also for n >= 200; "
                "returned arrays must not share memory with the caller's float64 buffers, which are overwritten in place afterwards; longdouble arrays, "
                "Python ints beyond 2**53; sizes n with n+2, n+1, n around the p-box step count (196..202, 398..400, 1) for precise and interval data with output_type 'bounds', 'pbox' and 'un', "
                "the p-box judged against the closed-form order statistics of the ecdf -+ D band at its own levels; power-of-two and 1e-170 / 1e150 scalings; "
                "operands copied / deep-copied / pickled before use; every numpy dtype as container (uint8..uint64, int8/16/32 with values at both ends of the range, float32, float16, bool; unsorted, sorted, reversed; "
                "also as Interval endpoints); alpha as float32/float16/longdouble/0-d,1-d array/str/Fraction/Decimal (must raise or equal the float's answer); "
                "thin-but-wide interval data (units 1e-9..1e-15, locations 2e6..1e9 with gaps 3e-6 relative); integer lists / int32 / int64 samples; "
                "every third result object kept alive and re-read + call repeated after later calls; the two-step route bounds -> pbox_from_ecdf_bundle; "
                "through Staircase.from_CDFbundle (crossing pairs must raise, as the Pbox constructor does since 1ca78ea). Non-trivial: sample not constant (or interval/unsupported/bundle case); "
                "distinctness on the full case description.")
    ctx.assumptions = [
        "binary64 rounding is not modelled: band probabilities agree within (n+8)*2ulp(1) absolutely, d_alpha within 16 ulp(1); "
        "quantiles and p-box bounds (selections of input values) must be EQUAL",
        "sqrt(log(1/alpha)/(2n)) and n**(-3/2) are supplied to the model by the harness (numpy values); the theorems about D treat "
        "c_alpha = sqrt(log(1/alpha)/2) as a parameter bracketed numerically by the translator (+-1e-4)",
        "the full-pipeline p-box comparison tolerates an index flip only where a band probability is within tolerance of a level of Params.p_values; "
        "the same p-box is also compared exactly against the model run on the implementation's own bundles",
        "interp1d sorts its abscissae; the model assumes non-decreasing probabilities (proved for the band: band_monotone)",
        "NaN sample values, weighted ecdf, plotting (display=True) and output_type='un' are not modelled",
    ]
    core.stub_moments()
    gen_out = core.LEAN / "Pun/Gen/KSGen.lean"
    ctx.lean_stage(["Pun.Props.C17", "Pun.Props.C17Gen"],
                   generators=[("pbox_free.py d_alpha constants", lambda: _gen(gen_out))])
    if cases is None:
        cases = gen_cases(ctx)
    pv = pvalues()
    rng = ctx.rng
    impls, reqs, spans = [], [], []
    ring = collections.deque(maxlen=30)
    nfull = 0
    for c in cases:
        if c["kind"] == "bundles":
            impl = run_bundles_impl(c)
        elif c["kind"] == "donly":
            impl = None
        else:
            impl = run_impl(c, keep=True)
            objs = impl.pop("_objs")
            nfull += 1
            if impl["band"][0] == "ok" and (nfull % 3 == 0 or c.get("display")):
                ring.append((c, objs, dict(impl)))
            del objs
            if nfull % 250 == 0:
                verify_ring(ctx, list(ring), "after unrelated calls")
        impls.append(impl)
        rs = requests_for(c, impl, pv_of(c, pv))
        spans.append((len(reqs), len(rs), [t for t, _ in rs]))
        reqs += [l for _, l in rs]
    gc.collect()
    verify_ring(ctx, list(ring), "at the end of the run")
    ring.clear()
    if ctx_full_run(cases):
        aliasing_stream(ctx)
        alpha_forms_stream(ctx)
        caller_buffers_stream(ctx)
    replies = core.model_batch("C17", reqs)
    d_alpha = _mods()[1]
    for c, impl, (st, k, tags) in zip(cases, impls, spans):
        rep = dict(zip(tags, replies[st:st + k]))
        stream = c["stream"]
        pvc = pv_of(c, pv)
        kind = c["kind"]
        # ------------------------------------------------------------- synthetic bundles: tie only (+ monotone result)
        if kind == "bundles":
            ctx.count(("b", c["a"], c["b"]), True, stream)
            model = parse_lists(rep["frombundles"], 2)
            ctx.bump("bundles:" + ("raises:" + impl[1] if impl[0] == "err" else "pbox"))   # crossing bounds raise (1ca78ea)
            if same_lists_exact(impl, model):
                ctx.tie_ok()
            else:
                ctx.tie_bad(stream, cj(c), _js(impl), rep["frombundles"][:300])
            continue
        # ------------------------------------------------------------- d_alpha over the whole range of n
        if kind == "donly":
            n, a = c["n"], c["alpha"]
            ctx.count(("d", n, a), True, stream)
            try:
                Dv = ("ok", float(d_alpha(n, a)))
            except BaseException as e:  # noqa
                Dv = ("err", err_kind(e))
            m = parse_D(rep["dalpha"])
            if Dv[0] == m[0] and (Dv[1] == m[1] if Dv[0] == "err" else absclose(Dv[1], m[1], 16 * ULP1)):
                ctx.tie_ok()
            else:
                ctx.tie_bad(stream, cj(c), list(Dv), rep["dalpha"])
            if Dv[0] == "ok":
                oracle_D(ctx, c, n, a, Dv[1])
            else:
                ctx.fail(feat(c, "d_alpha", "supported-level-raises", n=n), cj(c), f"d_alpha({n},{a}) raised {Dv[1]}")
            continue
        # ------------------------------------------------------------- full cases
        n = impl["n"]
        a = c["alpha"]
        sup = a in SUPPORTED
        data_key = (tuple(c["s"]),) if kind == "precise" else (tuple(c["lo"]), tuple(c["hi"]))
        nontriv = (kind == "interval") or (not sup) or len(set(c["s"])) > 1
        ctx.count((kind, repr(a), data_key), nontriv, stream)
        ctx.bump("impl:" + ("raises:" + impl["band"][1] if impl["band"][0] == "err" else "band"))
        # ---- tie
        if rep:
            mD = parse_D(rep["dalpha"])
            iD = impl["D"]
            okD = iD[0] == mD[0] and (iD[1] == mD[1] if iD[0] == "err" else absclose(iD[1], mD[1], 16 * ULP1))
            if okD:
                ctx.tie_ok()
            else:
                ctx.tie_bad(stream + ":dalpha", cj(c), list(iD), rep["dalpha"])
            if mD[0] == "err":
                # the model rejects: the public entry points must reject with the same kind
                for part in ("band", "pbox"):
                    if impl[part][0] == "err" and impl[part][1] == mD[1]:
                        ctx.tie_ok()
                    else:
                        ctx.tie_bad(stream + ":" + part, cj(c), _js(impl[part]), rep["dalpha"])
            if "band" in rep:
                mb = parse_lists(rep["band"], 4)
                ib = impl["band"]
                good = ib[0] == "ok" and mb[0] == "ok" and all(len(x) == len(y) for x, y in zip(ib[1:], mb[1:])) \
                    and all(F(x) == y for x, y in zip(ib[1], mb[1])) and all(F(x) == y for x, y in zip(ib[3], mb[3])) \
                    and all(absclose(x, y, tol_n(n)) for x, y in zip(ib[2], mb[2])) \
                    and all(absclose(x, y, tol_n(n)) for x, y in zip(ib[4], mb[4]))
                if good:
                    ctx.tie_ok()
                else:
                    ctx.tie_bad(stream + ":band", cj(c), _js(ib), rep["band"][:300])
            if "frombundles" in rep:
                mf = parse_lists(rep["frombundles"], 2)
                if same_lists_exact(impl["pbox"], mf):
                    ctx.tie_ok()
                else:
                    ctx.tie_bad(stream + ":frombundles", cj(c), _js(impl["pbox"]), rep["frombundles"][:300])
            if "pbox" in rep:
                mp = parse_lists(rep["pbox"], 2)
                ip = impl["pbox"]
                good = ip[0] == mp[0]
                if good and ip[0] == "err":
                    good = ip[1] == mp[1]
                elif good:
                    probs = sorted(impl["band"][2] + impl["band"][4]) if impl["band"][0] == "ok" else []
                    for side in (1, 2):
                        if len(ip[side]) != len(mp[side]):
                            good = False
                            break
                        for j, (x, y) in enumerate(zip(ip[side], mp[side])):
                            if F(x) != y:
                                i = bisect.bisect_left(probs, pvc[j])
                                near = any(0 <= k < len(probs) and abs(probs[k] - pvc[j]) <= 2 * tol_n(n) for k in (i - 1, i))
                                if not near:
                                    good = False
                                    break
                                ctx.bump("pbox-near-tie-skipped")
                if good:
                    ctx.tie_ok()
                else:
                    ctx.tie_bad(stream + ":pbox", cj(c), _js(ip), rep["pbox"][:300])
        # ---- oracle (independent of the model)
        if n == 0:
            continue
        if not impl.get("input_unchanged", True):
            ctx.fail(feat(c, "KS_bounds", "input-modified", n=n), cj(c), "KS_bounds modified the sample it was given")
        if not impl.get("band_stable", True):
            ctx.fail(feat(c, "KS_bounds", "result-modified-later", n=n), cj(c),
                     "the bounds returned by KS_bounds(..., 'bounds') changed during the following KS_bounds(..., 'pbox') call")
        if c.get("display"):
            ctx.bump("display-default")
        if not sup:
            for part, call in (("D", "d_alpha"), ("band", "KS_bounds(bounds)"), ("pbox", "KS_bounds(pbox)")):
                if impl[part][0] != "err":
                    ctx.fail(feat(c, call, "unsupported-alpha-answered", n=n), {**cj(c), "impl": _js(impl[part])[:3]},
                             f"{call} with alpha={a!r} (no critical value tabulated) answered instead of raising"
                             + (f": D = {impl['D'][1]}" if impl["D"][0] == "ok" else ""))
            continue
        if impl["D"][0] != "ok" or impl["band"][0] != "ok" or impl["pbox"][0] != "ok":
            ctx.fail(feat(c, "KS_bounds", "supported-level-raises", n=n), {**cj(c), "impl": {k: _js(impl[k])[:2] for k in ("D", "band", "pbox")}},
                     f"supported level alpha={a} raised: D={impl['D'][:2]} band={impl['band'][:2]} pbox={impl['pbox'][:2]}")
            continue
        D = impl["D"][1]
        okD = oracle_D(ctx, c, n, float(a), D)
        lo_s, hi_s = (c["s"], c["s"]) if kind == "precise" else (c["lo"], c["hi"])
        okB = oracle_band(ctx, c, rng, D, impl["band"][1:], lo_s, hi_s)
        members = [("sample", c["s"])] if kind == "precise" else [("lo", c["lo"]), ("hi", c["hi"])]
        sels = []
        if kind == "interval" and c.get("nsel", 0) and okB:
            sels = selections(rng, c["lo"], c["hi"], c["nsel"])
            members += sels[2:]
        okP = oracle_pbox(ctx, c, D, impl["pbox"][1:], lo_s, hi_s, pvc, members) if okD else True
        if "un" in impl:
            ctx.bump("output_type-un")
            if impl["un"][0] != "ok":
                ctx.fail(feat(c, "KS_bounds(un)", "supported-level-raises", n=n), cj(c), f"output_type='un' raised {impl['un'][1]}")
            else:
                if okD:
                    oracle_pbox(ctx, {**c}, D, impl["un"][1:], lo_s, hi_s, pvc, members[:2])
                if impl["un"] != impl["pbox"]:
                    ctx.fail(feat(c, "KS_bounds(un)", "un-differs-from-pbox", n=n), cj(c),
                             "the p-box inside the UncertainNumber differs from output_type='pbox'")
        # the band / p-box of interval data contains the band / p-box of every selection (both from the real code)
        if sels and okP:
            uq, up, lq, lp = impl["band"][1:]
            L, R = impl["pbox"][1:]
            for nm, x in sels:
                cx = {"kind": "precise", "s": x, "alpha": a, "cont": "array", "stream": stream, "display": False, "grid": c.get("grid")}
                ix = run_impl(cx)
                ctx.bump("selection:" + nm)
                if ix["band"][0] != "ok" or ix["pbox"][0] != "ok":
                    ctx.fail(feat(c, "KS_bounds", "selection-raises", n=n), {**cj(c), "selection": x}, f"selection {nm} raised")
                    break
                xq, xu, _, xl = ix["band"][1:]
                tol = tol_n(n)
                worst = None
                for t in test_points(rng, c["lo"], c["hi"], x):
                    if step_eval(uq, up, t) < step_eval(xq, xu, t) - tol or step_eval(lq, lp, t) > step_eval(xq, xl, t) + tol:
                        worst = t
                        break
                if worst is not None:
                    ctx.fail(feat(c, "KS_bounds(bounds)", "interval-band-misses-selection", n=n, selection=nm),
                             {**cj(c), "selection": x, "t": worst},
                             f"at t={worst} the band of the interval data does not contain the band of selection '{nm}'")
                    break
                XL, XR = ix["pbox"][1:]
                if any(l > xl_ for l, xl_ in zip(L, XL)) or any(r < xr_ for r, xr_ in zip(R, XR)):
                    ctx.fail(feat(c, "KS_bounds(pbox)", "interval-pbox-misses-selection", n=n, selection=nm),
                             {**cj(c), "selection": x}, f"the p-box of the interval data does not contain the p-box of selection '{nm}'")
                    break
        if len(ctx.samples) < 6 and stream in ("random-precise", "random-interval", "thin-interval", "dtypes") and n <= 6:
            ctx.sample({"case": cj(c), "D": D, "impl_band": _js(impl["band"]), "model_band": rep.get("band", "")[:400]})


def alpha_forms_stream(ctx):
    """alpha given as float32 / float16 / longdouble / numpy float64 / 0-d and 1-d arrays / string / Fraction / Decimal:
    the call must either raise, or (only when float(alpha) IS a tabulated double) return what the plain float returns"""
    from decimal import Decimal
    KS_bounds, d_alpha = _mods()[0], _mods()[1]
    rng = ctx.rng
    samples = [np.array([3.0, 1.0, 2.0, 2.0, 5.0]), np.array(_scale_vals(rng, rng.randint(2, 40), "normal")),
               _mods()[2](lo=np.array([0.0, 1.0, 4.0]), hi=np.array([0.5, 3.0, 4.0]))]
    for a in SUPPORTED + [0.2]:
        forms = [("float32", np.float32(a)), ("float16", np.float16(a)), ("longdouble", np.longdouble(a)),
                 ("float64", np.float64(a)), ("array0d", np.array(a)), ("array1d", np.array([a])), ("str", repr(a)),
                 ("fraction", F(repr(a))), ("decimal", Decimal(repr(a))), ("list", [a]), ("bytes", repr(a).encode())]
        for data in samples:
            n = len(data)
            ref = None
            if a in SUPPORTED:
                u, l = KS_bounds(data, a, display=False)
                ref = _canon_band(u, l)
            for nm, obj in forms:
                c = {"stream": "alpha-forms", "kind": "interval" if n == 3 and not isinstance(data, np.ndarray) else "precise",
                     "alpha": a, "alpha_form": nm}
                ctx.count(("aform", a, nm, n), True, "alpha-forms")
                with np.errstate(all="ignore"):
                    try:
                        u, l = KS_bounds(data, obj, display=False)
                        got = _canon_band(u, l)
                    except BaseException as e:  # noqa
                        ctx.bump("alpha-form-rejected")
                        continue
                try:
                    same_level = float(obj) in SUPPORTED and float(obj) == a
                except Exception:
                    same_level = False
                ok = same_level and ref is not None and all(
                    len(x) == len(y) and all(abs(p - r) <= 1e-12 for p, r in zip(x, y)) for x, y in zip(got[1:], ref[1:]))
                ctx.bump("alpha-form-answered")
                if not ok:
                    ctx.fail({"call": "KS_bounds", "kind": c["kind"], "alpha_supported": bool(same_level),
                              "symptom": "alpha-form-answered-differently" if same_level else "unsupported-alpha-answered",
                              "stream": "alpha-forms", "alpha_form": nm, "n": n},
                             {**c, "alpha_repr": repr(obj), "data": _fl(data.lo if c["kind"] == "interval" else data)[:40]},
                             f"alpha={obj!r} ({nm}) was answered but " + ("differs from the answer for the float" if same_level else
                                                                            "is not one of the tabulated doubles"))


def caller_buffers_stream(ctx):
    """(Q) float64 operands of exactly steps / steps-2 / other sizes: no returned array may share memory with the caller's
    buffers; after the call the caller overwrites its buffers in place and the earlier results must not move"""
    KS_bounds, _, I, P = _mods()
    rng = ctx.rng
    steps = int(P.steps)
    for n in (steps, steps - 2, steps + 1, 5, 2):
        for kind in ("precise", "interval"):
            a = rng.choice(SUPPORTED)
            base = np.array(_scale_vals(rng, n, rng.choice(["normal", "ints"])), dtype=np.float64)
            if kind == "precise":
                bufs = [base]
                data = base
            else:
                bufs = [base, base + np.abs(np.array(_scale_vals(rng, n, "normal")))]
                data = I(lo=bufs[0], hi=bufs[1])
                bufs += [data.lo, data.hi]
            c = {"stream": "caller-buffers", "kind": kind, "alpha": a, "n": n}
            ctx.count(("cb", n, kind), True, "caller-buffers")
            with np.errstate(all="ignore"):
                try:
                    u, l = KS_bounds(data, a, display=False)
                    p = KS_bounds(data, a, display=False, output_type="pbox")
                except BaseException as e:  # noqa
                    ctx.fail({"call": "KS_bounds", "kind": kind, "alpha_supported": True, "symptom": "supported-level-raises",
                              "stream": "caller-buffers", "n": n}, c, f"raised {type(e).__name__}: {e}")
                    continue
            outs = [u.quantiles, u.probabilities, l.quantiles, l.probabilities, p.left, p.right]
            shared = [i for i, o in enumerate(outs) for b in bufs if isinstance(o, np.ndarray) and np.shares_memory(o, b)]
            before = (_canon_band(u, l), _fl(p.left), _fl(p.right))
            for b in bufs:
                if b.flags.writeable:
                    b += 5.0
                    b[:] = b[::-1].copy()
            after = (_canon_band(u, l), _fl(p.left), _fl(p.right))
            if shared or before != after:
                ctx.fail({"call": "KS_bounds", "kind": kind, "alpha_supported": True, "symptom": "result-aliases-input",
                          "stream": "caller-buffers", "n": n}, {**c, "shared_outputs": shared},
                         "a returned array shares memory with the caller's sample" if shared else
                         "overwriting the caller's sample in place changed the bounds returned earlier")


def ctx_full_run(cases):
    """the aliasing stream belongs to generated runs, not to the replay of one case"""
    return len(cases) > 1


def _gen(out):
    res = tr.generate(core.REPO, out)
    return f"ok: table {res['table']} c1 {res['c1']} default {res['dflt']}"


def _js(t):
    if t is None:
        return None
    out = []
    for x in t:
        if isinstance(x, list):
            out.append([float(y) for y in x] if len(x) <= 24 else [float(y) for y in x[:8]] + ["…", len(x)])
        else:
            out.append(x)
    return out


def replay(obj):
    c = obj.get("case", {})
    if "kind" not in c:
        print(json.dumps(obj, indent=1))
        return 0
    c = dict(c)
    for k in ("s", "lo", "hi"):
        if k + "_hex" in c:
            c[k] = [float.fromhex(h) for h in c[k + "_hex"]]
    if isinstance(c.get("alpha"), str):
        c["alpha"] = float(c["alpha"])
    core.stub_moments()
    ctx = core.Check("C17", "quick", 0)
    ctx.known = []          # show everything
    # run without the proof stage
    ctx.lean_stage = lambda *a, **k: None
    run(ctx, [c])
    print("case       :", json.dumps(cj(c))[:600])
    print("tie        :", "clean" if not ctx.tie_disagreements else json.dumps(ctx.tie_disagreements, default=str)[:1500])
    for f in ctx.failures:
        print("ORACLE FAIL:", f["what"])
    if not ctx.failures:
        print("oracle     : property holds on this case")
    return 0
