"""C10 — distribution-free p-boxes enclose every distribution meeting the constraints.

proof  : Pun.Props.C10 — enclosure of every finite law by min_max, min_mean, max_mean, mean_std/mean_var, min_max_mean,
         min_max_median, min_max_mean_std/var (all three components of the recurrence: Cantelli, Markov at the range
         end, second-moment bound; totality of the repaired constructor), min_max_mode for every unimodal law
         (distribution function convex below / concave above the mode); sharpness by the Markov / Cantelli two-point
         laws and the two uniforms; the dispatcher table.  Pun.Props.C10Gen — the closed-form formulas regenerated
         from pbox_free.py on every run (translator/free.py) are equal to the hand model's.
tie    : the real constructors and `known_properties` vs the compiled model on the same inputs
         (square roots the code takes are computed here with the same numpy/Python calls and sent on the wire)
oracle : exact-Fraction finite discrete laws (mixtures of uniforms for the mode shape) meeting the
         constraints, incl. the extremal two- and three-point laws; every quantile at a level strictly
         inside a step must lie between left[k] and right[k] (unbounded outermost steps exempt);
         non-vacuity: an extremal law comes within one probability step of every bound.
"""
from __future__ import annotations
import io, math, contextlib, itertools, json
from fractions import Fraction as F
import numpy as np
from . import core
from .core import q, ql, unq, unql, err_kind
from .translator import free as trf

N = 200
KEYS = ["maximum", "mean", "median", "minimum", "mode", "std", "var"]
FUNS = ["min_max", "min_mean", "max_mean", "mean_std", "mean_var", "min_max_mean", "min_max_median",
        "min_max_mode", "min_max_mean_std", "min_max_mean_var"]
# constraint set -> constructor (what the property says the dispatcher must build)
ROUTE = {("maximum", "minimum"): "min_max", ("mean", "minimum"): "min_mean", ("maximum", "mean"): "max_mean",
         ("mean", "std"): "mean_std", ("mean", "var"): "mean_var", ("maximum", "mean", "minimum"): "min_max_mean",
         ("maximum", "minimum", "mode"): "min_max_mode", ("maximum", "median", "minimum"): "min_max_median",
         ("maximum", "mean", "minimum", "std"): "min_max_mean_std",
         ("maximum", "mean", "minimum", "var"): "min_max_mean_var"}
ARGN = {"min_max": ("minimum", "maximum"), "min_mean": ("minimum", "mean"), "max_mean": ("maximum", "mean"),
        "mean_std": ("mean", "std"), "mean_var": ("mean", "var"), "min_max_mean": ("minimum", "maximum", "mean"),
        "min_max_median": ("minimum", "maximum", "median"), "min_max_mode": ("minimum", "maximum", "mode"),
        "min_max_mean_std": ("minimum", "maximum", "mean", "std"),
        "min_max_mean_var": ("minimum", "maximum", "mean", "var")}


def _pf():
    from pyuncertainnumber.pba import pbox_free
    return pbox_free


# ---------------------------------------------------------------------------------------------
# square roots exactly as the code takes them
_CONST = {}


def const_tables():
    if not _CONST:
        steps = N
        iii = [1 / steps] + [i / steps for i in range(1, steps - 1)]
        jjj = [j / steps for j in range(1, steps - 1)] + [1 - 1 / steps]
        _CONST["tL"] = [float(np.sqrt(1 / i - 1)) for i in iii]
        _CONST["tR"] = [float(np.sqrt(j / (1 - j))) for j in jjj]
        t1, t2 = [0.0] * (N + 1), [0.0] * (N + 1)
        for k in range(1, N):
            p = k / N
            t1[k] = (1.0 / p - 1.0) ** 0.5
            t2[k] = (1.0 / (1.0 / p - 1.0)) ** 0.5
        _CONST["t1"], _CONST["t2"] = t1, t2
        for k in ("tL", "tR", "t1", "t2"):
            _CONST[k + "_w"] = ql(_CONST[k])
        _CONST["zero201"] = ql([0] * (N + 1))
    return _CONST


_FACTS = {}


def src_facts():
    """which formula the source uses for the maximal std and the rounding allowance it grants (translator/free.py)"""
    if not _FACTS:
        try:
            _FACTS.update(trf.facts(core.REPO))
        except Exception as e:      # restructured source: fall back to the pinned form; the tie will tell
            _FACTS.update({"smax_form": "centred", "slack": F(0), "unavailable": str(e)})
    return _FACTS


def roots_for(a, b, mu, sd):
    """smax and the x5**0.5 table, float arithmetic in the order of the source; None when not computable"""
    try:
        fx = src_facts()
        ran = b - a
        if fx["smax_form"] == "product":
            smax = (abs((mu - a) * (b - mu))) ** 0.5
        else:
            smax = (abs(ran * ran / 4.0 - (b - mu - ran / 2.0) ** 2)) ** 0.5
        if fx["slack"] > 0 and smax < sd <= smax * (1.0 + float(fx["slack"])):
            sd = smax
        s5 = [0.0] * (N + 1)
        if ran != 0:
            sl = sd / ran
            for k in range(N + 1):
                p = k / N
                x5 = p * p + sl * sl - p
                if x5 >= 0:
                    s5[k] = x5 ** 0.5
        if not all(math.isfinite(v) for v in s5) or not math.isfinite(smax):
            return None
        return float(smax), s5
    except Exception:
        return None


# ---------------------------------------------------------------------------------------------
# running the real code
def run_impl(fn, args, via="direct"):
    """-> ('ok', left[], right[]) | ('ok','parametric',tag) | ('err', kind)"""
    pf = _pf()
    buf = io.StringIO()
    try:
        with contextlib.redirect_stdout(buf):
            if fn == "known_properties":
                if via == "un":
                    r = pf.known_properties(**args)
                    r = r._construct
                else:
                    r = pf.known_properties(**args, return_construct=True)
            else:
                r = getattr(pf, fn)(*[args[k] for k in ARGN[fn]])
        if isinstance(r, tuple) and r and r[0] == "PARSE":
            return ("ok", "parametric", r[1])
        return ("ok", [float(x) for x in np.asarray(r.left, dtype=float)],
                [float(x) for x in np.asarray(r.right, dtype=float)])
    except BaseException as e:  # noqa
        return ("err", err_kind(e))


def patch_parametric():
    """observe the routing to the parametric handlers (not modelled) without running them"""
    pf = _pf()
    import pyuncertainnumber.characterisation.stats as st
    if not getattr(pf, "_verif_patched", False):
        st.parse_moments = lambda **kw: ("PARSE", 0)
        pf.truncate_parse_moments = lambda **kw: ("PARSE", 1)
        pf._verif_patched = True


def wire(fn, args):
    C = const_tables()
    g = lambda k: q(args[k])
    if fn == "min_max":
        return f"minmax {g('minimum')} {g('maximum')}"
    if fn == "min_mean":
        return f"minmean {g('minimum')} {g('mean')}"
    if fn == "max_mean":
        return f"maxmean {g('maximum')} {g('mean')}"
    if fn == "min_max_mean":
        return f"mmm {g('minimum')} {g('maximum')} {g('mean')}"
    if fn == "min_max_median":
        return f"median {g('minimum')} {g('maximum')} {g('median')}"
    if fn == "min_max_mode":
        return f"mode {g('minimum')} {g('maximum')} {g('mode')}"
    if fn == "mean_std":
        return f"meanstd {g('mean')} {g('std')} {C['tL_w']} {C['tR_w']}"
    if fn == "mean_var":
        return f"meanvar {g('mean')} {g('var')} {q(float(np.sqrt(args['var'])))} {C['tL_w']} {C['tR_w']}"
    if fn == "min_max_mean_std":
        r = roots_for(float(args["minimum"]), float(args["maximum"]), float(args["mean"]), float(args["std"]))
        return (f"mmms {g('minimum')} {g('maximum')} {g('mean')} {g('std')} {q(r[0])} {q(src_facts()['slack'])} "
                f"{C['t1_w']} {C['t2_w']} {ql(r[1])}")
    if fn == "min_max_mean_var":
        s = float(np.sqrt(args["var"]))
        r = roots_for(float(args["minimum"]), float(args["maximum"]), float(args["mean"]), s)
        return (f"mmmv {g('minimum')} {g('maximum')} {g('mean')} {g('var')} {q(s)} {q(r[0])} {q(src_facts()['slack'])} "
                f"{C['t1_w']} {C['t2_w']} {ql(r[1])}")
    if fn == "known_properties":
        o = lambda k: q(args[k]) if args.get(k) is not None else "-"
        s = float(np.sqrt(args["var"])) if args.get("var") is not None else 0.0
        sd = args.get("std")
        if sd is None:
            sd = s
        r = None
        if all(args.get(k) is not None for k in ("minimum", "maximum", "mean")):
            r = roots_for(float(args["minimum"]), float(args["maximum"]), float(args["mean"]), float(sd))
        smax, s5 = (q(r[0]), ql(r[1])) if r else ("0", C["zero201"])
        fam = "1" if args.get("family") is not None else "0"
        return (f"kp {o('maximum')} {o('mean')} {o('median')} {o('minimum')} {o('mode')} {o('std')} {o('var')} "
                f"{fam} {q(s)} {smax} {q(src_facts()['slack'])} {C['tL_w']} {C['tR_w']} {C['t1_w']} {C['t2_w']} {s5}")
    raise ValueError(fn)


def parse_model(s):
    t = s.split()
    if t[0] == "err":
        return ("err", t[1])
    if t[0] == "ok" and t[1] == "parametric":
        return ("ok", "parametric", int(t[2]))
    if t[0] == "ok":
        return ("ok", unql(t[1]), unql(t[2]))
    return ("bad", s)


def in_scale(args):
    vals = [abs(float(v)) for k, v in args.items() if k != "family" and v is not None]
    return max(vals + [1e-300])


def agrees(impl, model, scale, rel, flips=0):
    """tolerance: |impl - model| <= rel * max(|impl|,|model|,input scale).  The exact model differs from
    the code by the rounding of j = k/200, 1-j, the divisions and the final add; near j -> 1 the
    cancellation in 1-j costs ~1e-14 relative, hence rel = 1e-11 (rational formulas) / 1e-8 (recurrence)."""
    if impl[0] != model[0]:
        return False
    if impl[0] == "err":
        return impl[1] == model[1]
    if impl[1] == "parametric" or model[1] == "parametric":
        return impl[1] == model[1] and impl[2] == model[2]
    if len(impl[1]) != len(model[1]) or len(impl[2]) != len(model[2]):
        return False
    for xs, ys in ((impl[1], model[1]), (impl[2], model[2])):
        used = 0
        for k, (x, y) in enumerate(zip(xs, ys)):
            if math.isnan(x) or math.isinf(x):
                return False
            yf = float(y)
            if abs(x - yf) > rel * max(abs(x), abs(yf), scale):
                # the quantile of the extremal law jumps at a level that may coincide with a step level k/200; which side
                # of the jump such a step falls is decided by rounding.  At most `flips` steps per bound may take the
                # value of a neighbouring step of the model instead.
                lo = float(ys[k - 1]) if k > 0 else yf
                hi = float(ys[k + 1]) if k + 1 < len(ys) else yf
                t = rel * max(abs(x), abs(lo), abs(hi), scale)
                if used < flips and min(lo, yf) - t <= x <= max(hi, yf) + t:
                    used += 1
                    continue
                return False
    return True


# ---------------------------------------------------------------------------------------------
# laws: sorted breakpoints [(x, F(x-), F(x))], F linear between breakpoints (flat for discrete laws)
def discrete(atoms):
    """atoms: iterable of (x, w), weights >= 0 summing to 1 -> merged sorted list with positive weights"""
    d = {}
    for x, w in atoms:
        if w > 0:
            d[x] = d.get(x, 0) + w
    xs = sorted(d)
    return [(x, d[x]) for x in xs]


def mean_of(at):
    return sum(x * w for x, w in at)


def var_of(at):
    m = mean_of(at)
    return sum(w * (x - m) ** 2 for x, w in at)


def mix(laws, ws):
    return discrete([(x, w * wl) for at, wl in zip(laws, ws) for x, w in at])


# rounding is not modelled: the step levels k/200 are themselves binary64 values, so a level counts as strictly
# inside a step only if it is at least EPS_P away from both ends (same spirit as the 1e-9 tolerance on values)
EPS_P = F(1, 10 ** 12)


def check_discrete(at, L, R, exL, exR, tol):
    """every quantile of the discrete law `at` at a level strictly inside a step lies in [L[k], R[k]].
    Atom j occupies the levels (c_{j-1}, c_j): it meets the open steps floor(200 c_{j-1}) .. ceil(200 c_j)-1.
    L and R are non-decreasing (checked by the caller), so the first step decides for R, the last for L.
    -> None | (side, k, atom, bound)"""
    c = F(0)
    for x, w in at:
        c0, c = c, c + w
        if w <= 2 * EPS_P:
            continue
        kf = math.floor(N * (c0 + EPS_P))
        kl = math.ceil(N * (c - EPS_P)) - 1
        kf, kl = min(max(kf, 0), N - 1), min(max(kl, 0), N - 1)
        if not (exR and kf == N - 1):
            if x > R[kf] + tol(R[kf]):
                return ("right", kf, x, R[kf])
        if not (exL and kl == 0):
            if x < L[kl] - tol(L[kl]):
                return ("left", kl, x, L[kl])
    return None


def envelope_pl(bps):
    """general law given by breakpoints (x, F(x-), F(x)), F linear in between:
    lo[k] = inf of the quantiles at levels in (k/200,(k+1)/200), hi[k] = their sup"""
    lo, hi = [], []
    n = len(bps)
    for k in range(N):
        p = F(k, N)
        i = next(i for i in range(n) if bps[i][2] > p)
        if bps[i][1] > p:
            x0, f0 = bps[i - 1][0], bps[i - 1][2]
            lo.append(x0 + (p - f0) * (bps[i][0] - x0) / (bps[i][1] - f0))
        else:
            lo.append(bps[i][0])
        p = F(k + 1, N)
        i = next((i for i in range(n) if bps[i][1] >= p), None)
        if i is None:
            hi.append(bps[-1][0])
        elif bps[i - 1][2] >= p:
            hi.append(bps[i - 1][0])
        else:
            x0, f0 = bps[i - 1][0], bps[i - 1][2]
            hi.append(x0 + (p - f0) * (bps[i][0] - x0) / (bps[i][1] - f0))
    return lo, hi


def unimodal_bps(M, comps, w0):
    """mixture of uniforms on [c, M] or [M, c] (weights in comps) plus an atom of mass w0 at the mode M"""
    pts = sorted(set([M] + [c for c, _ in comps]))

    def cdf(x, strict=False):
        s = F(0)
        for c, w in comps:
            lo, hi = (c, M) if c < M else (M, c)
            if x >= hi:
                s += w
            elif x > lo:
                s += w * (x - lo) / (hi - lo)
        if (x > M) or (x == M and not strict):
            s += w0
        return s
    return [(x, cdf(x, True), cdf(x)) for x in pts]


# ---------------------------------------------------------------------------------------------
# law generators (exact Fractions); each returns a list of (label, law)
def rfrac(rng, lo, hi, den=None):
    den = den or rng.choice([2, 3, 4, 5, 7, 8, 10, 16, 100, 1000])
    return lo + (hi - lo) * F(rng.randint(0, den), den)


def rweights(rng, n):
    ks = [rng.randint(1, 12) for _ in range(n)]
    s = sum(ks)
    return [F(k, s) for k in ks]


def near_levels(rng, count):
    """probabilities at, just below and just above step boundaries, and inside steps"""
    out = []
    for _ in range(count):
        k = rng.choice([1, 2, 3, N // 4, N // 2 - 1, N // 2, N // 2 + 1, 3 * N // 4, N - 3, N - 2, N - 1, rng.randint(1, N - 1)])
        d = rng.choice([F(0), F(1, 10 ** 6), -F(1, 10 ** 6), F(1, 2 * N), F(1, 3 * N)])
        p = F(k, N) + d
        if 0 < p < 1:
            out.append(p)
    return out


def laws_support(rng, a, b, n):
    out = [("point-min", [(a, F(1))]), ("point-max", [(b, F(1))]), ("two-point-ends", discrete([(a, F(1, 2)), (b, F(1, 2))]))]
    for p in near_levels(rng, 3):
        out.append(("two-point-ends", discrete([(a, p), (b, 1 - p)])))
    for _ in range(n):
        m = rng.randint(1, 5)
        out.append(("random", discrete(zip([rfrac(rng, a, b) for _ in range(m)], rweights(rng, m)))))
    return out


def laws_min_mean(rng, m, mu, n):
    out = []
    if mu == m:
        return [("point", [(m, F(1))])]
    out.append(("point-mean", [(mu, F(1))]))
    for p in near_levels(rng, max(6, n // 2)) + [F(k, N) for k in (1, N // 2, N - 2, N - 1)]:
        out.append(("markov-two-point", discrete([(m, p), (m + (mu - m) / (1 - p), 1 - p)])))
    for _ in range(n):
        k = rng.randint(2, 5)
        xs = [m + F(rng.randint(0, 50), rng.choice([1, 3, 7])) for _ in range(k)]
        at = discrete(zip(xs, rweights(rng, k)))
        mm = mean_of(at)
        if mm == m:
            continue
        s = (mu - m) / (mm - m)
        out.append(("random-rescaled", discrete([(m + (x - m) * s, w) for x, w in at])))
    return out


def two_point(mu, V, al):
    """the two-point law with mean mu and variance V whose lower atom is mu - al (al > 0 rational): no square root needed"""
    be = V / al
    return discrete([(mu - al, be / (al + be)), (mu + be, al / (al + be))])


def alpha_for_level(V, p):
    """rationals just below / above sqrt(V(1/p-1)): the two-point laws whose P(low) lands just above / below p"""
    t0 = F(math.sqrt(float(V * (1 / p - 1))))
    return [t0 * (1 - F(1, 10 ** 9)), t0 * (1 + F(1, 10 ** 9))]


def laws_mean_std(rng, mu, V, n):
    if V == 0:
        return [("point", [(mu, F(1))])]
    base = []
    s0 = F(math.sqrt(float(V)))

    def three(c):  # Chebyshev extremal, c*c >= V
        return discrete([(mu - c, V / (2 * c * c)), (mu, 1 - V / (c * c)), (mu + c, V / (2 * c * c))])
    for p in near_levels(rng, max(6, n // 2)) + [F(k, N) for k in (1, 2, N // 2, N - 2, N - 1)]:
        for al in alpha_for_level(V, p):
            if al > 0:
                base.append(("cantelli-two-point", two_point(mu, V, al)))
    for _ in range(n):
        base.append(("cantelli-two-point", two_point(mu, V, s0 * F(rng.randint(1, 400), rng.randint(1, 40)))))
        c = s0 * (1 + F(rng.randint(1, 300), rng.randint(1, 30)))
        base.append(("chebyshev-three-point", three(c)))
    out = list(base)
    for _ in range(n):
        k = rng.randint(2, 3)
        ls = [rng.choice(base)[1] for _ in range(k)]
        out.append(("mixture", mix(ls, rweights(rng, k))))
    return out


def fix_mean(at, a, b, mu):
    """mix with a point mass at an end of the range so that the mean becomes mu"""
    mm = mean_of(at)
    if mm == mu:
        return at
    end = b if mm < mu else a
    w = (end - mu) / (end - mm)
    return mix([at, [(end, F(1))]], [w, 1 - w])


def laws_min_max_mean(rng, a, b, mu, n):
    if mu == a or mu == b:
        return [("point", [(mu, F(1))])]
    out = [("point-mean", [(mu, F(1))]),
           ("two-point-ends", discrete([(a, (b - mu) / (b - a)), (b, (mu - a) / (b - a))]))]
    mid = (b - mu) / (b - a)
    for p in near_levels(rng, max(8, n // 2)) + [mid]:
        if 0 < p < 1:
            up = a + (mu - a) / (1 - p)
            if up <= b:
                out.append(("markov-two-point-low", discrete([(a, p), (up, 1 - p)])))
            dn = b - (b - mu) / p
            if dn >= a:
                out.append(("markov-two-point-high", discrete([(dn, p), (b, 1 - p)])))
    for _ in range(n):
        k = rng.randint(1, 4)
        at = discrete(zip([rfrac(rng, a, b) for _ in range(k)], rweights(rng, k)))
        out.append(("random-mean-fixed", fix_mean(at, a, b, mu)))
    return out


def laws_median(rng, a, b, med, n):
    out = [("point-median", [(med, F(1))]), ("two-point-ends", discrete([(a, F(1, 2)), (b, F(1, 2))])),
           ("half-median-half-max", discrete([(med, F(1, 2)), (b, F(1, 2))])),
           ("half-min-half-median", discrete([(a, F(1, 2)), (med, F(1, 2))]))]
    for _ in range(n):
        wl = F(rng.randint(0, 10), 20)
        wu = F(rng.randint(0, 10), 20)
        kl, ku = rng.randint(1, 3), rng.randint(1, 3)
        lo = [(rfrac(rng, a, med), w * wl) for w in rweights(rng, kl)]
        up = [(rfrac(rng, med, b), w * wu) for w in rweights(rng, ku)]
        out.append(("random-median", discrete(lo + up + [(med, 1 - wl - wu)])))
    return out


def three_point_weights(xs, mu, V):
    """weights on three atoms with mean mu and variance V (unique solution of the 3x3 system), or None"""
    x1, x2, x3 = xs
    m2 = V + mu * mu
    # Lagrange basis: w_i = (m2 - (xj+xk) mu + xj xk) / ((xi-xj)(xi-xk))
    w = []
    for xi, xj, xk in ((x1, x2, x3), (x2, x1, x3), (x3, x1, x2)):
        w.append((m2 - (xj + xk) * mu + xj * xk) / ((xi - xj) * (xi - xk)))
    if all(v >= 0 for v in w):
        return w
    return None


def laws_mmms(rng, a, b, mu, V, n):
    vmax = (mu - a) * (b - mu)
    if V > vmax:
        return []
    if V == 0:
        return [("point", [(mu, F(1))])]
    if V == vmax:
        return [("two-point-ends", discrete([(a, (b - mu) / (b - a)), (b, (mu - a) / (b - a))]))]
    base = []
    alo, ahi = V / (b - mu), mu - a      # the two-point law (mu - al, mu + V/al) fits the range iff alo <= al <= ahi
    base.append(("two-point-touching-max", two_point(mu, V, alo)))
    base.append(("two-point-touching-min", two_point(mu, V, ahi)))
    for _ in range(n):
        base.append(("two-point", two_point(mu, V, rfrac(rng, alo, ahi))))
    for p in near_levels(rng, max(6, n // 2)):
        for al in alpha_for_level(V, p):
            if alo <= al <= ahi:
                base.append(("cantelli-two-point", two_point(mu, V, al)))
    for _ in range(2 * n):
        kind = rng.random()
        if kind < 0.5:
            xs = sorted({a, rfrac(rng, a, b), b})
        else:
            xs = sorted({rfrac(rng, a, b), rfrac(rng, a, b), rfrac(rng, a, b)})
        if len(xs) != 3:
            continue
        w = three_point_weights(xs, mu, V)
        if w:
            base.append(("three-point" + ("-on-ends" if kind < 0.5 else ""), discrete(zip(xs, w))))
    out = list(base)
    for _ in range(n):
        k = rng.randint(2, 3)
        out.append(("mixture", mix([rng.choice(base)[1] for _ in range(k)], rweights(rng, k))))
    return out


def laws_mode(rng, a, b, M, n):
    """Khinchin: a law is unimodal about M iff it is a mixture of uniforms with one end at M (and an atom at M)"""
    out = []
    if M > a:
        out.append(("uniform-min-mode", unimodal_bps(M, [(a, F(1))], F(0))))
    if M < b:
        out.append(("uniform-mode-max", unimodal_bps(M, [(b, F(1))], F(0))))
    out.append(("point-mode", unimodal_bps(M, [], F(1))))
    if a < M < b:
        out.append(("uniform-both", unimodal_bps(M, [(a, F(1, 2)), (b, F(1, 2))], F(0))))
    for _ in range(n):
        k = rng.randint(1, 4)
        cs = [c for c in {rfrac(rng, a, b) for _ in range(k)} if c != M]
        w = rweights(rng, len(cs) + 1)
        out.append(("khinchin-mixture", unimodal_bps(M, list(zip(cs, w[:-1])), w[-1])))
    return out


# ---------------------------------------------------------------------------------------------
# the semantic oracle
def fr_sqrt_bounds(x: F):
    """rational lower and upper bounds of sqrt(x), relative width ~1e-12"""
    if x <= 0:
        return F(0), F(0)
    s = F(math.sqrt(float(x)))
    lo, hi = s * (1 - F(1, 10 ** 12)), s * (1 + F(1, 10 ** 12))
    assert lo * lo <= x <= hi * hi
    return lo, hi


def admissible(fn, A):
    """the property's domain (exact); A: dict of Fractions"""
    g = A.get
    if fn == "min_max":
        return g("minimum") < g("maximum")
    if fn == "min_mean":
        return g("minimum") <= g("mean")
    if fn == "max_mean":
        return g("mean") <= g("maximum")
    if fn == "mean_std":
        return g("std") >= 0
    if fn == "mean_var":
        return g("var") >= 0
    if fn in ("min_max_mean", "min_max_median", "min_max_mode"):
        third = {"min_max_mean": "mean", "min_max_median": "median", "min_max_mode": "mode"}[fn]
        return g("minimum") < g("maximum") and g("minimum") <= g(third) <= g("maximum")
    if fn in ("min_max_mean_std", "min_max_mean_var"):
        if not (g("minimum") < g("maximum") and g("minimum") <= g("mean") <= g("maximum")):
            return False
        V = g("var") if fn.endswith("var") else g("std") ** 2
        if fn.endswith("std") and g("std") < 0:
            return False
        return 0 <= V <= (g("mean") - g("minimum")) * (g("maximum") - g("mean"))
    return False


def exempt(fn):
    """(left outermost step exempt, right outermost step exempt): the mathematically unbounded tails"""
    return {"min_mean": (False, True), "max_mean": (True, False), "mean_std": (True, True),
            "mean_var": (True, True)}.get(fn, (False, False))


def oracle(ctx, fn, A, impl, nlaws, rng, call, feats):
    """A: exact constraint values; impl: ('ok', left, right) from the real code.  Reports via ctx.fail."""
    if impl[0] == "err":
        ctx.fail(dict(feats, symptom="raises:" + impl[1]), dict(call, impl=list(impl)),
                 f"{call}: admissible constraints but the constructor raises {impl[1]}")
        return
    if impl[1] == "parametric":
        ctx.fail(dict(feats, symptom="not-a-pbox"), call, f"{call}: no p-box returned")
        return
    Lf, Rf = impl[1], impl[2]
    if len(Lf) != N or len(Rf) != N or any(not math.isfinite(v) for v in Lf + Rf):
        ctx.fail(dict(feats, symptom="shape"), dict(call, n=len(Lf)), f"{call}: bounds are not {N} finite values")
        return
    if any(Lf[i] > Lf[i + 1] for i in range(N - 1)) or any(Rf[i] > Rf[i + 1] for i in range(N - 1)):
        ctx.fail(dict(feats, symptom="not-monotone"), call, f"{call}: bounds are not non-decreasing")
        return
    L, R = [F(v) for v in Lf], [F(v) for v in Rf]
    scale = F(max(abs(float(v)) for v in A.values()) or 1e-300)
    tol = lambda bound: F(1, 10 ** 9) * max(scale, abs(bound))
    exL, exR = exempt(fn)
    g = A.get
    V = None      # the variance every law must have exactly (no square root is taken: laws are parametrised by V)
    if "var" in A:
        V = g("var")
    elif "std" in A:
        V = g("std") ** 2
    if fn == "min_max":
        laws = laws_support(rng, g("minimum"), g("maximum"), nlaws)
    elif fn == "min_mean":
        laws = laws_min_mean(rng, g("minimum"), g("mean"), nlaws)
    elif fn == "max_mean":
        laws = [(lab, discrete([(-x, w) for x, w in at])) for lab, at in laws_min_mean(rng, -g("maximum"), -g("mean"), nlaws)]
    elif fn in ("mean_std", "mean_var"):
        laws = laws_mean_std(rng, g("mean"), V, nlaws)
    elif fn == "min_max_mean":
        laws = laws_min_max_mean(rng, g("minimum"), g("maximum"), g("mean"), nlaws)
    elif fn == "min_max_median":
        laws = laws_median(rng, g("minimum"), g("maximum"), g("median"), nlaws)
    elif fn == "min_max_mode":
        laws = laws_mode(rng, g("minimum"), g("maximum"), g("mode"), max(3, nlaws // 3))
    else:
        laws = laws_mmms(rng, g("minimum"), g("maximum"), g("mean"), V, nlaws)
    ctx.bump("laws", len(laws))
    envs = []
    for lab, law in laws:
        ctx.bump("law:" + lab)
        if fn == "min_max_mode":
            lo, hi = envelope_pl(law)
            envs.append((lab, lo, hi))
            bad = None
            for k in range(N):
                if lo[k] < L[k] - tol(L[k]):
                    bad = ("left", k, lo[k], L[k]); break
                if hi[k] > R[k] + tol(R[k]):
                    bad = ("right", k, hi[k], R[k]); break
        else:
            bad = check_discrete(law, L, R, exL, exR, tol)
        if bad:
            side, k, x, bnd = bad
            ctx.fail(dict(feats, symptom="not-enclosed", side=side, law=lab),
                     dict(call, law=[[str(x), str(w)] for x, w in law] if fn != "min_max_mode" else [[str(c) for c in b] for b in law],
                          step=k, side=side, quantile=float(x), bound=float(bnd)),
                     f"{call}: a law ({lab}) meeting the constraints has a quantile {float(x)!r} at a level inside step {k} "
                     f"outside the {side} bound {float(bnd)!r}")
            return
    # non-vacuity: an extremal law comes within one probability step of each bound
    bad = tightness(fn, A, V, L, R, tol)
    if bad:
        side, k, bnd, ref, what = bad
        ctx.fail(dict(feats, symptom="vacuous", side=side), dict(call, step=k, side=side, bound=float(bnd), reachable=float(ref)),
                 f"{call}: {side} bound of step {k} is {float(bnd)!r} but {what} only reaches {float(ref)!r} within one step")


def tightness(fn, A, V, L, R, tol):
    """for every step k whose bound is finite by the mathematics: an admissible extremal law reaches the bound at
    a level at most one probability step outside step k.  The reachable value is computed from the explicit law."""
    g = A.get

    def markov_up(m, mu, p):      # upper atom of {m w.p. p, . w.p. 1-p} with mean mu; it sits at the levels (p,1)
        return m + (mu - m) / (1 - p)

    def cantelli_up(mu, V, p):    # upper atom of the two-point law (mean mu, variance V) with P(low) = p' >= p, p' ~ p
        if V == 0:
            return mu
        al = fr_sqrt_bounds(V * (1 / p - 1))[0]
        return mu + V / al

    for k in range(N):
        # "within one probability step": the extremal law may sit one step (1/200 in probability) outside step k,
        # i.e. its atom reaches the bound at a level >= (k-1)/200 (left) resp. <= (k+2)/200 (right)
        jr, jl = F(min(k + 2, N), N), F(max(k - 1, 0), N)
        reachR = reachL = None
        whatR = whatL = ""
        if fn == "min_max":
            reachR, reachL = g("maximum"), g("minimum"); whatR = whatL = "a point mass at the end of the range"
        elif fn == "min_mean":
            m, mu = g("minimum"), g("mean")
            reachL, whatL = m, "the atom at the minimum"
            if jr < 1:
                reachR, whatR = markov_up(m, mu, jr), "the Markov two-point law"
        elif fn == "max_mean":
            M, mu = g("maximum"), g("mean")
            reachR, whatR = M, "the atom at the maximum"
            if jl > 0:
                reachL, whatL = -markov_up(-M, -mu, 1 - jl), "the Markov two-point law"
        elif fn in ("mean_std", "mean_var"):
            mu = g("mean")
            if jr < 1:
                reachR, whatR = cantelli_up(mu, V, jr), "the Cantelli two-point law"
            if jl > 0:
                reachL, whatL = 2 * mu - cantelli_up(mu, V, 1 - jl), "the Cantelli two-point law"
        elif fn == "min_max_mean":
            a, b, mu = g("minimum"), g("maximum"), g("mean")
            if not (a < mu < b):
                continue
            mid = (b - mu) / (b - a)       # the law on {min,max} has min at the levels (0,mid) and max at (mid,1)
            reachR = b if mid < jr or jr == 1 else markov_up(a, mu, jr)
            reachL = a if mid > jl or jl == 0 else b - (b - mu) / jl
            whatR = whatL = "the range-mean two-point law"
        elif fn == "min_max_median":
            a, b, med = g("minimum"), g("maximum"), g("median")
            reachR = med if jr < F(1, 2) else b
            reachL = a if jl < F(1, 2) else med
            whatR = whatL = "the two-point law with half its mass at the median"
        elif fn == "min_max_mode":
            a, b, M = g("minimum"), g("maximum"), g("mode")
            reachR, reachL = M + jr * (b - M), a + jl * (M - a)
            whatR = whatL = "the uniform law between the mode and the end of the range"
        else:
            # range+mean+dispersion: at least as tight as the range-mean and the Cantelli bounds (one step out)
            a, b, mu = g("minimum"), g("maximum"), g("mean")
            if not (a < mu < b) or V == 0:
                continue
            cands = [b]
            if jr < 1:
                cands.append(markov_up(a, mu, jr))
                cands.append(mu + fr_sqrt_bounds(V * jr / (1 - jr))[1])
            reachR, whatR = min(cands), "the tighter of the range-mean and Cantelli bounds"
            cands = [a]
            if jl > 0:
                cands.append(b - (b - mu) / jl)
                cands.append(mu - fr_sqrt_bounds(V * (1 / jl - 1))[1])
            reachL, whatL = max(cands), "the tighter of the range-mean and Cantelli bounds"
        if reachR is not None and R[k] > reachR + tol(R[k]):
            return ("right", k, R[k], reachR, whatR)
        if reachL is not None and L[k] < reachL - tol(L[k]):
            return ("left", k, L[k], reachL, whatL)
    return None


# ---------------------------------------------------------------------------------------------
# generators
def dyadic(rng, lo=-8, hi=8):
    return rng.randint(lo * 16, hi * 16) / 16.0


def rdouble(rng):
    return float(rng.uniform(-1, 1) * 10 ** rng.uniform(-3, 4))


def gen_valid(rng, fn, nice):
    """one admissible constraint tuple for `fn` as python floats/ints"""
    if nice:
        a = dyadic(rng)
        w = rng.choice([0.5, 1.0, 2.0, 3.0, 4.0, 5.0, 10.0, 0.25, 7.5])
    else:
        a = rdouble(rng)
        w = abs(rdouble(rng)) + 1e-3 * abs(a)
    b = a + w
    u = rng.choice([0.0, 1.0, 0.5, 0.25, 0.75, 0.1, 0.9, 0.005, 0.995, rng.random(), rng.random(), rng.random()])
    mid = a + u * w if nice else min(max(a + u * w, a), b)
    sdu = rng.choice([0.0, 0.5, 1.0, 0.25, 0.1, 2.0, rng.random() * 3])
    A = {}
    if fn == "min_max":
        A = dict(minimum=a, maximum=b)
    elif fn == "min_mean":
        A = dict(minimum=a, mean=a + sdu * w)
    elif fn == "max_mean":
        A = dict(maximum=b, mean=b - sdu * w)
    elif fn == "mean_std":
        A = dict(mean=a, std=sdu * w)
    elif fn == "mean_var":
        A = dict(mean=a, var=sdu * w)
    elif fn == "min_max_mean":
        A = dict(minimum=a, maximum=b, mean=mid)
    elif fn == "min_max_median":
        A = dict(minimum=a, maximum=b, median=mid)
    elif fn == "min_max_mode":
        A = dict(minimum=a, maximum=b, mode=mid)
    else:
        vmax = (mid - a) * (b - mid)
        f = rng.choice([0.0, 1.0, 0.999, 0.5, 0.25, 0.04, rng.random(), rng.random(), rng.random()])
        if fn == "min_max_mean_std":
            s = math.sqrt(vmax) * math.sqrt(f) if f < 1 else math.sqrt(vmax)
            while F(s) ** 2 > F(mid - a) * F(b - mid) and s > 0:    # keep the std compatible with the range (exactly)
                s = math.nextafter(s, 0.0)
            A = dict(minimum=a, maximum=b, mean=mid, std=s)
        else:
            v = vmax * f
            while F(v) > F(mid - a) * F(b - mid) and v > 0:
                v = math.nextafter(v, 0.0)
            A = dict(minimum=a, maximum=b, mean=mid, var=v)
    if nice and rng.random() < 0.3:
        A = {k: (int(v) if float(v).is_integer() else v) for k, v in A.items()}
    return A


# fixed witnesses: always generated (extremal tuples named by the property, and the known findings' inputs)
WITNESS = [
    ("min_max_mean_std", dict(minimum=0.0, maximum=2.0, mean=1.0, std=1.0)),       # maximal dispersion: two-point law on {min,max}
    ("min_max_mean_std", dict(minimum=0.0, maximum=5.0, mean=1.0, std=2.0)),
    ("min_max_mean_var", dict(minimum=0.0, maximum=2.0, mean=1.0, var=1.0)),
    ("min_max_mean_var", dict(minimum=13.781366713368225, maximum=528.0824604076643, mean=525.5109549391927, var=1315.9154345013837)),  # KF-C10-var-sqrt-rounds-above-max
    ("min_max_mean_std", dict(minimum=0.0, maximum=2.0, mean=1.0, std=0.5)),
    ("min_max_mean_std", dict(minimum=0.0, maximum=2.0, mean=1.0, std=0.0)),
    ("min_max_mean_std", dict(minimum=0.0, maximum=2.0, mean=0.0, std=0.0)),
    ("min_max_mean_std", dict(minimum=-1.0, maximum=3.0, mean=0.0, std=1.5)),
    ("min_max_mean", dict(minimum=0.0, maximum=2.0, mean=1.0)),
    ("min_max_mean", dict(minimum=0.0, maximum=2.0, mean=0.0)),
    ("min_max_mean", dict(minimum=0.0, maximum=2.0, mean=2.0)),
    ("min_max_mean", dict(minimum=0, maximum=10, mean=3)),
    ("min_mean", dict(minimum=0, mean=1)), ("min_mean", dict(minimum=1.0, mean=1.0)),
    ("max_mean", dict(maximum=2, mean=1)), ("max_mean", dict(maximum=2.0, mean=2.0)),
    ("mean_std", dict(mean=1, std=0.5)), ("mean_std", dict(mean=1.0, std=0.0)), ("mean_var", dict(mean=1, var=0.25)),
    ("min_max", dict(minimum=0, maximum=2)),
    ("min_max_median", dict(minimum=0, maximum=2, median=1)), ("min_max_median", dict(minimum=0.0, maximum=2.0, median=0.0)),
    ("min_max_mode", dict(minimum=0, maximum=2, mode=1)), ("min_max_mode", dict(minimum=0.0, maximum=2.0, mode=2.0)),
]


# (scale, power of two?) — practice J
SCALES = [(2.0 ** -30, True), (2.0 ** -60, True), (2.0 ** -70, True), (2.0 ** 36, True), (1e-6, False), (1e-19, False), (1e6, False)]
SCALE_BASE = {}     # case index -> (constructor, unscaled arguments, scale, exact?)
FALSY = [
    dict(minimum=0, mean=0), dict(minimum=0.0, mean=1.5), dict(minimum=-2.0, mean=0), dict(maximum=0, mean=-1.5),
    dict(maximum=0.0, mean=0.0), dict(mean=0, std=1.0), dict(mean=0.0, std=0), dict(mean=0, var=0.25), dict(mean=1.0, var=0),
    dict(minimum=0, maximum=2, mean=0), dict(minimum=-2, maximum=0, mean=0), dict(minimum=-1, maximum=1, mean=0),
    dict(minimum=0, maximum=2, median=0), dict(minimum=-1.0, maximum=1.0, median=-0.0), dict(minimum=-1, maximum=1, mode=0),
    dict(minimum=-2, maximum=0, mode=0), dict(minimum=-1, maximum=1, mean=0, std=0.5), dict(minimum=-1, maximum=1, mean=0, std=0),
    dict(minimum=0, maximum=2, mean=1, var=0), dict(minimum=-1.0, maximum=1.0, mean=-0.0, var=0.25),
]


def gen_malformed(rng, fn):
    A = gen_valid(rng, fn, True)
    A = {k: float(v) for k, v in A.items()}
    kind = rng.choice(["inverted", "equal", "outside-low", "outside-high", "negative-disp", "too-dispersed"])
    if kind == "inverted" and "minimum" in A and "maximum" in A:
        A["minimum"], A["maximum"] = A["maximum"], A["minimum"]
    elif kind == "equal" and "minimum" in A and "maximum" in A:
        A["maximum"] = A["minimum"]
        for k in ("mean", "median", "mode"):
            if k in A:
                A[k] = A["minimum"]
    elif kind in ("outside-low", "outside-high"):
        for k in ("mean", "median", "mode"):
            if k in A and ("minimum" in A or "maximum" in A):
                if kind == "outside-low":
                    A[k] = A.get("minimum", A.get("maximum")) - 1.5
                else:
                    A[k] = A.get("maximum", A.get("minimum")) + 1.5
    elif kind == "negative-disp" and "std" in A:
        A["std"] = -abs(A["std"]) - 0.5
    elif kind == "too-dispersed" and "std" in A and "minimum" in A:
        A["std"] = (A["maximum"] - A["minimum"]) * 2.0
    return kind, A


def gen_cases(ctx):
    rng = ctx.rng
    cases = []   # (stream, fn, args, via)
    for fn, A in WITNESS:
        cases.append(("witness", fn, dict(A), "direct"))
    per = ctx.scale(22, 500)
    for fn in FUNS:
        heavy = fn.startswith("min_max_mean_")
        for _ in range(per * (3 if heavy else 1) // (2 if fn in ("min_max", "min_max_median") else 1)):
            cases.append(("grid", fn, gen_valid(rng, fn, True), "direct"))
        for _ in range(per * (3 if heavy else 1) // (2 if fn in ("min_max", "min_max_median") else 1)):
            cases.append(("random", fn, gen_valid(rng, fn, False), "direct"))
        for _ in range(ctx.scale(8, 80)):
            kind, A = gen_malformed(rng, fn)
            cases.append(("malformed", fn, A, "direct"))
    # dispatcher: every subset of the 7 numeric keys (+ family), values from one admissible assignment
    combos = []
    for r in range(0, 8):
        for ks in itertools.combinations(KEYS, r):
            combos.append((ks, False))
    for ks in [(), ("mean",), ("mean", "std"), ("mean", "var"), ("mean", "std", "var"), ("maximum", "minimum"),
               ("maximum", "mean", "minimum"), ("maximum", "mean", "minimum", "std"), ("maximum", "mean", "minimum", "var"),
               ("maximum", "mean", "minimum", "std", "var"), ("median",), ("maximum", "median", "minimum")]:
        combos.append((ks, True))
    for ks, fam in combos:
        base = gen_valid(rng, "min_max_mean_std", True)
        a, b, mu, s = float(base["minimum"]), float(base["maximum"]), float(base["mean"]), float(base["std"])
        vals = dict(minimum=a, maximum=b, mean=mu, std=s, var=s * s, median=mu, mode=mu)
        A = {k: vals[k] for k in ks}
        if fam:
            A["family"] = "normal"
        cases.append(("dispatch", "known_properties", A, "direct"))
    for ks in ROUTE:
        for _ in range(ctx.scale(4, 60)):
            A = gen_valid(rng, ROUTE[ks], rng.random() < 0.5)
            cases.append(("dispatch-valid", "known_properties", A, "direct"))
        A = gen_valid(rng, ROUTE[ks], True)
        cases.append(("dispatch-un", "known_properties", A, "un"))
    # magnitudes: the same specification at tiny and huge scales.  The constraint sets are location-scale families
    # (X meets spec  <=>  sX meets s.spec, variances scale by s^2), so enclosure and non-vacuity are demanded at every
    # scale; for a power-of-two s every binary64 operation of the constructors commutes with the scaling, so the
    # returned bounds must be s times the bounds of the unscaled specification.
    SCALE_BASE.clear()
    for fn in FUNS:
        bases = [{k: float(v) for k, v in A.items()} for f2, A in WITNESS if f2 == fn and all(map(math.isfinite, map(float, A.values())))][:2]
        for _ in range(ctx.scale(2, 12)):
            bases.append({k: float(v) for k, v in gen_valid(rng, fn, True).items()})
        for B in bases:
            for sc, exact in SCALES:
                A = {k: (v * sc * sc if k == "var" else v * sc) for k, v in B.items()}
                if not all(math.isfinite(v) for v in A.values()):
                    continue
                via_kp = rng.random() < 0.25
                cases.append(("scale", "known_properties" if via_kp else fn, A, "direct"))
                SCALE_BASE[len(cases) - 1] = (fn, B, sc, exact)
    # falsy-but-valid arguments through the dispatcher (0, 0.0, -0.0 are values, not "missing")
    for A in FALSY:
        cases.append(("falsy", "known_properties", dict(A), "direct"))
        fn = ROUTE[tuple(sorted(A))]
        cases.append(("falsy", fn, dict(A), "direct"))
    return cases


def feats_of(fn, A, stream, via):
    f = {"call": fn, "stream": stream, "via": via}
    if fn == "known_properties":
        ks = tuple(sorted(k for k in A if k != "family"))
        f["constructor"] = ROUTE.get(ks, "none")
    else:
        f["constructor"] = fn
    try:
        E = {k: F(v) for k, v in A.items() if k != "family"}
        if f["constructor"] in ("min_max_mean_std", "min_max_mean_var"):
            V = E["var"] if "var" in E else E["std"] ** 2
            vmax = (E["mean"] - E["minimum"]) * (E["maximum"] - E["mean"])
            f["dispersion_ratio"] = float(V / vmax) if vmax > 0 else (0.0 if V == 0 else 2.0)
            f["dispersion_exactly_maximal"] = bool(V == vmax)
    except Exception:
        pass
    return f


def run(ctx: core.Check, cases=None):
    core.stub_moments()
    patch_parametric()
    ctx.rule = ("streams: fixed witnesses (extremal tuples of the property); per constructor dyadic 'grid' tuples (boundary values "
                "mean=min, mean=max, std=0, maximal std, int and float arguments) and random doubles over 7 decades; malformed "
                "tuples (inverted/equal range, constraint outside the range, negative or excessive dispersion) compared on error kind; "
                "known_properties on all 128 subsets of the numeric constraints (+12 with family) and on admissible tuples of the 10 "
                "supported sets, through return_construct and through the UncertainNumber wrapper; every constructor (directly and through "
                "the dispatcher) on witness and grid specifications scaled by 2^-30, 2^-60, 2^-70, 2^36, 1e-6, 1e-19, 1e6 (variances by the "
                "square), with the full law oracle at that scale and, for the power-of-two scales, bounds == scale x bounds of the "
                "unscaled specification; the discretisation Params.steps (and p_values) set to 100/40/300/400, used and restored, with the law "
                "oracle at that grid and before/after equality; every call repeated under np.errstate(all='raise') and warnings-as-errors "
                "(same value or an exception, never another value); falsy-but-valid arguments (0, 0.0, -0.0) through dispatcher and constructors. Each admissible case is checked "
                "against ~20-60 exact finite laws (Markov/Cantelli/range-mean two-point, Chebyshev three-point, three-point "
                "moment-matched, mixtures, mean-fixed random laws; Khinchin mixtures of uniforms for the mode). A case is non-trivial "
                "unless the range or the dispersion is degenerate; distinctness on (call, arguments).")
    ctx.assumptions = [
        "binary64 rounding is not modelled; model and code agree within 1e-11 (rational formulas) / 1e-8 (recurrence with cancelling "
        "denominators) relative to max(|value|, input scale)",
        "square roots (np.sqrt, **0.5) are inputs of the model: computed here by the same numpy/Python call and sent on the wire; "
        "the theorems assume s>=0 and s*s = argument",
        "min_max_mean_std/var within 1e-9 (relative) of the maximal dispersion but not exactly at it: the exact bound is discontinuous in "
        "the inputs there, model and code are compared on outcome kind only (the oracle still runs)",
        "Params.steps = 200 and Params.p_values = linspace(.001,.999,200) are pinned; the 'next' interpolation of 199 values is "
        "modelled by its result [r0..r198,r198]",
        "arguments are Python int/float (numpy scalars would turn ZeroDivisionError into inf/nan); percentiles= is not modelled; "
        "parse_moments / truncate_parse_moments are observed only as routing targets",
        "oracle tolerance 1e-9 relative to max(input scale, |bound|) on values and 1e-12 on probability levels (an atom must overlap a step by more than that); 'unimodal' is represented by Khinchin mixtures of uniforms; "
        "laws meet mean and variance constraints exactly (two-point laws are parametrised by the lower atom, no square root)",
    ]
    ctx.lean_stage(["Pun.Lemmas.FreeLaw", "Pun.Props.C10", "Pun.Props.C10Gen"],
                   generators=[("pbox_free.py closed-form formulas", lambda: trf.generate(core.REPO, core.LEAN / "Pun/Gen/FreeGen.lean"))])
    ctx.extraction["min_max_mean_std facts"] = {k: str(v) for k, v in src_facts().items()}
    if cases is None:
        cases = gen_cases(ctx)
    reqs = [wire(fn, A) for (_, fn, A, _) in cases]
    replies = core.model_batch("C10", reqs)
    nl = ctx.scale(8, 14)
    base_cache = {}
    for idx, ((stream, fn, A, via), rep) in enumerate(zip(cases, replies)):
        key = (fn, tuple(sorted((k, str(v)) for k, v in A.items())), via)
        ctor = feats_of(fn, A, stream, via)["constructor"]
        E = None
        try:
            E = {k: F(v) for k, v in A.items() if k != "family"}
        except Exception:
            pass
        adm = ctor in FUNS and "family" not in A and E is not None and admissible(ctor, E)
        degenerate = (not adm) or ("std" in A and A["std"] == 0) or ("var" in A and A["var"] == 0)
        ctx.count(key, nontrivial=not degenerate, stream=stream)
        ctx.bump("call:" + fn + ("" if fn != "known_properties" else ":" + ctor))
        impl = run_impl(fn, A, via)
        model = parse_model(rep)
        rel = 1e-8 if ctor.startswith("min_max_mean_") else 1e-11
        ft = feats_of(fn, A, stream, via)
        ill = (ft.get("dispersion_ratio", 0) >= 1 - 1e-9 and ft.get("dispersion_ratio", 0) <= 1
               and not ft.get("dispersion_exactly_maximal", False))
        if ill and impl[0] == "ok" and model[0] == "ok" and impl[1] != "parametric":
            # within rounding of maximal dispersion the exact bound is a discontinuous function of the inputs (it jumps to
            # the two-point law on {min,max}); no binary64 evaluation can follow the exact model there.  Compared on
            # outcome kind only; the oracle below still checks enclosure and non-vacuity of what the code returns.
            ctx.bump("tie:ill-conditioned(kind only)")
            ctx.tie_ok()
        elif agrees(impl, model, in_scale(A), rel, 1 if ctor.startswith("min_max_mean_") else 0):
            ctx.tie_ok()
        else:
            ctx.tie_bad(stream, {"fn": fn, "args": _ja(A), "via": via}, _ji(impl), _ji(model))
        ctx.bump("impl:" + (impl[1] if impl[0] == "err" else "value"))
        if adm:
            call = {"fn": fn, "args": _ja(A), "via": via}
            oracle(ctx, ctor, E, impl, nl, rng_for(ctx, key), call, feats_of(fn, A, stream, via))
        if adm and idx in SCALE_BASE and SCALE_BASE[idx][3] and not ill:
            bfn, B, sc, _ = SCALE_BASE[idx]
            bk = (bfn, tuple(sorted(B.items())))
            if bk not in base_cache:
                base_cache[bk] = run_impl(bfn, B, "direct")
            ref = base_cache[bk]
            if ref[0] == "ok" and impl[0] == "ok" and impl[1] != "parametric":
                ctx.bump("scale:homogeneity-checked")
                bs = max(abs(float(v)) for v in B.values()) or 1.0
                for side, xs, ys in (("left", impl[1], ref[1]), ("right", impl[2], ref[2])):
                    bad = next((k for k, (x, y) in enumerate(zip(xs, ys))
                                if abs(x / sc - y) > 1e-9 * max(bs, abs(y))), None)
                    if bad is not None:
                        ctx.fail(dict(feats_of(fn, A, stream, via), symptom="scale-dependent", side=side),
                                 dict(call, base=_ja(B), scale=sc, step=bad, bound=xs[bad], scaled_base_bound=ys[bad] * sc),
                                 f"{call}: the specification is {sc!r} times {bfn}{_ja(B)} (a power of two, so every operation "
                                 f"commutes with the scaling) but the {side} bound of step {bad} is {xs[bad]!r}, not "
                                 f"{sc!r} x {ys[bad]!r} = {ys[bad] * sc!r}")
                        break
        if len(ctx.samples) < 6 and stream in ("grid", "random", "dispatch-valid") and impl[0] == "ok" and impl[1] != "parametric":
            ctx.sample({"stream": stream, "fn": fn, "args": _ja(A), "left[0,1,100,199]": [impl[1][i] for i in (0, 1, 100, 199)],
                        "right[0,1,100,199]": [impl[2][i] for i in (0, 1, 100, 199)]})
    grid_stream(ctx)
    fp_state_stream(ctx)


GRIDS = (100, 40, 300, 400)
# constructors whose unchanged code reads the discretisation at call time; the closed-form ones take `steps=Params.steps`
# as a default argument (bound at import) — see KF-C10-closed-form-ignores-configured-steps
GRID_STEPS_ONLY = ("min_max", "min_max_mean_std", "min_max_mean_var")


def grid_stream(ctx):
    """practice P(ii): the public discretisation Params.steps / Params.p_values set to another value, used, set back.
    A p-box built under the changed grid must have the configured number of steps and satisfy the law oracle AT THAT
    GRID (levels strictly inside (k/n,(k+1)/n)); results after restoring must equal the ones before."""
    global N
    from pyuncertainnumber.pba.params import Params
    rng = ctx.rng
    d_steps, d_pv = Params.steps, Params.p_values
    specs = []
    for fn in FUNS:
        ws = [dict(A) for f2, A in WITNESS if f2 == fn and not any(float(v) == 0 for k, v in A.items() if k in ("std", "var"))]
        specs.append((fn, {k: float(v) for k, v in ws[0].items()}))
        specs.append((fn, {k: float(v) for k, v in gen_valid(rng, fn, True).items()}))
    specs += [("min_max_mean_std", dict(minimum=0.0, maximum=10.0, mean=3.0, std=2.0)),
              ("min_max_mean_std", dict(minimum=-4.0, maximum=4.0, mean=1.0, std=1.5)),
              ("min_max_mean_var", dict(minimum=0.0, maximum=10.0, mean=3.0, var=4.0))]
    before = [run_impl(fn, A) for fn, A in specs]
    grids = [100] + rng.sample([g for g in GRIDS if g != 100], ctx.scale(2, 3))
    for n in grids:
        for mode in ("steps+p_values", "steps"):
            try:
                Params.steps = n
                if mode == "steps+p_values":
                    Params.p_values = np.linspace(Params.p_lboundary, Params.p_hboundary, n)
                N = n
                for fn, A in specs:
                    if mode == "steps" and fn not in GRID_STEPS_ONLY:
                        continue
                    via_kp = rng.random() < 0.3
                    call_fn = "known_properties" if via_kp else fn
                    key = (call_fn, tuple(sorted(A.items())), n, mode)
                    E = {k: F(v) for k, v in A.items()}
                    if not admissible(fn, E):
                        continue
                    ctx.count(key, nontrivial=True, stream="grid")
                    impl = run_impl(call_fn, A)
                    ft = dict(feats_of(call_fn, A, "grid", "direct"), grid=n, grid_mode=mode)
                    call = {"fn": call_fn, "args": _ja(A), "via": "direct", "Params.steps": n, "set": mode}
                    oracle(ctx, fn, E, impl, ctx.scale(6, 12), rng_for(ctx, key), call, ft)
            finally:
                Params.steps, Params.p_values = d_steps, d_pv
                N = 200
    after = [run_impl(fn, A) for fn, A in specs]
    for (fn, A), b, a in zip(specs, before, after):
        if a != b:
            ctx.fail({"call": fn, "constructor": fn, "stream": "grid", "symptom": "state-leak"},
                     {"fn": fn, "args": _ja(A)}, f"{fn}{_ja(A)}: result after Params.steps/p_values were changed and restored differs from the result before")


def fp_state_stream(ctx):
    """practice P(i): the same calls under np.errstate(all='raise') and under warnings-as-errors give the same value
    as under the default settings, or raise — never a different value; and the default result is unchanged afterwards"""
    import warnings
    rng = ctx.rng
    specs = [(fn, dict(A)) for fn, A in WITNESS] + [(fn, gen_valid(rng, fn, rng.random() < 0.5)) for fn in FUNS for _ in range(ctx.scale(1, 6))]
    for fn, A in specs:
        call_fn = "known_properties" if rng.random() < 0.3 else fn
        r0 = run_impl(call_fn, A)
        results = {}
        with np.errstate(all="raise"):
            results["np.errstate(all='raise')"] = run_impl(call_fn, A)
        with warnings.catch_warnings():
            warnings.simplefilter("error")
            results["warnings.simplefilter('error')"] = run_impl(call_fn, A)
        results["afterwards"] = run_impl(call_fn, A)
        ctx.count((call_fn, tuple(sorted((k, str(v)) for k, v in A.items())), "fp-state"), nontrivial=True, stream="fp-state")
        for state, r in results.items():
            same = (r == r0)
            if same or (state != "afterwards" and r[0] == "err" and r0[0] == "ok"):
                continue
            ctx.fail({"call": call_fn, "constructor": feats_of(call_fn, A, "fp-state", "direct")["constructor"], "stream": "fp-state",
                      "symptom": "state-dependent-value"},
                     {"fn": call_fn, "args": _ja(A), "state": state, "default": _ji(r0), "under_state": _ji(r)},
                     f"{call_fn}{_ja(A)}: under {state} the result differs from the one under the default settings")


def rng_for(ctx, key):
    import random
    return random.Random(f"{ctx.seed}:{key}")


def _ja(A):
    return {k: (v if isinstance(v, (int, str)) else float(v)) for k, v in A.items()}


def _ji(t):
    if t is None:
        return None
    out = []
    for x in t:
        if isinstance(x, list):
            out.append([float(y) for y in x][:4] + ["..."] + [float(y) for y in x][-3:])
        else:
            out.append(x)
    return out


def replay(obj):
    core.stub_moments()
    patch_parametric()
    c = obj.get("case", {})
    if "fn" not in c:
        print(json.dumps(obj, indent=1))
        return 0
    fn, A, via = c["fn"], c["args"], c.get("via", "direct")
    impl = run_impl(fn, A, via)
    rep = core.model_batch("C10", [wire(fn, A)])[0]
    print("case  :", fn, A, via)
    print("impl  :", _ji(impl))
    print("model :", _ji(parse_model(rep)))
    print("what  :", obj.get("what"))
    return 0
