"""C02 — default (Frechet) p-box arithmetic bounds every dependence, and tightly.

proof  : Pun.Props.C02 (counting core, left/right validity for every permutation coupling, tightness by the
         extremal anti-diagonal coupling, sortedness, list-model bridge)
tie    : raw `frechet_op`/`naive` on duck-typed operands of any small n; public `add/sub/mul/div(…,'f')` and bare
         operators at n = 200, against `Pun.PBox.binop`
oracle : exact Fractions — selections x couplings -> k-th smallest outcome inside k-th step; extremal couplings
         attain the bounds (after reducing sub/div/negative operands to the monotone case); Frechet encloses p/o/i
"""
from __future__ import annotations
import itertools, math
from fractions import Fraction as F
import numpy as np
from . import core, pbx
from .pbx import FOPS, fr


def impl_raw(rule, op, x, y, int_dtype=False):
    from pyuncertainnumber.pba import operation as O
    fn = {"frechet": O.frechet_op, "naive": O.new_vectorised_naive_frechet_op}[rule]
    try:
        return pbx.canon_pair(fn(pbx.duck(*x, int_dtype=int_dtype), pbx.duck(*y, int_dtype=int_dtype), pbx.PYOPS[op]))
    except BaseException as e:  # noqa
        return ("err", core.err_kind(e))


KEEP = []     # (real result, canonical value when produced, description, operands + their snapshots)


KOBJ = {}          # public-kinds stream: case id -> (left object, right object) of other operand kinds


def _kind_operand(rng, kind, sign):
    """an operand of the given kind and its p-box (left[], right[]) as the library itself converts it"""
    import warnings
    import pyuncertainnumber.pba as pba
    from pyuncertainnumber.pba.intervals.number import Interval
    if kind == "P":
        b = pbx.int_box200(rng, sign)
        return pbx.stair(*b), b
    if kind == "I":
        lo = {"pos": rng.choice([1, 2, 10]), "neg": rng.choice([-12, -5, -3]), "str": rng.choice([-3, -1])}[sign]
        hi = lo + rng.choice([1, 2]) if sign != "str" else rng.choice([1, 2, 4])
        return Interval(lo, hi), ([float(lo)] * 200, [float(hi)] * 200)
    # Dempster-Shafer structure: 2..5 focal elements (nested, overlapping, disjoint, unordered), unequal dyadic masses
    k = rng.choice([2, 3, 4, 5])
    off = {"pos": 1, "neg": -20, "str": -6}[sign]
    foc = []
    for _ in range(k):
        a = off + rng.choice(range(0, 9)); b = a + rng.choice(range(0, 6))
        if sign == "neg":
            b = min(b, -1); a = min(a, b)
        foc.append([a, b])
    w = [rng.choice([1, 1, 2, 3, 5]) for _ in range(k)]
    tot = sum(w)
    with warnings.catch_warnings():
        warnings.simplefilter("ignore")
        D = pba.DSS(foc, [v / tot for v in w])
        P = D.to_pbox()
    return D, ([float(v) for v in P.left], [float(v) for v in P.right])


def impl_kinds(op, key):
    """bare operator between operands of mixed kinds (Interval / DempsterShafer / p-box on either side)"""
    import warnings
    L, R = KOBJ[key]
    try:
        with warnings.catch_warnings():
            warnings.simplefilter("ignore")
            return pbx.canon_pb(pbx.PYOPS[op](L, R))
    except BaseException as e:  # noqa
        return ("err", core.err_kind(e))


def impl_public(op, dep, x, y, bare=False, int_dtype=False, keep=True, y_interval=False, wmode="ignore", ambient=None):
    """wmode="error": the call is made with warnings escalated to errors and numpy floating-point errors raising"""
    import warnings, contextlib
    try:
        with warnings.catch_warnings(), (np.errstate(all="raise") if wmode == "error" else contextlib.nullcontext()):
            warnings.simplefilter(wmode)
            X = pbx.stair(*x, int_dtype=int_dtype)
            if y_interval:        # the second operand handed over as an Interval OBJECT (converted by the method)
                from pyuncertainnumber.pba.intervals.number import Interval
                Y = Interval(y[0][0], y[1][0])
                sx, sy = pbx.canon_pb(X), ("ok", [float(Y.lo)], [float(Y.hi)])
            else:
                Y = pbx.stair(*y, int_dtype=int_dtype)
                sx, sy = pbx.canon_pb(X), pbx.canon_pb(Y)
            if ambient is not None:           # the explicit method called inside a block of ANOTHER ambient code
                import pyuncertainnumber.pba as _pba
                with _pba.dependency(ambient):
                    r = getattr(X, op)(Y, dependency=dep)
            elif bare:
                r = pbx.PYOPS[op](X, Y)
            else:
                r = getattr(X, op)(Y, dependency=dep)
        c = pbx.canon_pb(r)
        if keep and len(KEEP) < 400:
            KEEP.append((r, c, (op, dep), (X, sx), (Y, sy)))
        return c
    except BaseException as e:  # noqa
        return ("err", core.err_kind(e))


def strict_mode_check(ctx, prop, stream, op, dep, x, y, impl, rerun):
    """GLOBAL STATE: the same call under `warnings.simplefilter('error')` + `np.errstate(all='raise')` must either raise
    (an escalated warning propagating is fine) or return the SAME value — never another value (a swallowed warning that
    makes the code take a different branch)"""
    if impl[0] != "ok" or ctx.rng.random() > (0.5 if op in ("mul", "div") else 0.15):
        return
    strict = rerun()
    ctx.bump("strict-mode:" + ("raised" if strict[0] == "err" else "value"))
    if strict[0] == "ok" and strict != impl:
        k = next((i for i in range(len(impl[1])) if impl[1][i] != strict[1][i] or impl[2][i] != strict[2][i]), 0)
        ctx.fail({"op": op, "dep": dep, "check": "strict-mode", "symptom": "value-differs-under-warnings-as-errors",
                  "sx": pbx.sign_class(*x)[:3], "sy": pbx.sign_class(*y)[:3], "public": True, "n": len(x[0])},
                 {"stream": stream, "op": op, "dep": dep, "x": [x[0][0], x[0][-1], x[1][0], x[1][-1]], "y": [y[0][0], y[0][-1], y[1][0], y[1][-1]],
                  "step": k, "default": [impl[1][k], impl[2][k]], "strict": [strict[1][k], strict[2][k]]},
                 f"{op} under {dep}: with warnings escalated to errors the call returns a DIFFERENT p-box (step {k}: "
                 f"[{strict[1][k]}, {strict[2][k]}] instead of [{impl[1][k]}, {impl[2][k]}]) — an escalated warning was swallowed and another branch taken")


def ambient_check(ctx, stream, op, dep, x, y, impl, rerun):
    """the Frechet result requested EXPLICITLY does not depend on the ambient dependency setting"""
    both = op in ("mul", "div") and pbx.sign_class(*x)[:3] == "str" and (pbx.sign_class(*y)[:3] == "str" or op == "div")
    if impl[0] != "ok" or ctx.rng.random() > (1.0 if both else 0.1):
        return
    amb = ctx.rng.choice(["p", "i"] if both else ["p", "o", "i"])
    inside = rerun(amb)
    ctx.bump("explicit-f-inside-" + amb)
    if inside != impl:
        ctx.fail({"op": op, "dep": dep, "check": "ambient", "symptom": "explicit-frechet-depends-on-ambient", "ambient": amb,
                  "sx": pbx.sign_class(*x)[:3], "sy": pbx.sign_class(*y)[:3], "public": True, "n": len(x[0])},
                 {"stream": stream, "op": op, "ambient": amb, "x": [x[0][0], x[0][-1], x[1][0], x[1][-1]], "y": [y[0][0], y[0][-1], y[1][0], y[1][-1]],
                  "outside": pbx.js(impl), "inside": pbx.js(inside)},
                 f"x.{op}(y, dependency='f') called inside `with dependency('{amb}')` differs from the same call outside: "
                 f"the default (Frechet) bounds no longer bound every dependence")


class _Probe(Exception):
    pass


def leaked_ambient_check(ctx, stream, op, x, y, impl, idt):
    """STATE LEFT BY AN EARLIER CALL: an exception raised inside `with dependency(d)` and caught by the caller must not
    leave the ambient code behind — the bare operator used afterwards is still the default (Frechet) one.  Run in a copy of
    the context so that a leak does not poison the rest of the harness."""
    if impl[0] != "ok" or ctx.rng.random() > 0.12:
        return
    import contextvars
    import pyuncertainnumber.pba as _pba
    amb = ctx.rng.choice(["p", "o", "i"])

    def body():
        try:
            with _pba.dependency(amb):
                raise _Probe()
        except _Probe:
            pass
        return impl_public(op, "f", x, y, True, int_dtype=idt, keep=False)
    after = contextvars.copy_context().run(body)
    ctx.bump("bare-after-exception-inside-" + amb)
    if after != impl:
        ctx.fail({"op": op, "dep": "f", "check": "ambient-leak", "symptom": "bare-operator-not-frechet-after-exception-in-block", "ambient": amb,
                  "sx": pbx.sign_class(*x)[:3], "sy": pbx.sign_class(*y)[:3], "public": True, "n": len(x[0])},
                 {"stream": stream, "op": op, "ambient": amb, "x": [x[0][0], x[0][-1], x[1][0], x[1][-1]], "y": [y[0][0], y[0][-1], y[1][0], y[1][-1]],
                  "frechet": pbx.js(impl), "after": pbx.js(after)},
                 f"after an exception raised inside `with dependency('{amb}')` was caught by the caller, the bare operator {op} no longer "
                 f"returns the default (Frechet) bounds: the ambient code was left behind")


def recheck_kept(ctx, prop):
    """results produced earlier must still read the same (no shared work buffers / aliasing), operands unchanged"""
    n = 0
    for r, c0, (op, dep), (X, sx), (Y, sy) in KEEP:
        n += 1
        if pbx.canon_pb(r) != c0:
            ctx.fail({"op": op, "dep": dep, "check": "sequence", "symptom": "result-changed-later"},
                     {"op": op, "dep": dep, "when_produced": pbx.js(c0), "read_again_later": pbx.js(pbx.canon_pb(r))},
                     f"the p-box returned by {op}/{dep} changed after later operations: results share memory")
            break
        cy = pbx.canon_pb(Y) if hasattr(Y, "left") and not hasattr(Y, "lo_is_interval") and Y.__class__.__name__ != "Interval" else ("ok", [float(Y.lo)], [float(Y.hi)])
        if pbx.canon_pb(X) != sx or cy != sy:
            ctx.fail({"op": op, "dep": dep, "check": "sequence", "symptom": "operand-mutated"}, {"op": op, "dep": dep},
                     f"an operand of {op}/{dep} was modified by the operation")
            break
    ctx.bump("results-reread-later", n)
    KEEP.clear()


# ---- oracle -------------------------------------------------------------------------
def selections(rng, l, r, k):
    n = len(l)
    out = [list(l), list(r)]
    for _ in range(k):
        out.append([rng.choice([l[i], r[i], (l[i] + r[i]) / 2]) for i in range(n)])
    return out


def couplings(rng, n, k, exhaustive=False):
    if exhaustive:
        return [list(p) for p in itertools.permutations(range(n))]
    out = [list(range(n)), list(range(n - 1, -1, -1))]
    for _ in range(k):
        p = list(range(n)); rng.shuffle(p); out.append(p)
    # anti-diagonal block couplings for a couple of ranks
    for i in {0, n // 2, n - 1}:
        out.append([i - m if m <= i else m for m in range(n)])
        out.append([n - 1 + i - m if m >= i else m for m in range(n)])
    return out


def check_validity(rng, op, x, y, res, exhaustive=False, nsel=2, ncoup=2):
    """property as stated: one value per step of each operand, any coupling -> k-th smallest inside k-th step"""
    (l1, r1), (l2, r2) = (fr(x[0]), fr(x[1])), (fr(y[0]), fr(y[1]))
    n = len(l1)
    if op == "div" and any(a <= 0 <= b for a, b in zip(l2, r2)):
        return None
    resL, resR = fr(res[1]), fr(res[2])
    scale = max([abs(v) for v in resL + resR] + [1])
    f = FOPS[op]
    for sx in selections(rng, l1, r1, nsel):
        for sy in selections(rng, l2, r2, nsel):
            if op == "div" and any(v == 0 for v in sy):
                continue
            for sg in couplings(rng, n, ncoup, exhaustive):
                k = pbx.order_stats_inside([f(sx[m], sy[sg[m]]) for m in range(n)], resL, resR, scale)
                if k is not None:
                    return {"rank": k, "coupling": sg if n <= 8 else "perm(n=%d)" % n,
                            "sel_x": [float(v) for v in sx][:8], "sel_y": [float(v) for v in sy][:8]}
    return None


def to_monotone(op, x, y, res):
    """reduce to (opm, X', Y', res') with opm monotone increasing in both arguments on the operands"""
    X, Y, R = (fr(x[0]), fr(x[1])), (fr(y[0]), fr(y[1])), (fr(res[1]), fr(res[2]))
    if op == "add":
        return "add", X, Y, R
    if op == "sub":
        return "add", X, pbx.neg_box(*Y), R
    if op == "div":
        if not (min(Y[0]) > 0 or max(Y[1]) < 0):
            return None
        Y = pbx.recip_box(*Y)
    flip = False
    if min(X[0]) >= 0:
        pass
    elif max(X[1]) <= 0:
        X = pbx.neg_box(*X); flip = not flip
    else:
        return None
    if min(Y[0]) >= 0:
        pass
    elif max(Y[1]) <= 0:
        Y = pbx.neg_box(*Y); flip = not flip
    else:
        return None
    if flip:
        R = pbx.neg_box(*R)
    return "mul", X, Y, R


def check_tight(rng, op, x, y, res, ranks=None):
    m = to_monotone(op, x, y, res)
    if m is None:
        return None
    opm, X, Y, R = m
    f = FOPS[opm]
    n = len(X[0])
    scale = max([abs(v) for v in R[0] + R[1]] + [1])
    if ranks is None:
        ranks = sorted({0, 1 % n, n // 2, max(n - 2, 0), n - 1} | {rng.randrange(n) for _ in range(3)})
    a, b, A, B = X[0], Y[0], X[1], Y[1]
    for i in ranks:
        zl = sorted([f(a[m_], b[i - m_]) if m_ <= i else f(a[m_], b[m_]) for m_ in range(n)])
        if not (pbx.tol_le(zl[i], R[0][i], scale) and pbx.tol_le(R[0][i], zl[i], scale)):
            return {"bound": "left", "rank": i, "attained": float(zl[i]), "reported": float(R[0][i])}
        zr = sorted([f(A[m_], B[n - 1 + i - m_]) if m_ >= i else f(A[m_], B[m_]) for m_ in range(n)])
        if not (pbx.tol_le(zr[i], R[1][i], scale) and pbx.tol_le(R[1][i], zr[i], scale)):
            return {"bound": "right", "rank": i, "attained": float(zr[i]), "reported": float(R[1][i])}
    return None


def check_encloses(fres, dres):
    fl, frr, dl, dr = fr(fres[1]), fr(fres[2]), fr(dres[1]), fr(dres[2])
    scale = max([abs(v) for v in fl + frr] + [1])
    for k in range(len(fl)):
        if not (pbx.tol_le(fl[k], dl[k], scale) and pbx.tol_le(dr[k], frr[k], scale)):
            return k
    return None


# ---- cases --------------------------------------------------------------------------------
def gen_cases(ctx):
    rng = ctx.rng
    cases = []
    # stream 1: raw rules on small n (index arithmetic exercised exhaustively for n<=2)
    for n in (1, 2):
        bs = pbx.small_boxes(n)
        pairs = list(itertools.product(bs, bs))
        if n == 2:
            rng.shuffle(pairs); pairs = pairs[: ctx.scale(1500, len(pairs))]
        for x, y in pairs:
            cases.append(("raw-small", "frechet", "add", x, y))
    for _ in range(ctx.scale(1200, 40000)):
        n = rng.choice([3, 3, 4, 5, 6])
        op = rng.choice(["add", "add", "mul"])
        sg = "pos" if op == "mul" else None
        cases.append(("raw-small", "frechet", op, pbx.rand_small_box(rng, n, sign=sg), pbx.rand_small_box(rng, n, sign=sg)))
    for _ in range(ctx.scale(300, 5000)):
        n = rng.choice([2, 3, 4])
        cases.append(("raw-naive", "naive", "mul", pbx.rand_small_box(rng, n, sign=rng.choice([None, "str", "neg"])),
                      pbx.rand_small_box(rng, n, sign=rng.choice([None, "str", "pos"]))))
    # stream 2: public API at n = 200
    signs = ["pos", "neg", "str", None, "pos0", "neg0"]
    # integer-dtype operand (as Staircase(left=[1,2,..]) gives) against a half-integer operand: exact in binary64
    for _ in range(ctx.scale(16, 400)):
        op = rng.choice(["add", "sub", "mul", "div"])
        sx, sy = rng.choice(["pos", "neg"] if op == "div" else signs), rng.choice(["pos", "neg"] if op == "div" else signs)
        x = pbx.int_box200(rng, sx)
        l2, r2 = pbx.int_box200(rng, sy)
        y = ([v + (0.5 if sy != "neg" else -0.5) for v in l2], [v + (0.5 if sy != "neg" else -0.5) for v in r2])
        cases.append(("public-intdtype", "public", op, x, y) if rng.random() < 0.5 else ("public-intdtype", "public", op, y, x))
    for _ in range(ctx.scale(120, 3000)):
        n = rng.choice([2, 3, 4])
        x = pbx.rand_small_box(rng, n, sign=rng.choice([None, "pos"]))
        l2, r2 = pbx.rand_small_box(rng, n, sign="pos")
        y = ([v + 0.5 for v in l2], [v + 0.5 for v in r2])
        cases.append(("raw-intdtype", "frechet", rng.choice(["add", "mul"]) if min(x[0]) >= 0 else "add", x, y))
    for _ in range(ctx.scale(40, 1500)):
        op = rng.choice(["add", "sub", "mul", "div"])
        sx, sy = rng.choice(signs), rng.choice(signs)
        if op == "div" and sy in ("str", None, "pos0", "neg0"):
            sy = rng.choice(["pos", "neg"])
        x, y = pbx.int_box200(rng, sx), pbx.int_box200(rng, sy)
        cases.append(("public-int", "public", op, x, y))
    # both operands straddling zero (the Balch branch of the product), also called inside foreign ambient blocks
    for _ in range(ctx.scale(6, 120)):
        cases.append(("public-int", "public", "mul", pbx.int_box200(rng, "str"), pbx.int_box200(rng, "str")))
    # second operand handed over as an Interval OBJECT (every sign class, incl. straddling x straddling)
    for _ in range(ctx.scale(24, 600)):
        op = rng.choice(["add", "sub", "mul", "mul", "div"])
        sx = rng.choice(signs)
        lo = rng.choice([-3, -2, -1, 0, 1, 2]); hi = lo + rng.choice([0, 1, 2, 3])
        if op == "div" and lo <= 0 <= hi:
            lo, hi = 1, 1 + (hi - lo)
        cases.append(("public-ivlobj", "public", op, pbx.int_box200(rng, sx), ([lo] * 200, [hi] * 200)))
    # the same integer step boxes at other magnitudes (powers of two: still exact)
    for _ in range(ctx.scale(30, 600)):
        op = rng.choice(["add", "sub", "mul", "div", "div"])
        sx, sy = rng.choice(signs), rng.choice(signs)
        if op == "div" and sy in ("str", None, "pos0", "neg0"):
            sy = rng.choice(["pos", "neg"])
        s1, s2 = (rng.choice([2.0 ** -30, 2.0 ** -24, 2.0 ** -60, 2.0 ** -70, 2.0 ** 36]) for _ in range(2))
        if op in ("add", "sub"):
            s2 = s1
        x, y = pbx.int_box200(rng, sx), pbx.int_box200(rng, sy)
        cases.append(("public-scaled", "public", op, ([v * s1 for v in x[0]], [v * s1 for v in x[1]]),
                      ([v * s2 for v in y[0]], [v * s2 for v in y[1]])))
    # operands of other kinds on either side of the bare operator: Interval objects and Dempster-Shafer structures
    # (each is converted by the library; the Frechet law is about the p-boxes they stand for)
    KOBJ.clear()
    for i in range(ctx.scale(40, 600)):
        op = rng.choice(["add", "sub", "sub", "mul", "div", "div"])
        lk, rk = rng.choice([("I", "D"), ("I", "D"), ("D", "I"), ("P", "D"), ("D", "P"), ("D", "D"), ("I", "P")])
        sx = rng.choice(["pos", "neg", "str"])
        sy = rng.choice(["pos", "neg"]) if op == "div" else rng.choice(["pos", "neg", "str"])
        L, x = _kind_operand(rng, lk, sx)
        R, y = _kind_operand(rng, rk, sy)
        KOBJ[i] = (L, R)
        cases.append((f"public-kinds:{lk}{rk}:{i}", "public", op, x, y))
    for _ in range(ctx.scale(24, 600)):
        op = rng.choice(["add", "sub", "mul", "div"])
        sx, sy = rng.choice(signs), rng.choice(signs)
        if op == "div" and sy in ("str", None, "pos0", "neg0"):
            sy = rng.choice(["pos", "neg"])
        l1, r1, k1 = pbx.lib_box200(rng, sx)
        l2, r2, k2 = pbx.lib_box200(rng, sy)
        cases.append(("public-lib:" + k1 + "," + k2, "public", op, (l1, r1), (l2, r2)))
    return cases


def wire(c):
    stream, rule, op, x, y = c
    if rule == "public":
        return f"bin {len(x[0])} {op} f {pbx.wire_pb(*x)} {pbx.wire_pb(*y)}"
    return f"raw {rule} {op} {pbx.wire_pb(*x)} {pbx.wire_pb(*y)}"


def _gen_frechet():
    from .translator import frechet
    return frechet.generate(core.REPO, core.LEAN / "Pun/Gen/FrechetGen.lean")


def _gen_corners():
    from .translator import frechet
    return frechet.generate_corners(core.REPO, core.LEAN / "Pun/Gen/CornersGen.lean")


def run(ctx: core.Check):
    core.stub_moments()
    ctx.rule = ("raw frechet_op / naive rule on duck-typed operands: exhaustive 5-value grid boxes for n=1,2, random n=3..6; "
                "public add/sub/mul/div(dependency='f') and bare operators at n=200 on integer step boxes (exact) and boxes from the "
                "library constructors, all sign classes. Non-trivial = operands not both degenerate points; distinct on (rule,op,operands).")
    ctx.assumptions = ["general (non-permutation) couplings are mixtures of permutations (Birkhoff) — cited, not proved",
                       "binary64 rounding not modelled; integer streams agree exactly for + - *, others within ulp tolerance",
                       "moments (LP) are stubbed in the harness process; they are C04's concern"]
    ctx.lean_stage(["Pun.Lemmas.Frechet", "Pun.Lemmas.PBoxList", "Pun.Lemmas.PBoxFrechet", "Pun.Lemmas.PBoxMk", "Pun.Lemmas.PBoxNeg", "Pun.Lemmas.PBoxFrechet2", "Pun.Lemmas.PBoxRecip", "Pun.Props.C02", "Pun.Props.C02Gen", "Pun.Props.C03Gen"],
                   generators=[("operation.frechet_op loop", _gen_frechet), ("operation.perfect/opposite/independent_op corner rules", _gen_corners)])
    cases = gen_cases(ctx)
    replies = core.model_batch("C02", [wire(c) for c in cases])
    rng = ctx.rng
    for c, rep in zip(cases, replies):
        stream, rule, op, x, y = c
        n = len(x[0])
        triv = (n == 1 and x[0] == x[1] and y[0] == y[1])
        ctx.count((rule, op, x, y), not triv, stream.split(":")[0])
        ctx.bump("signs:" + pbx.sign_class(*x) + "x" + pbx.sign_class(*y))
        exact = stream in ("raw-small", "raw-naive", "raw-intdtype") or (stream in ("public-int", "public-intdtype", "public-ivlobj", "public-scaled") and op != "div")
        idt = stream.endswith("intdtype")
        if rule == "public":
            bare = rng.random() < 0.3
            if stream.startswith("public-kinds"):
                impl = impl_kinds(op, int(stream.split(":")[2]))
            else:
                impl = impl_public(op, "f", x, y, bare, int_dtype=idt, y_interval=(stream == "public-ivlobj"))
                if not bare and stream != "public-ivlobj":
                    ambient_check(ctx, stream, op, "f", x, y, impl,
                                  lambda amb: impl_public(op, "f", x, y, False, int_dtype=idt, keep=False, ambient=amb))
                if stream != "public-ivlobj":
                    leaked_ambient_check(ctx, stream, op, x, y, impl, idt)
                strict_mode_check(ctx, "C02", stream, op, "f", x, y, impl,
                                  lambda: impl_public(op, "f", x, y, bare, int_dtype=idt, keep=False,
                                                      y_interval=(stream == "public-ivlobj"), wmode="error"))
        else:
            impl = impl_raw(rule, op, x, y, int_dtype=idt)
        model = pbx.parse_reply(rep)
        if pbx.same(impl, model, exact):
            ctx.tie_ok()
        else:
            ctx.tie_bad(stream, {"rule": rule, "op": op, "x": x, "y": y}, pbx.js(impl), pbx.js(model))
        feat = {"op": op, "dep": "f", "sx": pbx.sign_class(*x)[:3], "sy": pbx.sign_class(*y)[:3], "rule": rule, "n": n}
        case = {"rule": rule, "op": op, "x": x if n <= 8 else "n=200 " + stream, "y": y if n <= 8 else "n=200", "impl": pbx.js(impl)}
        if n > 8:
            case["x_lr"] = [x[0][0], x[0][-1], x[1][0], x[1][-1]]
            case["y_lr"] = [y[0][0], y[0][-1], y[1][0], y[1][-1]]
            case["seed_hint"] = "regenerate with the same VERIF_SEED; stream " + stream
        ctx.sample({"stream": stream, "rule": rule, "op": op, "n": n, "impl": pbx.js(impl)})
        if rule == "naive":
            continue  # building block of the straddling product; validity is checked through the public mul
        if impl[0] == "err":
            if op == "div" and not (min(y[0]) > 0 or max(y[1]) < 0):
                continue  # divisor containing zero: outside the property
            ctx.fail({**feat, "check": "raises", "symptom": "raises:" + impl[1]}, case,
                     f"{op} under Frechet raised {impl[1]} on well-formed operands ({feat['sx']} x {feat['sy']})")
            continue
        mono_ok = (op == "add") or (rule == "public") or (op == "mul" and min(x[0]) >= 0 and min(y[0]) >= 0)
        if not mono_ok:
            continue
        v = check_validity(rng, op, x, y, impl, exhaustive=(n <= 4), nsel=1 if n > 8 else 2, ncoup=2)
        if v is not None:
            ctx.fail({**feat, "check": "validity", "symptom": "outcome-outside-step"}, {**case, "witness": v},
                     f"{op}/f: an order statistic of the outcomes falls outside the result step {v['rank']}")
            continue
        t = check_tight(rng, op, x, y, impl, ranks=list(range(n)) if n <= 8 else None)
        if t is not None:
            ctx.fail({**feat, "check": "tight-" + t["bound"], "symptom": "bound-not-attained"}, {**case, "witness": t},
                     f"{op}/f: {t['bound']} bound at rank {t['rank']} is {t['reported']}, extremal coupling attains {t['attained']}")
            continue
        if rule == "public" and rng.random() < (1.0 if ctx.tier == "thorough" else 0.5):
            for d in ("p", "o", "i"):
                dres = impl_public(op, d, x, y)
                if dres[0] != "ok":
                    continue
                k = check_encloses(impl, dres)
                ctx.bump("encloses-checked")
                if k is not None:
                    ctx.fail({**feat, "check": "encloses-" + d, "symptom": "not-enclosed"}, {**case, "dep_result": pbx.js(dres), "step": k},
                             f"{op}: Frechet result does not enclose the result under dependency {d} at step {k}")
                    break
    recheck_kept(ctx, "C02")
