"""shared helpers for the p-box properties: operands, wire format, canonical results, generators,
and an exact-Fraction semantic toolkit (focal steps, couplings, order statistics)."""
from __future__ import annotations
import math, operator, types, itertools
from fractions import Fraction as F
import numpy as np
from . import core
from .core import q, ql, unq, unql, close, err_kind

PYOPS = {"add": operator.add, "sub": operator.sub, "mul": operator.mul, "div": operator.truediv}
FOPS = {"add": lambda a, b: a + b, "sub": lambda a, b: a - b, "mul": lambda a, b: a * b, "div": lambda a, b: a / b}


def Staircase():
    from pyuncertainnumber.pba.pbox_abc import Staircase as S
    return S


def duck(left, right, int_dtype=False):
    """operand for the raw combination rules: only .left/.right/.steps are read"""
    if int_dtype and all(float(v).is_integer() for v in list(left) + list(right)):
        return types.SimpleNamespace(left=np.array([int(v) for v in left]), right=np.array([int(v) for v in right]), steps=len(left))
    return types.SimpleNamespace(left=np.array(left, dtype=float), right=np.array(right, dtype=float), steps=len(left))


def stair(left, right, int_dtype=False):
    """int_dtype=True keeps integer-valued bounds as integer arrays (as `Staircase(left=[1, 2, ...])` does)"""
    if int_dtype and all(float(v).is_integer() for v in list(left) + list(right)):
        return Staircase()(left=np.array([int(v) for v in left]), right=np.array([int(v) for v in right]))
    return Staircase()(left=np.array(left, dtype=float), right=np.array(right, dtype=float))


def wire_pb(l, r):
    return f"{ql(l)} {ql(r)}"


def canon_pb(p):
    return ("ok", [float(x) for x in np.asarray(p.left).ravel()], [float(x) for x in np.asarray(p.right).ravel()])


def canon_pair(t):
    return ("ok", [float(x) for x in np.asarray(t[0]).ravel()], [float(x) for x in np.asarray(t[1]).ravel()])


def parse_reply(s):
    t = s.split()
    if t[0] == "err":
        return ("err", t[1])
    if t[0] == "ok":
        return ("ok", unql(t[1]), unql(t[2]))
    return ("bad", s)


def same(impl, model, exact, depth=16):
    """exact: equality of every entry.  general: |impl - model| <= 4*depth*ulp(S), S = largest magnitude in
    either result (bounds near zero come from cancelling larger intermediates, so the tolerance is absolute)"""
    if impl[0] != model[0]:
        return False
    if impl[0] == "err":
        return impl[1] == model[1]
    if impl[0] != "ok":
        return False
    if len(impl[1]) != len(model[1]) or len(impl[2]) != len(model[2]):
        return False
    vi, vm = impl[1] + impl[2], model[1] + model[2]
    if any(isinstance(a, float) and (math.isnan(a) or math.isinf(a)) for a in vi):
        return False
    if exact:
        return all(F(a) == b for a, b in zip(vi, vm))
    S = max([abs(float(a)) for a in vi] + [abs(float(b)) for b in vm] + [1e-300])
    tol = F(4 * depth) * F(core.ulp(S))
    return all(abs(F(a) - b) <= tol for a, b in zip(vi, vm))


def js(t):
    if t is None:
        return None
    if t[0] == "ok":
        l, r = t[1], t[2]
        if len(l) > 12:
            return ["ok", {"n": len(l), "left_head": [float(x) for x in l[:4]], "left_tail": [float(x) for x in l[-2:]],
                           "right_head": [float(x) for x in r[:4]], "right_tail": [float(x) for x in r[-2:]]}]
        return ["ok", [float(x) for x in l], [float(x) for x in r]]
    return list(t)


# ---------------------------------------------------------------------------------
# generators of well-formed p-boxes
def small_boxes(n, grid=(-2, -1, 0, 1, 3)):
    """all (left,right) with sorted entries from `grid`, left<=right pointwise (n small)"""
    sorted_lists = [list(c) for c in itertools.combinations_with_replacement(grid, n)]
    out = []
    for l in sorted_lists:
        for r in sorted_lists:
            if all(a <= b for a, b in zip(l, r)):
                out.append((l, r))
    return out


def rand_small_box(rng, n, lo=-4, hi=6, sign=None):
    pts = sorted(rng.randint(lo, hi) for _ in range(n))
    w = [rng.choice([0, 0, 1, 2, 3]) for _ in range(n)]
    l = pts
    r = sorted(p + x for p, x in zip(pts, w))
    r = [max(a, b) for a, b in zip(l, r)]
    l, r = shift_sign(l, r, sign)
    return l, r


def shift_sign(l, r, sign):
    """translate a box into a sign class: pos / neg (strict), pos0 / neg0 (touching zero: lo == 0 / hi == 0), str"""
    if sign == "pos":
        s = 1 - min(l) if min(l) <= 0 else 0
        return [x + s for x in l], [x + s for x in r]
    if sign == "neg":
        s = -1 - max(r) if max(r) >= 0 else 0
        return [x + s for x in l], [x + s for x in r]
    if sign == "pos0":
        s = -min(l)
        return [x + s for x in l], [x + s for x in r]
    if sign == "neg0":
        s = -max(r)
        return [x + s for x in l], [x + s for x in r]
    if sign == "str":
        m = (min(l) + max(r)) // 2 if isinstance(min(l), int) else (min(l) + max(r)) / 2
        l2, r2 = [x - m for x in l], [x - m for x in r]
        if not (min(l2) < 0 < max(r2)):
            l2 = [x - 1 for x in l2]
            r2 = [x + 1 for x in r2]
        return l2, r2
    return l, r


def int_box200(rng, sign=None, n=200):
    """integer-valued step functions (exact stream): few plateaus, overlapping bounds"""
    k = rng.choice([1, 2, 3, 5, 8, 20])
    cuts = sorted(rng.sample(range(1, n), min(k - 1, n - 1))) if k > 1 else []
    base = sorted(rng.randint(-20, 20) for _ in range(k))
    width = [rng.choice([0, 1, 2, 5]) for _ in range(k)]
    l, r, seg = [], [], 0
    for i in range(n):
        while seg < len(cuts) and i >= cuts[seg]:
            seg += 1
        l.append(base[seg])
        r.append(base[seg] + width[seg])
    r = list(np.maximum.accumulate(r))
    r = [int(x) for x in r]
    return shift_sign(l, r, sign)


def lib_box200(rng, sign=None):
    """boxes from the library's own constructors (general stream): returns (left,right) float lists"""
    from pyuncertainnumber import pba
    kind = rng.choice(["normal", "uniform", "interval", "precise", "dss", "free", "lognormal"])
    try:
        if kind == "normal":
            a = rng.uniform(-5, 5); p = pba.normal([a, a + rng.uniform(0, 2)], [0.5, 0.5 + rng.uniform(0, 1)])
        elif kind == "uniform":
            a = rng.uniform(-5, 5); p = pba.uniform([a, a + 1], [a + 2, a + 2 + rng.uniform(0, 3)])
        elif kind == "interval":
            a = rng.uniform(-5, 5); p = pba.I(a, a + rng.uniform(0, 4)).to_pbox()
        elif kind == "precise":
            a = rng.uniform(-5, 5); p = pba.normal(a, rng.uniform(0.2, 2))
        elif kind == "dss":
            ivs = [[x, x + rng.uniform(0, 2)] for x in [rng.uniform(-4, 4) for _ in range(rng.choice([2, 3, 5]))]]
            p = pba.stacking(ivs)
        elif kind == "free":
            a = rng.uniform(-5, 3); p = pba.min_max_mean(a, a + 4, a + rng.uniform(0.5, 3.5))
        else:
            p = pba.lognormal([0.0, 0.5], [0.2, 0.4])
        l, r = [float(x) for x in p.left], [float(x) for x in p.right]
    except Exception:
        l, r = int_box200(rng)
        l, r = [float(x) for x in l], [float(x) for x in r]
        kind = "int"
    if any(math.isinf(x) or math.isnan(x) for x in l + r):
        l, r = int_box200(rng)
        l, r = [float(x) for x in l], [float(x) for x in r]
    if sign == "pos":
        s = 0.5 - min(l) if min(l) <= 0 else 0.0
        l, r = [x + s for x in l], [x + s for x in r]
    elif sign == "neg":
        s = -0.5 - max(r) if max(r) >= 0 else 0.0
        l, r = [x + s for x in l], [x + s for x in r]
    elif sign == "pos0":
        s = -min(l)
        l, r = [x + s for x in l], [x + s for x in r]
    elif sign == "neg0":
        s = -max(r)
        l, r = [x + s for x in l], [x + s for x in r]
    elif sign == "str":
        m = (min(l) + max(r)) / 2
        l, r = [x - m for x in l], [x - m for x in r]
        if not (min(l) < 0 < max(r)):
            l = [x - 1.0 for x in l]
            r = [x + 1.0 for x in r]
    return l, r, kind


def sign_class(l, r):
    if min(l) >= 0:
        return "pos" if min(l) > 0 else "pos0"
    if max(r) <= 0:
        return "neg" if max(r) < 0 else "neg0"
    return "str"


# ---------------------------------------------------------------------------------
# exact semantic toolkit
def fr(xs):
    return [F(x) for x in xs]


def neg_box(l, r):
    return sorted(-x for x in r), sorted(-x for x in l)


def recip_box(l, r):
    return sorted(1 / x for x in r), sorted(1 / x for x in l)


def ivl_hull(op, a, b, c, d):
    """exact interval combination [a,b] op [c,d]"""
    if op == "add":
        return a + c, b + d
    if op == "sub":
        return a - d, b - c
    if op == "mul":
        v = [a * c, a * d, b * c, b * d]
        return min(v), max(v)
    if op == "div":
        if c <= 0 <= d:
            return None
        v = [a / c, a / d, b / c, b / d]
        return min(v), max(v)


def tol_le(a, b, scale, depth=16):
    """a <= b up to rounding of the implementation (a, b exact Fractions; scale = magnitude)"""
    if a <= b:
        return True
    t = F(4 * depth) * F(core.ulp(float(scale))) + F(1, 10 ** 300)
    return a - b <= t


def order_stats_inside(outcomes, resL, resR, scale):
    """k-th smallest outcome lies inside the k-th result step; returns first violating k or None"""
    z = sorted(outcomes)
    for k, v in enumerate(z):
        if not (tol_le(resL[k], v, scale) and tol_le(v, resR[k], scale)):
            return k
    return None
