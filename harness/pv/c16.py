"""C16 — the ambient dependency setting is scoped, restored and isolated.

proof  : Pun.Props.C16Gen: the `match dependency` tables of add/mul/pow, the swap chains and delegation of sub/div,
         the bare operators' method + dependency argument, Distribution.__pow__, and set/try-yield-finally-reset of
         context.py are re-extracted from the source on every run (translator/dispatch.py) and proved equal to the
         hand model, so the theorems below transfer to what the source says now.
         Pun.Props.C16 (core Lean): restoration for every well-nested history, operator = method o get,
         isolation under EVERY schedule, task copy / thread fresh start, unknown code fails
tie    : real `dependency()` blocks executed by real threads / asyncio tasks / asyncio.to_thread workers,
         stepped in lock-step through enumerated (or sampled) interleavings; after every event
         `get_current_dependency()` (and for arithmetic events the result of the bare operator) is compared
         with `Pun.DepCtx.traceW`; the model names the low-level routine the operator must end in, the
         harness runs that routine.  Explicit methods x code are tied to `Pun.DepCtx.method`.
oracle : independent of the model: structural recursion over the program tree (inside a block = its code,
         after a block = value before it, thread child starts at 'f', task child at the parent's value at
         creation time; none of this depends on the schedule); bare operator == explicit method evaluated
         in a fresh empty Context; unknown code => the operator / method must raise.
"""
from __future__ import annotations
import sys, asyncio, contextvars, operator, threading, itertools, json
import numpy as np
from . import core
from .core import err_kind

KNOWN = ["f", "p", "o", "i"]
# unknown codes: wire token -> python value handed to dependency(...)
UNKNOWN = {"u0": "x", "u1": "F", "u2": "frechet", "u3": "", "u4": None, "u5": 0, "u6": "fp", "u7": " f"}
PYVAL = {**{k: k for k in KNOWN}, **UNKNOWN}
OPS = ["add", "sub", "mul", "div", "pow", "radd", "rsub", "rmul"]
BARE = ["add", "sub", "mul", "div", "pow"]
SYNC_HOWS = ["exit", "return", "raise", "genclose", "genreturn", "genbreak", "genthrow"]
ASYNC_HOWS = SYNC_HOWS + ["agenclose"]
EXIT_TOKEN = {"exit": "X", "return": "X", "raise": "R", "genclose": "C", "genreturn": "C", "genbreak": "C",
              "genthrow": "C", "agenclose": "C"}


def tok_of(v) -> str:
    """wire token of a value returned by get_current_dependency()"""
    for t, pv in PYVAL.items():
        if type(v) is type(pv) and v == pv:
            return t
    return "?" + repr(v)


def _repo():
    from pyuncertainnumber.pba import context as C
    from pyuncertainnumber.pba import pbox_abc as P
    from pyuncertainnumber.pba import operation as O
    return C, P, O


class Boom(Exception):
    pass


class Abort(BaseException):
    pass


# ---------------------------------------------------------------------------------------------------
# operands and arithmetic
def make_operand(desc):
    """desc = ["p", lo[], hi[]] | ["d", intervals, masses] | ["D", family, params] | ["v", lo, hi]"""
    C, P, O = _repo()
    k = desc[0]
    if k == "p":
        return P.Staircase(left=list(desc[1]), right=list(desc[2]))
    if k == "d":
        from pyuncertainnumber.pba.dss import DempsterShafer
        return DempsterShafer(intervals=[list(i) for i in desc[1]], masses=list(desc[2]))
    if k == "D":
        from pyuncertainnumber.pba.distributions import Distribution
        return Distribution(desc[1], tuple(desc[2]))
    if k == "v":
        from pyuncertainnumber.pba.intervals.number import Interval
        return Interval(desc[1], desc[2])
    raise KeyError(k)


# operands that are not p-boxes but dependency-sensitive: every method converts them with convert_pbox
OTHER_KINDS = [["d", [[2, 3], [2.5, 5], [4, 6]], [0.2, 0.5, 0.3]], ["D", "uniform", [2, 3]], ["v", 2, 5],
               ["d", [[1, 2], [1.5, 2.5], [3, 5]], [0.5, 0.25, 0.25]], ["D", "gaussian", [6, 0.5]]]


# sign classes of p-box operands (both bounds): positive, negative, straddling zero (two shapes), touching zero
# from above / from below; and the positive box at a tiny and a huge power-of-two scale
SIGN_BOXES = [("pos", [1, 2, 3], [2, 3, 5]), ("neg", [-5, -3, -2], [-4, -2, -1]), ("str", [-2, -1, 1], [-1, 2, 3]),
              ("str2", [-3, -1, 0.5], [-0.5, 1, 2]), ("t0lo", [0, 1, 2], [1, 2, 4]), ("t0hi", [-4, -2, -1], [-2, -1, 0]),
              ("tiny", [2.0 ** -40, 2.0 ** -39, 3 * 2.0 ** -40], [2.0 ** -39, 3 * 2.0 ** -40, 5 * 2.0 ** -40]),
              ("huge", [2.0 ** 36, 2.0 ** 37, 3 * 2.0 ** 36], [2.0 ** 37, 3 * 2.0 ** 36, 5 * 2.0 ** 36])]
SIGN_CLASSES = ["pos", "neg", "str", "str2", "t0lo", "t0hi"]
SCALE_PAIRS = [("tiny", "tiny"), ("huge", "huge"), ("tiny", "huge"), ("huge", "tiny"), ("pos", "tiny"), ("huge", "pos")]


class Pool:
    def __init__(self, rng, n_extra=2, desc=None):
        C, P, O = _repo()
        if desc is None:
            base = [([1, 2, 3], [2, 3, 5]), ([2, 2.5, 4], [3, 5, 6])]
            for _ in range(n_extra):
                k = rng.choice([2, 3, 4])
                lo = sorted(rng.choice([1, 1.5, 2, 2.5, 3, 4]) for _ in range(k))
                hi = sorted(l + rng.choice([0.5, 1, 1.5, 2]) for l in lo)
                base.append((lo, hi))
            desc = [["p", l, r] for l, r in base] + OTHER_KINDS + [["p", l, r] for _, l, r in SIGN_BOXES]
        self.desc = desc
        self.npos = next(i for i, d in enumerate(desc) if d[0] != "p")     # the leading positive p-boxes
        self.sign = {}                                                      # sign class -> operand index
        tail = len(desc) - len(SIGN_BOXES)
        if all(desc[tail + j][0] == "p" and list(desc[tail + j][1]) == list(b[1]) for j, b in enumerate(SIGN_BOXES)):
            self.sign = {b[0]: tail + j for j, b in enumerate(SIGN_BOXES)}
        self.kind = [d[0] for d in desc]
        self.obj = [make_operand(d) for d in desc]
        # `box` = the operand converted to a p-box (what every method does first), built in an empty Context
        self.box = [contextvars.Context().run(P.convert_pbox, o) for o in self.obj]
        self._explicit = {}
        self._low = {}
        # p-box pairs on which the four dependencies give four different results for every operator
        self.pairs = []
        pb = [i for i, k in enumerate(self.kind) if k == "p" and i < self.npos]
        for xi in pb:
            for yi in pb:
                if xi != yi and all(len({self.explicit(op, xi, yi, d) for d in KNOWN}) == 4 for op in OPS):
                    self.pairs.append((xi, yi))
        self.distinguishing = bool(self.pairs)
        if not self.pairs:      # the code under test no longer separates the four dependencies: still run
            self.pairs = [(xi, yi) for xi in pb for yi in pb if xi != yi]
        # pairs with an operand that is not a p-box: left in {p, d, D}, right in {p, d, D, v}; (v, p) for + - * only
        self.kpairs = []
        for xi, kx in enumerate(self.kind):
            for yi, ky in enumerate(self.kind):
                if xi == yi or (kx == "p" and ky == "p"):
                    continue
                if kx in "pdD" and (xi in pb[:2] or kx != "p") and (yi in pb[:2] or ky != "p"):
                    self.kpairs.append((xi, yi))
                elif kx == "v" and ky == "p" and yi in pb[:2]:
                    self.kpairs.append((xi, yi))

    def kk(self, xi, yi):
        return self.kind[xi] + self.kind[yi]

    def ops_for(self, xi, yi):
        return ["add", "sub", "mul"] if self.kind[xi] == "v" else BARE

    @staticmethod
    def digest(r):
        return ("ok", np.asarray(r.left, dtype=float).tobytes(), np.asarray(r.right, dtype=float).tobytes())

    def bare(self, op, xi, yi):
        """the bare operator, in the CALLER's context"""
        x, y = self.obj[xi], self.obj[yi]
        try:
            if op == "add": r = x + y
            elif op == "sub": r = x - y
            elif op == "mul": r = x * y
            elif op == "div": r = x / y
            elif op == "pow": r = x ** y
            elif op == "radd": r = y.__radd__(x)
            elif op == "rsub": r = y.__rsub__(x)
            elif op == "rmul": r = y.__rmul__(x)
            else: raise KeyError(op)
            return self.digest(r)
        except Exception as e:
            return ("err", err_kind(e))

    def explicit(self, op, xi, yi, code_tok):
        """the explicit method with dependency=code, evaluated in a fresh empty Context"""
        key = (op, xi, yi, code_tok)
        if key not in self._explicit:
            x, y, d = self.box[xi], self.box[yi], PYVAL[code_tok]

            def call():
                try:
                    if op in ("add", "sub", "mul", "div", "pow"): r = getattr(x, op)(y, d)
                    elif op == "radd": r = y.add(x, d)
                    elif op == "rmul": r = y.mul(x, d)
                    elif op == "rsub": r = (-y).add(x, d)
                    return self.digest(r)
                except Exception as e:
                    return ("err", err_kind(e))
            self._explicit[key] = contextvars.Context().run(call)
        return self._explicit[key]

    def prep_error(self, op, xi, yi):
        """the error (if any) of preparing the second operand, which sub / div do before looking at the code"""
        key = ("prep", op, yi)
        if key not in self._low:
            y = self.box[yi]
            try:
                if op in ("sub", "rsub"):
                    -y
                elif op == "div":
                    1 / y
                self._low[key] = None
            except Exception as e:
                self._low[key] = ("err", err_kind(e))
        return self._low[key]

    def explicit_here(self, op, xi, yi, code_tok):
        """the explicit method with dependency=code in the CALLER's context (whatever block it is in)"""
        x, y, d = self.box[xi], self.box[yi], PYVAL[code_tok]
        try:
            return self.digest(getattr(x, op)(y, d))
        except Exception as e:
            return ("err", err_kind(e))

    def explicit_inside(self, op, xi, yi, code_tok, ambient_tok):
        """the explicit method with dependency=code, called inside `with dependency(ambient)` (caller's context)"""
        C, P, O = _repo()
        x, y, d = self.box[xi], self.box[yi], PYVAL[code_tok]
        try:
            with C.dependency(PYVAL[ambient_tok]):
                if op in ("add", "sub", "mul", "div", "pow"): r = getattr(x, op)(y, d)
                elif op == "radd": r = y.add(x, d)
                elif op == "rmul": r = y.mul(x, d)
                else: r = (-y).add(x, d)
            return self.digest(r)
        except Exception as e:
            return ("err", err_kind(e))

    def snapshot(self):
        return [self.digest(b) for b in self.box] + [self.digest(o) for o, k in zip(self.obj, self.kind) if k == "p"]

    def lowlevel(self, xi, yi, call):
        """run the routine the model names: call = 'fam,a,b,branch'"""
        key = (xi, yi, call)
        if key not in self._low:
            C, P, O = _repo()
            fam, a, b, br = call.split(",")
            x, y = self.box[xi], self.box[yi]

            def arg(t):
                return {"x": lambda: x, "y": lambda: y, "negY": lambda: -y, "recY": lambda: 1 / y}[t]()

            def run():
                A, B = arg(a), arg(b)
                S = P.Staircase
                fn = {"perfect": O.perfect_op, "opposite": O.opposite_op, "independent": O.independent_op,
                      "frechet": O.frechet_op}[br]
                if fam == "add":
                    l, r = fn(A, B, operator.add)
                    l.sort(); r.sort()
                    return S(left=l, right=r)
                if fam == "mul":
                    if br == "frechet":
                        return P.frechet_pbox_mul(A, B)
                    l, r = fn(A, B, operator.mul)
                    return S(left=l, right=r)
                if fam == "pow":
                    # pbox_abc.pow (as of 9f531b2): the same four routines as add, with operator.pow, then sort
                    l, r = fn(A, B, operator.pow)
                    l.sort(); r.sort()
                    return S(left=l, right=r)
                raise KeyError(fam)
            try:
                self._low[key] = self.digest(contextvars.Context().run(run))
            except Exception as e:
                self._low[key] = ("err", err_kind(e))
        return self._low[key]


# ---------------------------------------------------------------------------------------------------
# programs.  item := ("get",) | ("arith", op, xi, yi) | ("spawn", child) | ("gopen", code) | ("gcloseat", k)
#                  | ("block", code, how, body, prop)
MEXIT_TOKEN = {"with": "X", "withraise": "R", "dunder": "X", "dunderexc": "R", "stack": "X", "deco": "X"}
SYNC_MHOWS = ["with", "withraise", "dunder", "dunderexc", "stack", "deco"]
ASYNC_MHOWS = ["with", "withraise", "dunder", "dunderexc", "stack"]


def body_of(it):
    """the list of items executed inside a block-like item (None for atoms)"""
    if it[0] in ("block", "mblock"):
        return it[3]
    if it[0] == "mstack":
        return it[2]
    return None


def flatten(prog, kinds):
    """event tokens of one actor, in the order the interpreter takes its turns"""
    out = []

    def go(items):
        for it in items:
            k = it[0]
            if k == "get": out.append("G")
            elif k == "arith":
                op = "powD" if (it[1] == "pow" and len(it) > 4 and it[4][0] == "D") else it[1]
                out.append("A:" + op + (":" + it[4] if len(it) > 4 else ""))
            elif k == "call": out.append("Q:%s:%s" % (it[1], it[4]))
            elif k == "spawn": out.append(("T:" if kinds[it[1]] in ("thread", "loop") else "K:") + str(it[1]))
            elif k == "gopen_shared": out.append("E:" + it[2])
            elif k == "gclose_foreign": out.append("F")
            elif k == "gopen": out.append("E:" + it[1])
            elif k == "gcloseat": out.append("N:%d" % it[1])
            elif k == "build": out.append("B:%d:%s" % (it[1], it[2]))
            elif k == "mblock":
                out.append("M:%d" % it[1]); go(it[3]); out.append(MEXIT_TOKEN[it[2]])
            elif k == "mstack":
                out.extend("M:%d" % m for m in it[1]); go(it[2]); out.extend("X" for _ in it[1])
            else:
                out.append("E:" + it[1]); go(it[3])
                n = count_shared(it[3])     # generators handed to another actor are still suspended inside this block:
                out.append(EXIT_TOKEN[it[2]] if n == 0 else "N:%d" % n)   # its own token is n levels down
    go(prog)
    return out


def count_shared(items):
    return sum((1 if it[0] == "gopen_shared" else 0) + (count_shared(body_of(it)) if body_of(it) is not None else 0)
               for it in items)


def manager_codes(world):
    mc = {}

    def go(items):
        for it in items:
            if it[0] == "build":
                mc[it[1]] = it[2]
            elif body_of(it) is not None:
                go(body_of(it))
    for a in world["actors"]:
        go(a["prog"])
    return mc


def expectation(world):
    """oracle: per actor the list of (expected code token | None, event description); schedule independent"""
    kinds = {a["id"]: a["kind"] for a in world["actors"]}
    init = {0: "f"}
    res = {}
    mcode = manager_codes(world)
    for a in world["actors"]:
        out = []
        lifo = [True]

        def go(items, cur, depth):
            for it in items:
                k = it[0]
                if k == "get": out.append((cur, {"ev": "get", "depth": depth}))
                elif k == "arith": out.append((cur, {"ev": "arith", "op": it[1], "xi": it[2], "yi": it[3], "depth": depth,
                                                     "kk": it[4] if len(it) > 4 else "pp"}))
                elif k == "call":
                    out.append((cur, {"ev": "call", "op": it[1], "xi": it[2], "yi": it[3], "code": it[4], "depth": depth}))
                elif k == "spawn":
                    out.append((cur, {"ev": "spawn", "depth": depth}))
                    init[it[1]] = "f" if kinds[it[1]] in ("thread", "loop") else cur
                elif k in ("gopen", "gcloseat", "gopen_shared"):
                    lifo[0] = False         # (the starter of a shared generator is never restored: tie only)
                    out.append((None, {"ev": k}))
                    if k == "gopen_shared":
                        cur = it[2]         # the suspended generator's block is open in the starter: a task created
                                            # now starts from this value
                elif k == "gclose_foreign": # the CLOSER's own setting must survive, whatever close() does
                    out.append((cur, {"ev": "foreign-close", "depth": depth}))
                elif k == "build":          # building a manager changes nothing, whatever is in force
                    out.append((cur, {"ev": "build", "depth": depth}))
                elif k == "mblock":         # inside: the code given when it was built; after: the value at ENTRY
                    c = mcode[it[1]]
                    out.append((c, {"ev": "enter", "how": "m-" + it[2], "depth": depth + 1}))
                    go(it[3], c, depth + 1)
                    out.append((cur, {"ev": "leave", "how": "m-" + it[2], "depth": depth + 1, "prop": False}))
                elif k == "mstack":
                    st = [cur]
                    for m in it[1]:
                        st.append(mcode[m])
                        out.append((st[-1], {"ev": "enter", "how": "m-exitstack", "depth": depth + len(st) - 1}))
                    go(it[2], st[-1], depth + len(it[1]))
                    for _ in it[1]:
                        st.pop()
                        out.append((st[-1], {"ev": "leave", "how": "m-exitstack", "depth": depth + len(st), "prop": False}))
                else:
                    out.append((it[1], {"ev": "enter", "how": it[2], "depth": depth + 1}))
                    go(it[3], it[1], depth + 1)
                    out.append((cur, {"ev": "leave", "how": it[2], "depth": depth + 1, "prop": bool(it[4])}))
        go(a["prog"], init[a["id"]], 0)
        if not lifo[0]:
            out = [(None, d) for _, d in out]
        res[a["id"]] = out
    return res, init


def max_depth(prog):
    return max([0] + [(len(it[1]) if it[0] == "mstack" else 1) + max_depth(body_of(it)) for it in prog
                      if body_of(it) is not None])


# ---------------------------------------------------------------------------------------------------
# the real thing: actors running real `with dependency(...)` code, stepped by a controller
class Run:
    def __init__(self, world, pool, timeout=20.0):
        self.world, self.pool, self.timeout = world, pool, timeout
        self.done = threading.Semaphore(0)
        self.log = []
        self.crash = None
        self.abort = False
        self.shared = {}        # generators suspended inside a block, handed from one actor to another
        self.mgrs = {}          # manager objects built so far: ordinary objects, shared by all threads / tasks
        self.actors = {a["id"]: Actor(self, a) for a in world["actors"]}

    def execute(self, schedule):
        C, P, O = _repo()
        root = self.actors[0]
        th = threading.Thread(target=root.thread_entry, daemon=True)
        th.start()
        for a in schedule:
            act = self.actors[a]
            if not act.release(self.timeout) or not self.done.acquire(timeout=self.timeout):
                self.crash = self.crash or f"timeout waiting for actor {a}"
            if self.crash:
                break
        if self.crash:
            self.abort = True
            for act in self.actors.values():
                act.release(0.05)
        th.join(self.timeout)
        return self.log, self.crash


class Actor:
    def __init__(self, run, spec):
        self.run, self.id, self.kind, self.prog = run, spec["id"], spec["kind"], spec["prog"]
        self.sync = self.kind in ("thread", "tothread")
        self.go = threading.Semaphore(0)
        self.ready = threading.Event()
        self.loop = None
        self.goev = None
        self.threads, self.tasks, self.gens = [], [], []
        self.get = _repo()[0].get_current_dependency
        self.dep = _repo()[0].dependency

    # -- controller side
    def release(self, timeout):
        if self.sync:
            self.go.release()
            return True
        if not self.ready.wait(timeout):
            return False
        self.loop.call_soon_threadsafe(self.goev.set)
        return True

    def thread_entry(self):
        if self.sync:
            self.s_main()
        else:
            asyncio.run(self.a_main())

    # -- common
    def obs(self, res=None):
        self.run.log.append((self.id, self.get(), res))

    def arith(self, it):
        return self.run.pool.bare(it[1], it[2], it[3])

    def foreign_close(self, gid, how):
        """close / exhaust / throw into / drop the last reference of a generator another context started.  On the
        code as it is `reset(token)` raises ValueError here; whatever is raised is swallowed — what counts is the
        closer's own setting afterwards"""
        g = self.run.shared.pop(gid)
        try:
            if how == "close":
                g.close()
            elif how == "throw":
                g.throw(Boom())
            elif how == "exhaust":
                for _ in g:
                    pass
            else:                       # finalised by reference counting in this thread; an exception raised by
                hook = sys.unraisablehook   # the finaliser is reported through sys.unraisablehook, not raised
                sys.unraisablehook = lambda *a, **k: None
                try:
                    del g
                finally:
                    sys.unraisablehook = hook
        except BaseException as e:      # noqa
            if isinstance(e, Abort):
                raise

    def gen_block(self, code):
        with self.dep(code):
            yield 1
            yield 2

    def gen_block_return(self, code):
        with self.dep(code):
            yield 1
            return
        yield 2  # pragma: no cover

    async def agen_block(self, code):
        with self.dep(code):
            yield 1
            yield 2

    # -- synchronous interpreter (threads, to_thread workers) ---------------------------------------
    def turn(self):
        if getattr(self, "_started", False):
            self.run.done.release()
        self._started = True
        self.go.acquire()
        if self.run.abort:
            raise Abort()

    def s_main(self):
        try:
            self.s_items(self.prog)
        except Abort:
            return
        except BaseException as e:  # noqa
            self.run.crash = f"actor {self.id} ({self.kind}): {type(e).__name__}: {e}"
        self.run.done.release()
        for th in self.threads:
            th.join(self.run.timeout)

    def s_spawn(self, child):
        ch = self.run.actors[child]
        th = threading.Thread(target=ch.thread_entry, daemon=True)
        self.threads.append(th)
        th.start()

    def s_items(self, items):
        for it in items:
            k = it[0]
            if k == "get":
                self.turn(); self.obs()
            elif k == "arith":
                self.turn(); self.obs(self.arith(it))
            elif k == "call":
                self.turn(); self.obs(self.run.pool.explicit_here(it[1], it[2], it[3], it[4]))
            elif k == "spawn":
                self.turn(); self.s_spawn(it[1]); self.obs()
            elif k == "gopen":
                self.turn(); g = self.gen_block(PYVAL[it[1]]); next(g); self.gens.append(g); self.obs()
            elif k == "gcloseat":
                self.turn(); g = self.gens.pop(len(self.gens) - 1 - it[1]); g.close(); self.obs()
            elif k == "gopen_shared":       # a generator suspended inside its block, handed to another thread / task
                self.turn(); g = self.gen_block(PYVAL[it[2]]); next(g); self.run.shared[it[1]] = g; self.obs()
            elif k == "gclose_foreign":     # … which closes it (early return) from ITS context
                self.turn(); self.foreign_close(it[1], it[2] if len(it) > 2 else "close"); self.obs()
            elif k == "build":
                self.turn(); self.run.mgrs[it[1]] = self.dep(PYVAL[it[2]]); self.obs()
            elif k == "mblock":
                self.s_mblock(it)
            elif k == "mstack":
                self.s_mstack(it)
            else:
                self.s_block(it)

    def s_mblock(self, it):
        """a block opened by ENTERING a manager object that was built earlier (possibly by another actor)"""
        _, m, how, body, _prop = it
        mgr = self.run.mgrs[m]
        if how == "with":
            self.turn()
            with mgr:
                self.obs()
                self.s_items(body)
                self.turn()
            self.obs()
        elif how == "withraise":
            try:
                self.turn()
                with mgr:
                    self.obs()
                    self.s_items(body)
                    self.turn()
                    raise Boom()
            except Boom:
                self.obs()
        elif how == "dunder":
            self.turn(); mgr.__enter__(); self.obs()
            self.s_items(body)
            self.turn(); mgr.__exit__(None, None, None); self.obs()
        elif how == "dunderexc":
            self.turn(); mgr.__enter__(); self.obs()
            self.s_items(body)
            self.turn()
            try:
                raise Boom()
            except Boom as e:
                try:
                    mgr.__exit__(type(e), e, e.__traceback__)
                except Boom:
                    pass
            self.obs()
        elif how == "stack":
            from contextlib import ExitStack
            with ExitStack() as st:
                self.turn(); st.enter_context(mgr); self.obs()
                self.s_items(body)
                self.turn()
            self.obs()
        elif how == "deco":
            def fn():
                self.obs()
                self.s_items(body)
                self.turn()
            wrapped = mgr(fn)               # the decorator form: @dependency(code) applied to fn
            self.turn(); wrapped(); self.obs()
        else:
            raise KeyError(how)

    def s_mstack(self, it):
        """several pre-built managers entered through ONE ExitStack; callbacks in between observe each exit"""
        from contextlib import ExitStack
        _, ms, body = it

        def between():
            self.obs()
            self.turn()
        st = ExitStack()
        for j, m in enumerate(ms):
            self.turn(); st.enter_context(self.run.mgrs[m]); self.obs()
            if j < len(ms) - 1:
                st.callback(between)
        self.s_items(body)
        self.turn()
        st.close()
        self.obs()

    def s_block(self, b):
        _, tok, how, body, prop = b
        code = PYVAL[tok]
        if how == "exit":
            self.turn()
            with self.dep(code):
                self.obs()
                self.s_items(body)
                self.turn()
            self.obs()
        elif how == "return":
            def fn():
                self.turn()
                with self.dep(code):
                    self.obs()
                    self.s_items(body)
                    self.turn()
                    return 1
                return 2  # pragma: no cover
            fn()
            self.obs()
        elif how == "raise":
            try:
                self.turn()
                with self.dep(code):
                    self.obs()
                    self.s_items(body)      # a propagating child takes this block's turn and raises through it
                    self.turn()
                    raise Boom()
            except Boom:
                self.obs()
                if prop:
                    self.turn()
                    raise
        elif how == "genclose":
            g = self.gen_block(code)
            self.turn(); next(g); self.obs()
            self.s_items(body)
            self.turn(); g.close(); self.obs()
        elif how == "genreturn":
            g = self.gen_block_return(code)
            self.turn(); next(g); self.obs()
            self.s_items(body)
            self.turn()
            try:
                next(g)
            except StopIteration:
                pass
            self.obs()
        elif how == "genbreak":
            self.turn()
            for _ in self.gen_block(code):
                self.obs()
                self.s_items(body)
                self.turn()
                break                       # the abandoned generator is finalised here (reference counting)
            self.obs()
        elif how == "genthrow":
            g = self.gen_block(code)
            self.turn(); next(g); self.obs()
            self.s_items(body)
            self.turn()
            try:
                g.throw(Boom())
            except Boom:
                pass
            self.obs()
        else:
            raise KeyError(how)

    # -- asynchronous interpreter (asyncio tasks) -----------------------------------------------------
    async def aturn(self):
        if getattr(self, "_started", False):
            self.run.done.release()
        self._started = True
        await self.goev.wait()
        self.goev.clear()
        if self.run.abort:
            raise Abort()

    async def a_main(self):
        if self.loop is None:
            self.loop = asyncio.get_running_loop()
            self.goev = asyncio.Event()
            self.ready.set()
        try:
            await self.a_items(self.prog)
        except Abort:
            return
        except BaseException as e:  # noqa
            self.run.crash = f"actor {self.id} ({self.kind}): {type(e).__name__}: {e}"
        self.run.done.release()
        if self.tasks:
            await asyncio.gather(*self.tasks, return_exceptions=True)

    def a_spawn(self, child):
        ch = self.run.actors[child]
        if ch.kind == "task":
            ch.loop, ch.goev = self.loop, asyncio.Event()
            ch.ready.set()
            self.tasks.append(asyncio.create_task(ch.a_main()))
        elif ch.kind == "tothread":
            self.tasks.append(asyncio.create_task(asyncio.to_thread(ch.s_main)))
        else:
            raise KeyError(ch.kind)

    async def a_items(self, items):
        for it in items:
            k = it[0]
            if k == "get":
                await self.aturn(); self.obs()
            elif k == "arith":
                await self.aturn(); self.obs(self.arith(it))
            elif k == "call":
                await self.aturn(); self.obs(self.run.pool.explicit_here(it[1], it[2], it[3], it[4]))
            elif k == "spawn":
                await self.aturn(); self.a_spawn(it[1]); self.obs()
            elif k == "gopen":
                await self.aturn(); g = self.gen_block(PYVAL[it[1]]); next(g); self.gens.append(g); self.obs()
            elif k == "gcloseat":
                await self.aturn(); g = self.gens.pop(len(self.gens) - 1 - it[1]); g.close(); self.obs()
            elif k == "gopen_shared":
                await self.aturn(); g = self.gen_block(PYVAL[it[2]]); next(g); self.run.shared[it[1]] = g; self.obs()
            elif k == "gclose_foreign":
                await self.aturn(); self.foreign_close(it[1], it[2] if len(it) > 2 else "close"); self.obs()
            elif k == "build":
                await self.aturn(); self.run.mgrs[it[1]] = self.dep(PYVAL[it[2]]); self.obs()
            elif k == "mblock":
                await self.a_mblock(it)
            elif k == "mstack":
                await self.a_mstack(it)
            else:
                await self.a_block(it)

    async def a_mblock(self, it):
        _, m, how, body, _prop = it
        mgr = self.run.mgrs[m]
        if how == "with":
            await self.aturn()
            with mgr:
                self.obs()
                await self.a_items(body)
                await self.aturn()
            self.obs()
        elif how == "withraise":
            try:
                await self.aturn()
                with mgr:
                    self.obs()
                    await self.a_items(body)
                    await self.aturn()
                    raise Boom()
            except Boom:
                self.obs()
        elif how == "dunder":
            await self.aturn(); mgr.__enter__(); self.obs()
            await self.a_items(body)
            await self.aturn(); mgr.__exit__(None, None, None); self.obs()
        elif how == "dunderexc":
            await self.aturn(); mgr.__enter__(); self.obs()
            await self.a_items(body)
            await self.aturn()
            try:
                raise Boom()
            except Boom as e:
                try:
                    mgr.__exit__(type(e), e, e.__traceback__)
                except Boom:
                    pass
            self.obs()
        elif how == "stack":
            from contextlib import AsyncExitStack
            async with AsyncExitStack() as st:
                await self.aturn(); st.enter_context(mgr); self.obs()
                await self.a_items(body)
                await self.aturn()
            self.obs()
        else:
            raise KeyError(how)

    async def a_mstack(self, it):
        from contextlib import AsyncExitStack
        _, ms, body = it

        async def between():
            self.obs()
            await self.aturn()
        st = AsyncExitStack()
        for j, m in enumerate(ms):
            await self.aturn(); st.enter_context(self.run.mgrs[m]); self.obs()
            if j < len(ms) - 1:
                st.push_async_callback(between)
        await self.a_items(body)
        await self.aturn()
        await st.aclose()
        self.obs()

    async def a_block(self, b):
        _, tok, how, body, prop = b
        code = PYVAL[tok]
        if how == "exit":
            await self.aturn()
            with self.dep(code):
                self.obs()
                await self.a_items(body)
                await self.aturn()
            self.obs()
        elif how == "return":
            async def fn():
                await self.aturn()
                with self.dep(code):
                    self.obs()
                    await self.a_items(body)
                    await self.aturn()
                    return 1
                return 2  # pragma: no cover
            await fn()
            self.obs()
        elif how == "raise":
            try:
                await self.aturn()
                with self.dep(code):
                    self.obs()
                    await self.a_items(body)
                    await self.aturn()
                    raise Boom()
            except Boom:
                self.obs()
                if prop:
                    await self.aturn()
                    raise
        elif how == "genclose":
            g = self.gen_block(code)
            await self.aturn(); next(g); self.obs()
            await self.a_items(body)
            await self.aturn(); g.close(); self.obs()
        elif how == "genreturn":
            g = self.gen_block_return(code)
            await self.aturn(); next(g); self.obs()
            await self.a_items(body)
            await self.aturn()
            try:
                next(g)
            except StopIteration:
                pass
            self.obs()
        elif how == "genbreak":
            await self.aturn()
            for _ in self.gen_block(code):
                self.obs()
                await self.a_items(body)
                await self.aturn()
                break
            self.obs()
        elif how == "genthrow":
            g = self.gen_block(code)
            await self.aturn(); next(g); self.obs()
            await self.a_items(body)
            await self.aturn()
            try:
                g.throw(Boom())
            except Boom:
                pass
            self.obs()
        elif how == "agenclose":
            g = self.agen_block(code)
            await self.aturn(); await g.__anext__(); self.obs()
            await self.a_items(body)
            await self.aturn(); await g.aclose(); self.obs()
        else:
            raise KeyError(how)


# ---------------------------------------------------------------------------------------------------
# generators
def rand_code(rng, p_unknown=0.2):
    if rng.random() < p_unknown:
        return rng.choice(list(UNKNOWN))
    return rng.choice(KNOWN)


def gen_prog(rng, pool, budget, sync, depth=0, max_d=4, p_block=0.45, p_arith=0.3, ops=BARE):
    """random well-nested program using at most `budget[0]` events"""
    items = []
    while budget[0] > 0 and rng.random() < (0.85 if depth == 0 else 0.7):
        r = rng.random()
        if r < p_block and depth < max_d and budget[0] >= 2:
            budget[0] -= 2
            how = rng.choice(SYNC_HOWS if sync else ASYNC_HOWS)
            body = gen_prog(rng, pool, budget, sync, depth + 1, max_d, p_block, p_arith, ops)
            items.append(["block", rand_code(rng), how, body, False])
        elif r < p_block + p_arith:
            budget[0] -= 1
            xi, yi = rng.choice(pool.pairs)
            items.append(["arith", rng.choice(ops), xi, yi])
        else:
            budget[0] -= 1
            items.append(["get"])
    return items


def deep_prog(rng, pool, sync, d=4):
    """a chain of d nested blocks with an observation at every level"""
    inner = [["get"]]
    for lvl in range(d):
        how = rng.choice(SYNC_HOWS if sync else ASYNC_HOWS)
        xi, yi = rng.choice(pool.pairs)
        atom = ["arith", rng.choice(BARE), xi, yi] if rng.random() < 0.4 else ["get"]
        inner = [["block", rand_code(rng), how, ([atom] if rng.random() < 0.5 else []) + inner
                  + ([["get"]] if rng.random() < 0.5 else []), False]]
    return [["get"]] + inner + [["get"]]


def body_lists(prog):
    out = [prog]
    for it in prog:
        if body_of(it) is not None:
            out += body_lists(body_of(it))
    return out


def insert_spawn(rng, prog, child):
    lst = rng.choice(body_lists(prog))
    lst.insert(rng.randint(0, max(0, len(lst) // 2)), ["spawn", child])


def set_prop(rng, prog):
    """let an exception travel through several blocks: a `raise` block that is the last item of a `raise` block"""
    for it in prog:
        if body_of(it) is not None:
            set_prop(rng, body_of(it))
        if it[0] == "block":
            if it[2] == "raise" and it[3] and it[3][-1][0] == "block" and it[3][-1][2] == "raise" and rng.random() < 0.6:
                it[3][-1][4] = True


def ensure_nonempty(prog):
    if not flatten_count(prog):
        prog.append(["get"])


def flatten_count(prog):
    n = 0
    for it in prog:
        b = body_of(it)
        n += 1 if b is None else (2 * len(it[1]) if it[0] == "mstack" else 2) + flatten_count(b)
    return n


def exec_order_points(prog, stop):
    """insertion points (list, index) that are executed before the item `stop` (identity) is reached"""
    pts = []

    def go(items):
        for j, it in enumerate(items):
            pts.append((items, j))
            if it is stop:
                return True
            b = body_of(it)
            if b is not None:
                if go(b):
                    return True
                # positions after a finished block are appended by the next loop iteration
        return False
    found = go(prog)
    return pts if found else None


def defer(rng, world, p=0.5, next_m=None):
    """turn some `with dependency(c):` blocks into managers BUILT earlier (anywhere earlier in the actor's own
    execution order, or in the parent before it spawns this actor) and ENTERED where the block was"""
    next_m = next_m or [0]
    by_id = {a["id"]: a for a in world["actors"]}
    for a in world["actors"]:
        sync = a["kind"] in ("thread", "tothread")
        blocks = []

        def collect(items):
            for it in items:
                if it[0] == "block":
                    blocks.append(it)
                if body_of(it) is not None:
                    collect(body_of(it))
        collect(a["prog"])
        for blk in blocks:
            if rng.random() >= p:
                continue
            pts = None
            if a["parent"] is not None and rng.random() < 0.45:
                par = by_id[a["parent"]]
                sp = [None]

                def find(items):
                    for it in items:
                        if it[0] == "spawn" and it[1] == a["id"]:
                            sp[0] = it
                        elif body_of(it) is not None:
                            find(body_of(it))
                find(par["prog"])
                pts = exec_order_points(par["prog"], sp[0]) if sp[0] is not None else None
            if pts is None:
                pts = exec_order_points(a["prog"], blk)
            lst, j = rng.choice(pts)
            m = next_m[0]
            next_m[0] += 1
            code, body = blk[1], blk[3]
            blk[:] = ["mblock", m, rng.choice(SYNC_MHOWS if sync else ASYNC_MHOWS), body, False]
            lst.insert(j, ["build", m, code])
    return world


def make_world(rng, pool, shape, per_actor, deferred=0.0):
    """shape: list of (kind, parent) for actors 0..n-1"""
    actors = []
    for i, (kind, parent) in enumerate(shape):
        sync = kind in ("thread", "tothread")
        if rng.random() < 0.15:
            prog = deep_prog(rng, pool, sync, rng.choice([3, 4]))
        else:
            prog = gen_prog(rng, pool, [per_actor], sync, p_block=0.6, p_arith=0.12)
            if not any(it[0] == "block" for it in prog):
                xi, yi = rng.choice(pool.pairs)
                inner = [["arith", rng.choice(BARE), xi, yi]] if rng.random() < 0.25 else [["get"]]
                prog.insert(rng.randint(0, len(prog)), ["block", rand_code(rng), rng.choice(SYNC_HOWS if sync else ASYNC_HOWS), inner, False])
        ensure_nonempty(prog)
        actors.append({"id": i, "kind": kind, "parent": parent, "prog": prog})
    for a in actors[1:]:
        insert_spawn(rng, actors[a["parent"]]["prog"], a["id"])
    world = {"actors": actors}
    if deferred:
        defer(rng, world, deferred)
    for a in actors:
        set_prop(rng, a["prog"])
    return world


SHAPES = {
    "threads": [[("thread", None), ("thread", 0)], [("thread", None), ("thread", 0), ("thread", 0)],
                [("thread", None), ("thread", 0), ("thread", 1)]],
    "tasks": [[("loop", None), ("task", 0)], [("loop", None), ("task", 0), ("task", 0)],
              [("loop", None), ("task", 0), ("task", 1)]],
    "mixed": [[("thread", None), ("loop", 0), ("task", 1)], [("loop", None), ("task", 0), ("tothread", 0)],
              [("loop", None), ("tothread", 0)], [("thread", None), ("loop", 0), ("thread", 0)],
              [("loop", None), ("tothread", 0), ("task", 0)], [("thread", None), ("loop", 0)]],
}


def schedules(rng, world, cap):
    """all valid interleavings when there are at most `cap`, otherwise `cap` distinct ones (sequential,
    alternating and random).  valid = every actor's events in order, an actor only after it was spawned."""
    kinds = {a["id"]: a["kind"] for a in world["actors"]}
    seqs = {a["id"]: flatten(a["prog"], kinds) for a in world["actors"]}
    ids = sorted(seqs)

    def child_of(tok):
        return int(tok[2:]) if tok[0] in "TK" and tok[1] == ":" else None

    def enum(pos, alive, acc, out):
        if len(out) > cap:
            return
        en = [a for a in ids if a in alive and pos[a] < len(seqs[a])]
        if not en:
            out.append(list(acc))
            return
        for a in en:
            tok = seqs[a][pos[a]]
            ch = child_of(tok)
            pos[a] += 1
            acc.append(a)
            enum(pos, alive | ({ch} if ch is not None else set()), acc, out)
            acc.pop()
            pos[a] -= 1
    out = []
    enum({a: 0 for a in ids}, {0}, [], out)
    if len(out) <= cap:
        return out, True, seqs

    def sample(policy):
        pos = {a: 0 for a in ids}
        alive = {0}
        sch = []
        last = None
        while True:
            en = [a for a in ids if a in alive and pos[a] < len(seqs[a])]
            if not en:
                return sch
            if policy == "random":
                a = rng.choices(en, weights=[len(seqs[x]) - pos[x] for x in en])[0]
            elif policy == "uniform":
                a = rng.choice(en)
            elif policy == "first":
                a = en[0]
            elif policy == "last":
                a = en[-1]
            elif policy == "sticky":     # few context switches
                a = last if (last in en and rng.random() < 0.8) else rng.choice(en)
            else:                        # alternate: switch whenever possible
                others = [x for x in en if x != last]
                a = rng.choice(others) if others else en[0]
            ch = child_of(seqs[a][pos[a]])
            if ch is not None:
                alive.add(ch)
            pos[a] += 1
            sch.append(a)
            last = a
    got = {}
    for pol in ["first", "last", "alternate", "alternate"]:
        s = sample(pol)
        got[tuple(s)] = s
    tries = 0
    while len(got) < cap and tries < 20 * cap:
        tries += 1
        s = sample(rng.choice(["random", "random", "uniform", "sticky", "alternate"]))
        got[tuple(s)] = s
    return list(got.values()), False, seqs


# ---------------------------------------------------------------------------------------------------
def wire(schedule, seqs):
    pos = {a: 0 for a in seqs}
    toks = []
    for a in schedule:
        toks.append(f"{a}:{seqs[a][pos[a]]}")
        pos[a] += 1
    return "run " + " ".join(toks)


def js_res(r):
    if r is None:
        return None
    if r[0] == "err":
        return list(r)
    return ["ok", "sha:" + core.hashlib.sha1(r[1] + r[2]).hexdigest()[:12]]


def check_run(ctx, pool, stream, world, schedule, seqs, exp, log, crash, reply):
    """tie + oracle for one executed schedule"""
    case = {"stream": stream, "world": world, "schedule": schedule, "pool": pool.desc}
    kinds = {a["id"]: a["kind"] for a in world["actors"]}
    if crash:
        ctx.tie_bad(stream, case, {"crash": crash}, reply)
        ctx.fail({"call": "dependency()", "kind": "crash", "stream": stream}, dict(case, crash=crash),
                 f"the real code failed while executing a well-formed history: {crash}")
        return
    # ---- tie
    ok = True
    t = reply.split()
    if t[0] != "ok" or len(t) - 1 != len(log) or len(log) != len(schedule):
        ok = False
    else:
        pos = {a: 0 for a in seqs}
        for (a, val, res), m, sa in zip(log, t[1:], schedule):
            ev = seqs[a][pos[a]]
            pos[a] += 1
            mcode, _, mres = m.partition("|")
            if a != sa or tok_of(val) != mcode:
                ok = False
                break
            if ev.startswith(("A:", "Q:")):
                it = exp[a][pos[a] - 1][1]
                if mres.startswith("!"):
                    # the model knows nothing about operand domains: `-y` / `1/y` are evaluated before the dispatch
                    if res != ("err", mres[1:]) and not (res is not None and res[0] == "err"
                                                         and res == pool.prep_error(ev.split(":")[1], it["xi"], it["yi"])):
                        ok = False
                        break
                elif not mres or res != pool.lowlevel(it["xi"], it["yi"], mres):
                    ok = False
                    break
            elif mres or res is not None:
                ok = False
                break
    if ok:
        ctx.tie_ok()
    else:
        ctx.tie_bad(stream, case, [[a, tok_of(v), js_res(r)] for a, v, r in log], reply)
    # ---- oracle (independent of the model)
    pos = {a: 0 for a in seqs}
    for (a, val, res) in log:
        j = pos[a]
        pos[a] += 1
        if j >= len(exp[a]):
            ctx.fail({"call": "dependency()", "kind": "extra-event"}, case, "more observations than events")
            break
        ecode, d = exp[a][j]
        if ecode is None:
            continue                      # non-LIFO generator histories are outside the property (tie only)
        got = tok_of(val)
        if got != ecode:
            kind = {"enter": "inside", "leave": "restore", "foreign-close": "foreign-close"}.get(d["ev"], "stale")
            feat = {"call": "dependency()", "kind": kind, "how": d.get("how", ""), "actor_kind": kinds[a],
                    "actors": len(kinds), "depth": d.get("depth", 0), "expected": ecode, "got": got}
            what = {"inside": f"inside `with dependency({PYVAL[ecode]!r})` get_current_dependency() returned {val!r}",
                    "restore": f"after leaving a block ({d.get('how')}) the setting is {val!r}, before the block it was {PYVAL[ecode]!r}",
                    "foreign-close": f"after closing a generator that another thread/task started inside its block, the closer's own setting is {val!r}; it was {PYVAL[ecode]!r}",
                    "stale": f"{d['ev']} in actor {a} ({kinds[a]}) observed {val!r}, its own history gives {PYVAL[ecode]!r}"}[kind]
            ctx.fail(feat, dict(case, actor=a, event_index=j), what)
            break
        if d["ev"] == "call":
            # an explicit method inside a block of another code must give, bit for bit, what it gives outside
            ref = pool.explicit(d["op"], d["xi"], d["yi"], d["code"])
            if res != ref:
                sc = {v: k for k, v in pool.sign.items()}
                ctx.fail({"call": "method", "kind": "method-reads-ambient", "op": d["op"], "code": d["code"], "ambient": ecode,
                          "xclass": sc.get(d["xi"], "pos"), "yclass": sc.get(d["yi"], "pos")},
                         dict(case, actor=a, event_index=j, got=js_res(res), outside=js_res(ref)),
                         f"explicit `x.{d['op']}(y, {PYVAL[d['code']]!r})` called inside `with dependency({PYVAL[ecode]!r})` "
                         f"differs from the same call outside any block (operands {sc.get(d['xi'], 'pos')}, {sc.get(d['yi'], 'pos')})")
                break
        if d["ev"] == "arith":
            op, xi, yi = d["op"], d["xi"], d["yi"]
            kk = d.get("kk", "pp")
            kn = {"p": "Pbox", "d": "DempsterShafer", "D": "Distribution", "v": "Interval"}
            opnds = f"{kn[kk[0]]} {op} {kn[kk[1]]}"
            if ecode in UNKNOWN:
                if res is None or res[0] != "err":
                    ctx.fail({"call": "operator", "kind": "unknown-no-fail", "op": op, "code": ecode, "lkind": kk[0], "rkind": kk[1]},
                             dict(case, actor=a, event_index=j),
                             f"bare `{opnds}` under the unknown dependency {PYVAL[ecode]!r} returned a result instead of failing")
                    break
            else:
                ref = pool.explicit(op, xi, yi, ecode)
                if ref[0] == "ok" and res != ref:
                    which = [c for c in KNOWN if pool.explicit(op, xi, yi, c) == res]
                    ctx.fail({"call": "operator", "kind": "operator-ne-method", "op": op, "code": ecode, "lkind": kk[0], "rkind": kk[1],
                              "behaves_like": which[0] if which else ("raises" if res and res[0] == "err" else "other")},
                             dict(case, actor=a, event_index=j, got=js_res(res)),
                             f"bare `{opnds}` inside dependency({ecode!r}) differs from the explicit method (operands converted to p-boxes) with {ecode!r}"
                             + (f" (it equals the method with {which[0]!r})" if which else ""))
                    break


def run(ctx: core.Check):
    ctx.rule = ("a case is one (world, schedule): a world is 1-3 actors (threads, asyncio loop threads, asyncio tasks, "
                "asyncio.to_thread workers) each with a random well-nested program of dependency() blocks to depth 4 over "
                "{f,p,o,i,8 unknown codes}, left in 8 ways (normal, return, exception incl. propagation through several "
                "blocks, generator close/return/break/throw, async generator close), with get and bare-operator events and "
                "the spawn of the children placed inside the parent's blocks; every valid interleaving when there are few, "
                "otherwise sequential+alternating+random ones. Non-trivial: some expected observation differs from the "
                "default 'f'. Distinct on (programs, schedule). Extra streams: exhaustive depth-2 grid, non-LIFO generator "
                "histories (tie only), explicit method x code dispatch grid.")
    ctx.assumptions = ["the interpreter's contextvars / asyncio / threading implementation is not modelled beyond set/reset/copy",
                       "p-box arithmetic itself is not modelled: the model names the routine, the harness runs it (results compared bitwise)",
                       "a generator entered in one context and closed in another (ValueError from Token reset) is not exercised",
                       "operators with a non-p-box operand (numbers ignore the dependency; Distribution hard-codes 'f') are outside this check"]
    core.stub_moments()
    ctx.lean_stage(["Pun.Props.C16", "Pun.Props.C16Gen"],
                   generators=[("pbox_abc.py dispatch tables, operators; context.py manager", _gen)])
    rng = ctx.rng
    pool = Pool(rng)
    ctx.extra_cov["operands_distinguish_all_four_dependencies_for_every_operator"] = pool.distinguishing
    snap0 = pool.snapshot()
    jobs = []          # (stream, world, schedule, seqs, exp)

    def add_world(stream, world, cap):
        sch, exhaustive, seqs = schedules(rng, world, cap)
        exp, _ = expectation(world)
        ctx.bump("schedules:exhaustive" if exhaustive else "schedules:sampled")
        for s in sch:
            jobs.append((stream, world, s, seqs, exp))

    # 1. depth-2 grid, single actor: every pair of ways to leave x every pair of codes (each how-pair with 5
    #    rotating code pairs, so that every code pair meets every way of leaving the inner and the outer block)
    k = 0
    codes = KNOWN + ["u0"]
    code_pairs = list(itertools.product(codes, codes))
    for sync in (True, False):
        hows = SYNC_HOWS if sync else ASYNC_HOWS
        for h1, h2 in itertools.product(hows, hows):
            for rep in range(ctx.scale(5, 25)):
                k += 1
                d1, d2 = code_pairs[(k * 7 + rep) % 25]
                xi, yi = pool.pairs[k % len(pool.pairs)]
                atom = ["arith", BARE[k % 5], xi, yi] if (k % 7 == 0) else ["get"]
                inner = ["block", d2, h2, [atom], h1 == "raise" and h2 == "raise" and k % 2 == 0]
                prog = [["get"], ["block", d1, h1, [["get"], inner] + ([] if inner[4] else [["get"]]), False], ["get"]]
                add_world("grid", {"actors": [{"id": 0, "kind": "thread" if sync else "loop", "parent": None, "prog": prog}]}, 1)
    # 2. operators: every op x every code inside a block (after a nested block has been left)
    for op in OPS:
        for code in KNOWN + list(UNKNOWN):
            for (xi, yi) in pool.pairs[:2] + [(pool.pairs[0][0], pool.pairs[0][0])]:   # incl. the SAME object on both sides
                other = rng.choice([c for c in KNOWN if c != code])
                prog = [["block", code, "exit", [["block", other, rng.choice(SYNC_HOWS), [["arith", op, xi, yi]], False],
                                                 ["arith", op, xi, yi]], False], ["arith", op, xi, yi]]
                add_world("operators", {"actors": [{"id": 0, "kind": "thread", "parent": None, "prog": prog}]}, 1)
    # 3. random single-actor nesting to depth 4
    for _ in range(ctx.scale(150, 2000)):
        sync = rng.random() < 0.5
        prog = deep_prog(rng, pool, sync, 4) if rng.random() < 0.3 else gen_prog(rng, pool, [rng.randint(6, 16)], sync, p_block=0.55)
        ensure_nonempty(prog)
        set_prop(rng, prog)
        add_world("nest", {"actors": [{"id": 0, "kind": "thread" if sync else "loop", "parent": None, "prog": prog}]}, 1)
    # 4. interleavings
    n_worlds = ctx.scale(100, 500)
    cap = ctx.scale(30, 80)
    for wi in range(n_worlds):
        stream = ["threads", "tasks", "mixed"][wi % 3]
        shape = rng.choice(SHAPES[stream])
        small = rng.random() < 0.35
        per = rng.randint(2, 4) if small else rng.randint(4, 8 if len(shape) == 2 else 6)
        add_world(stream, make_world(rng, pool, shape, per), cap)
    # 5. non-LIFO: suspended generators closed out of order inside one context (tie only)
    for _ in range(ctx.scale(40, 400)):
        sync = rng.random() < 0.5
        n = rng.randint(2, 4)
        prog, open_ = [["get"]], 0
        todo = n
        while todo or open_:
            if todo and (not open_ or rng.random() < 0.6):
                prog.append(["gopen", rand_code(rng, 0.1)]); open_ += 1; todo -= 1
            else:
                prog.append(["gcloseat", rng.randint(0, open_ - 1)]); open_ -= 1
            if rng.random() < 0.5:
                prog.append(["get"])
        prog.append(["get"])
        add_world("nonlifo", {"actors": [{"id": 0, "kind": "thread" if sync else "loop", "parent": None, "prog": prog}]}, 1)

    # 7. operand kinds: every dependency-sensitive kind (Pbox, DempsterShafer, Distribution, Interval) on the right
    #    of a p-box and on the left, inside blocks of every code incl. unknown ones; reference = the explicit method
    #    on the operands converted to p-boxes
    def one(kind, prog):
        return {"actors": [{"id": 0, "kind": kind, "parent": None, "prog": prog}]}
    k = 0
    unk = list(UNKNOWN)
    for (xi, yi) in pool.kpairs:
        for op in pool.ops_for(xi, yi):
            for code in KNOWN + [unk[k % len(unk)]]:
                k += 1
                if ctx.tier != "thorough" and k % 2 and pool.kk(xi, yi) not in ("pd", "pD", "pv", "Dp"):
                    continue
                ar = ["arith", op, xi, yi, pool.kk(xi, yi)]
                other = KNOWN[(KNOWN.index(code) + 1) % 4] if code in KNOWN else "i"
                prog = [["block", other, "exit", [["block", code, SYNC_HOWS[k % len(SYNC_HOWS)], [ar], False]], False]]
                add_world("kinds", one("thread" if k % 3 else "loop", prog), 1)
    # 8. manager objects BUILT before they are ENTERED
    codes5 = KNOWN + ["u0"]
    k = 0
    for sync in (True, False):
        mh = SYNC_MHOWS if sync else ASYNC_MHOWS
        kind = "thread" if sync else "loop"
        for c0, c1 in itertools.product(codes5, codes5):
            for rep in range(ctx.scale(2, 8)):
                k += 1
                xi, yi = pool.pairs[k % len(pool.pairs)]
                ar = ["arith", BARE[k % 5], xi, yi]
                h0, h1 = mh[k % len(mh)], mh[(k // len(mh) + rep) % len(mh)]
                # (a) both managers prepared up front, entered later, nested
                prog = [["build", 0, c0], ["build", 1, c1], ["get"],
                        ["mblock", 0, h0, [["get"], ["mblock", 1, h1, [["get"]], False], ar if k % 3 == 0 else ["get"]], False], ["get"]]
                add_world("deferred", one(kind, prog), 1)
                # (b) built inside a block of another code, entered after that block was left / inside a plain block
                c2 = codes5[(k + rep) % 5]
                prog = [["block", c2, rng.choice(SYNC_HOWS), [["build", 0, c0], ["get"]], False],
                        ["block", c1, "exit", [["mblock", 0, h0, [["get"]], False], ar if k % 4 == 0 else ["get"]], False], ["get"]]
                add_world("deferred", one(kind, prog), 1)
            # (c) a prepared list entered through one ExitStack
            c2 = codes5[k % 5]
            prog = [["build", 0, c0], ["block", c2, "exit", [["build", 1, c1], ["build", 2, c2]], False], ["get"],
                    ["block", c1, "exit", [["mstack", [0, 1, 2][: 2 + k % 2], [["get"]]], ["get"]], False], ["get"]]
            add_world("deferred", one(kind, prog), 1)
    # (d) built in one thread / task, entered in another; random programs with deferred entries, interleaved
    for wi in range(ctx.scale(45, 400)):
        stream = ["threads", "tasks", "mixed"][wi % 3]
        shape = rng.choice(SHAPES[stream] + [[(SHAPES[stream][0][0][0], None)]])
        per = rng.randint(3, 7 if len(shape) <= 2 else 5)
        add_world("deferred-" + stream, make_world(rng, pool, shape, per, deferred=0.7), ctx.scale(12, 40))

    # 9. explicit methods inside blocks of OTHER ambient codes, and bare operators, over the sign classes of both
    #    operands (positive, negative, straddling zero, touching zero) and over tiny / huge scales: every
    #    (op, explicit dependency) x ambient code incl. unknown ones; result bitwise equal to the call outside
    if pool.sign:
        k = 0
        cls_pairs = list(itertools.product(SIGN_CLASSES, SIGN_CLASSES)) + SCALE_PAIRS
        for (cx, cy) in cls_pairs:
            xi, yi = pool.sign[cx], pool.sign[cy]
            for op in BARE:
                for dep in KNOWN:
                    k += 1
                    others = [c for c in KNOWN if c != dep]
                    if ctx.tier == "thorough":
                        ambs = others + [dep, unk[k % len(unk)], unk[(k + 3) % len(unk)]]
                    else:
                        ambs = [others[k % 3], unk[k % len(unk)]]
                    prog = []
                    for j, amb in enumerate(ambs):
                        body = [["call", op, xi, yi, dep]]
                        if (k + j) % 3 == 0:          # the bare operator on the same operands, under the ambient code
                            body.append(["arith", op, xi, yi])
                        prog.append(["block", amb, SYNC_HOWS[(k + j) % len(SYNC_HOWS)], body, False])
                    if k % 5 == 0:
                        prog.append(["call", op, xi, yi, unk[k % len(unk)]])
                    add_world("explicit-in-block", one("thread" if k % 4 else "loop", prog), 1)

    # 10. a generator suspended inside its block is started by one thread / task and closed (close, throw, exhausted,
    #     last reference dropped) by ANOTHER one that is inside its own block: the closer's setting must survive
    k = 0
    for (pk, ck) in [("thread", "thread"), ("loop", "task"), ("loop", "tothread"), ("thread", "loop")]:
        for a_, d_, c_ in itertools.product(codes5, ["p", "o", "i", "u0"], codes5):
            for how in (["close", "throw", "exhaust", "drop"] if ctx.tier == "thorough" else [["close", "throw", "exhaust", "drop"][k % 4]]):
                k += 1
                if d_ == c_ or (ctx.tier != "thorough" and k % 2):
                    continue
                xi, yi = pool.pairs[k % len(pool.pairs)]
                parent = [["block", a_, "exit", [["gopen_shared", 0, d_], ["spawn", 1], ["get"]], False], ["get"]]
                child = [["get"], ["block", c_, SYNC_HOWS[k % len(SYNC_HOWS)],
                                   [["get"], ["gclose_foreign", 0, how], ["get"], ["arith", BARE[k % 5], xi, yi]], False], ["get"]]
                add_world("foreign-close", {"actors": [{"id": 0, "kind": pk, "parent": None, "prog": parent},
                                                       {"id": 1, "kind": ck, "parent": 0, "prog": child}]}, ctx.scale(2, 6))

    replies = core.model_batch("C16", [wire(s, seqs) for (_, _, s, seqs, _) in jobs])
    for (stream, world, s, seqs, exp), rep in zip(jobs, replies):
        nontriv = any(e not in (None, "f") for a in exp for e, _ in exp[a]) or stream == "nonlifo"
        ctx.count((json.dumps(world, sort_keys=True), tuple(s)), nontriv, stream)
        r = Run(world, pool)
        log, crash = r.execute(s)
        check_run(ctx, pool, stream, world, s, seqs, exp, log, crash, rep)
        for a in world["actors"]:
            ctx.bump("actor:" + a["kind"])
        ctx.bump("events", len(s))
        ctx.bump("depth:%d" % max(max_depth(a["prog"]) for a in world["actors"]))
        if len(ctx.samples) < 8 and stream in ("threads", "tasks", "mixed", "nonlifo", "kinds", "deferred", "deferred-threads", "explicit-in-block") and ctx.evaluations % 97 == 0:
            ctx.sample({"stream": stream, "world": world, "schedule": s, "model": rep,
                        "impl": [[a, tok_of(v), js_res(x)] for a, v, x in log]})

    # 6. explicit methods x codes: dispatch table of the model vs the real methods, and the error branch
    reqs, meta = [], []
    for op in OPS:
        for code in KNOWN + list(UNKNOWN):
            for (xi, yi) in pool.pairs:
                reqs.append(f"disp {op} {code}")
                meta.append((op, code, xi, yi))
    for (op, code, xi, yi), rep in zip(meta, core.model_batch("C16", reqs)):
        ctx.count(("disp", op, code, xi, yi), True, "dispatch")
        impl = pool.explicit(op, xi, yi, code)
        t = rep.split()
        if (t[0] == "err" and impl == ("err", t[1])) or (t[0] == "ok" and impl == pool.lowlevel(xi, yi, t[1])):
            ctx.tie_ok()
        else:
            ctx.tie_bad("dispatch", {"op": op, "code": code, "x": pool.desc[xi], "y": pool.desc[yi]}, js_res(impl), rep)
        ctx.bump("dispatch:" + (impl[1] if impl[0] == "err" else "value"))
        # the named method inside a block of ANOTHER code must not look at the ambient setting
        amb = (KNOWN + list(UNKNOWN))[(OPS.index(op) + xi + 3 * yi + len(code)) % 12]
        inside = contextvars.Context().run(pool.explicit_inside, op, xi, yi, code, amb)
        if inside != impl:
            ctx.fail({"call": "method", "kind": "method-reads-ambient", "op": op, "code": code, "ambient": amb},
                     {"stream": "dispatch", "op": op, "code": code, "ambient": amb, "x": pool.desc[xi], "y": pool.desc[yi]},
                     f"explicit `{op}(…, {PYVAL[code]!r})` called inside `with dependency({PYVAL[amb]!r})` differs from the same call outside")
        if code in UNKNOWN and impl[0] != "err":
            ctx.fail({"call": "method", "kind": "unknown-no-fail", "op": op, "code": code},
                     {"stream": "dispatch", "op": op, "code": code, "x": pool.desc[xi], "y": pool.desc[yi]},
                     f"explicit `{op}` with the unknown dependency {PYVAL[code]!r} returned a result instead of failing")
        if code in KNOWN and impl[0] == "err":
            ctx.fail({"call": "method", "kind": "known-fails", "op": op, "code": code, "err": impl[1]},
                     {"stream": "dispatch", "op": op, "code": code, "x": pool.desc[xi], "y": pool.desc[yi]},
                     f"explicit `{op}` with dependency {code!r} raised {impl[1]} on positive p-boxes")
    # (P) warnings turned into errors and numpy FP errors raised: blocks entered, arithmetic done, blocks left —
    #     either the same value as under the default settings or an exception; the setting in force before the
    #     block is in force again in every case, and what follows is unaffected
    escalated(ctx, pool)
    # (L) copied / deep-copied / pickled operands behave like the originals inside a block; a result used as operand
    import copy, pickle
    C, P, O = _repo()
    xi, yi = pool.pairs[0]
    x, y = pool.box[xi], pool.box[yi]
    variants = {"copy": copy.copy, "deepcopy": copy.deepcopy, "pickle": lambda b: pickle.loads(pickle.dumps(b))}
    fns = {"add": operator.add, "sub": operator.sub, "mul": operator.mul, "div": operator.truediv, "pow": operator.pow}
    for vname, vf in variants.items():
        try:
            xv, yv = vf(x), vf(y)
        except Exception as e:
            ctx.notes.append(f"{vname} of a p-box raised {type(e).__name__}; stream skipped")
            continue
        for op in BARE:
            for code in KNOWN + ["u0"]:
                def inside():
                    try:
                        with C.dependency(PYVAL[code]):
                            return pool.digest(fns[op](xv, yv))
                    except Exception as e:
                        return ("err", err_kind(e))
                got = contextvars.Context().run(inside)
                ref = pool.explicit(op, xi, yi, code)
                ctx.count(("copies", vname, op, code), True, "copies")
                if (code in UNKNOWN and got[0] != "err") or (code in KNOWN and got != ref):
                    ctx.fail({"call": "operator", "kind": "copied-operand", "variant": vname, "op": op, "code": code},
                             {"stream": "copies", "variant": vname, "op": op, "code": code, "x": pool.desc[xi], "y": pool.desc[yi]},
                             f"bare `{op}` on {vname} operands inside dependency({PYVAL[code]!r}) differs from the explicit method on the originals")
    for code in KNOWN:
        for op1, op2 in itertools.product(["add", "sub", "mul"], ["add", "mul", "div"]):
            def chain_in():
                with C.dependency(code):
                    return pool.digest(fns[op2](fns[op1](x, y), x))
            def chain_out():
                return pool.digest(getattr(getattr(x, op1)(y, code), op2)(x, code))
            ctx.count(("chain", op1, op2, code), True, "chain")
            try:
                a_, b_ = contextvars.Context().run(chain_in), contextvars.Context().run(chain_out)
            except Exception as e:
                a_, b_ = ("err", err_kind(e)), None
            if a_ != b_:
                ctx.fail({"call": "operator", "kind": "chained-result", "op": op1 + "," + op2, "code": code},
                         {"stream": "chain", "ops": [op1, op2], "code": code, "x": pool.desc[xi], "y": pool.desc[yi]},
                         f"(x {op1} y) {op2} x inside dependency({code!r}) differs from x.{op1}(y,{code!r}).{op2}(x,{code!r})")
    # operands must not be overwritten by any of the calls above (they were used again and again)
    if pool.snapshot() != snap0:
        ctx.fail({"call": "operator", "kind": "operand-overwritten"}, {"stream": "all", "pool": pool.desc},
                 "an operand p-box was modified in place by an arithmetic call")


def escalated(ctx, pool):
    import warnings
    C, P, O = _repo()
    fns = {"add": operator.add, "sub": operator.sub, "mul": operator.mul, "div": operator.truediv, "pow": operator.pow}
    cls = [("pos", "pos"), ("str", "str2"), ("pos", "str"), ("str", "pos"), ("neg", "t0lo")] if pool.sign else []
    pairs = [(pool.sign[a], pool.sign[b], a, b) for a, b in cls] or [(pool.pairs[0][0], pool.pairs[0][1], "pos", "pos")]
    outer_codes = ["f", "p", "i"]
    k = 0
    for (xi, yi, ca, cb) in pairs:
        x, y = pool.box[xi], pool.box[yi]
        for op in BARE:
            for code in KNOWN + ["u0", "u4", "u5"]:
                k += 1
                outer = outer_codes[k % 3]

                def scenario():
                    log = {}
                    with C.dependency(outer):
                        log["before"] = C.get_current_dependency()
                        try:
                            with C.dependency(PYVAL[code]):
                                log["inside"] = C.get_current_dependency()
                                log["res"] = pool.digest(fns[op](x, y))
                        except BaseException as e:      # noqa
                            log["exc"] = type(e).__name__
                        log["after"] = C.get_current_dependency()
                        try:
                            log["next"] = pool.digest(fns["add"](pool.box[pool.pairs[0][0]], pool.box[pool.pairs[0][1]]))
                        except BaseException as e:      # noqa
                            log["next"] = ("err", type(e).__name__)
                    log["end"] = C.get_current_dependency()
                    return log

                def run_escalated():
                    with warnings.catch_warnings():
                        warnings.simplefilter("error")
                        with np.errstate(all="raise"):
                            return scenario()
                log = contextvars.Context().run(run_escalated)
                ctx.count(("escalated", op, code, ca, cb), True, "escalated")
                case = {"stream": "escalated", "op": op, "code": code, "outer": outer, "x": pool.desc[xi], "y": pool.desc[yi],
                        "log": {k2: (js_res(v) if isinstance(v, tuple) else v) for k2, v in log.items()}}
                feat = {"call": "dependency()", "stream": "escalated", "op": op, "code": code, "xclass": ca, "yclass": cb}
                if tok_of(log["after"]) != outer or tok_of(log["end"]) != "f" or tok_of(log["before"]) != outer:
                    ctx.fail(dict(feat, kind="restore-escalated"), case,
                             f"with warnings as errors: after `with dependency({PYVAL[code]!r})` ended ({log.get('exc', 'normally')}) the setting is "
                             f"{log['after']!r}, before the block it was {outer!r}")
                    continue
                if "inside" in log and tok_of(log["inside"]) != code:
                    ctx.fail(dict(feat, kind="inside-escalated"), case, "inside the block the setting is not the block's code")
                    continue
                ref = pool.explicit(op, xi, yi, code)
                if "res" in log and (code in UNKNOWN or (ref[0] == "ok" and log["res"] != ref)):
                    ctx.fail(dict(feat, kind="value-escalated"), case,
                             f"with warnings as errors / np.errstate(all='raise') bare `{op}` under {PYVAL[code]!r} returned a value that differs from "
                             "the one under the default settings (or a value under an unknown code)")
                    continue
                nref = pool.explicit("add", pool.pairs[0][0], pool.pairs[0][1], outer)
                if log["next"] != nref and not (isinstance(log["next"], tuple) and log["next"][0] == "err"):
                    ctx.fail(dict(feat, kind="next-escalated"), case, "arithmetic after the block no longer uses the enclosing block's code")
    # the process-wide state is as before
    if np.geterr() != {"divide": "warn", "over": "warn", "under": "ignore", "invalid": "warn"}:
        ctx.notes.append("np.geterr() differs from numpy's default after the run: %r" % (np.geterr(),))


def _gen():
    from .translator import dispatch as tr
    res = tr.generate(core.REPO, core.LEAN / "Pun/Gen/DispatchGen.lean")
    t = res["tables"]
    return ("ok: match tables add/mul/pow %d/%d/%d rows, defaults %s/%s/%s; swap chains sub %s div %s; %d operators; context %s"
            % (len(t["add"][0]), len(t["mul"][0]), len(t["pow"][0]), t["add"][1], t["mul"][1], t["pow"][1],
               res["delegate"]["sub"][0], res["delegate"]["div"][0], len(res["operators"]) + 1, res["context"]))


def replay(obj):
    c = obj.get("case", {})
    print(json.dumps({k: v for k, v in obj.items() if k != "case"}, indent=1, default=str))
    if "world" not in c:
        print(json.dumps(c, indent=1, default=str))
        return 0
    core.stub_moments()
    import random
    desc = [(["p", d[0], d[1]] if len(d) == 2 else d) for d in c["pool"]]
    pool = Pool(random.Random(0), 0, desc=desc)
    world, s = c["world"], c["schedule"]
    kinds = {a["id"]: a["kind"] for a in world["actors"]}
    seqs = {a["id"]: flatten(a["prog"], kinds) for a in world["actors"]}
    exp, _ = expectation(world)
    log, crash = Run(world, pool).execute(s)
    rep = core.model_batch("C16", [wire(s, seqs)])[0]
    print("world   :", json.dumps(world))
    print("schedule:", s)
    print("events  :", wire(s, seqs))
    print("impl    :", [[a, tok_of(v), js_res(r)] for a, v, r in log], crash or "")
    print("model   :", rep)
    print("expected:", {a: [e for e, _ in exp[a]] for a in exp})
    return 0
