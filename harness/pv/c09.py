"""C09 — a parametric p-box encloses every distribution of its parameter box.

proof  : Pun.Props.C09Gen (translator/param.py -> Gen/ParamGen.lean: the source's corner enumeration, min/max reductions,
         levels, positional/keyword splitting and moment guard, each proved equal to the hand model; 2^k corners, all
         vertices; enclosure re-proved for the generated bounds) and
         Pun.Props.C09 (corner envelope of a coordinatewise-monotone quantile encloses every member;
         loc-scale / exp∘loc-scale / gamma instances; point parameters degenerate; moment hulls;
         bespoke uniform within one probability step and its exact moments; exponential_by_lambda)
tie    : pba.normal/lognormal/exponential/gumbel_r/logistic/laplace/rayleigh/gamma, pba.uniform,
         pba.exponential_by_lambda  vs  Pun.Param.parametric/uniform/exponentialByLambda; the scipy
         ppf/stats values at the corners are computed by the harness (own family table) and sent as a
         table keyed by the corner, the model does parsing, corner enumeration, envelope, moment hulls
oracle : member distributions (all corners, centre, face midpoints, random interior points): quantiles
         at the 200 grid levels inside [left,right], mean/var inside the intervals (the family's when the
         code hands them over; when it leaves them to the constructor — moments not fitting the discretised
         support — the library's real LP moments are computed for a budgeted subset and judged the same way);
         point parameters give left == right == scipy's quantile; valid boxes must not raise
"""
from __future__ import annotations
import itertools, math, json
from fractions import Fraction as F
import numpy as np
import scipy.stats as sps
from . import core
from .core import q, ql, unq, unql, close, err_kind

N = 200
P = np.linspace(0.001, 0.999, N)          # the library's grid, re-derived here (compared with Params.p_values in run)

# ---- the harness' own knowledge of the families (independent of pba.distributions.named_dists) -------
# order = scipy positional order after p ; req = number of leading parameters without default ;
# kw = constructor accepts keyword parameters ; pos = indices of parameters that must be > 0
FAMS = {
    "normal":      dict(order=["loc", "scale"], req=0, kw=False, positive=["scale"]),
    "lognormal":   dict(order=["mu", "sigma"], req=2, kw=False, positive=["sigma"], exact=2),
    "exponential": dict(order=["loc", "scale"], req=0, kw=True, positive=["scale"]),
    "gumbel_r":    dict(order=["loc", "scale"], req=0, kw=False, positive=["scale"]),
    "logistic":    dict(order=["loc", "scale"], req=0, kw=False, positive=["scale"]),
    "laplace":     dict(order=["loc", "scale"], req=0, kw=False, positive=["scale"]),
    "rayleigh":    dict(order=["loc", "scale"], req=0, kw=True, positive=["scale"]),
    "gamma":       dict(order=["a", "loc", "scale"], req=1, kw=False, positive=["a", "scale"]),
}
SPS = {"normal": sps.norm, "exponential": sps.expon, "gumbel_r": sps.gumbel_r, "logistic": sps.logistic,
       "laplace": sps.laplace, "rayleigh": sps.rayleigh, "gamma": sps.gamma}


def sp_ppf(fam, pos, kw):
    """quantile row exactly as scipy computes it for these positional / keyword values"""
    if fam == "lognormal":
        mu, sigma = pos
        return sps.lognorm(s=sigma, scale=np.exp(mu)).ppf(P)
    return SPS[fam].ppf(P, *pos, **kw)


def sp_stats(fam, pos, kw):
    if fam == "lognormal":
        mu, sigma = pos
        m, v = sps.lognorm(s=sigma, scale=np.exp(mu)).stats(moments="mv")
    else:
        m, v = SPS[fam].stats(*pos, **kw, moments="mv")
    return float(m), float(v)


def sig_ok(fam, k, kwnames):
    f = FAMS[fam]
    order = f["order"]
    if "exact" in f:
        return k == f["exact"] and not kwnames
    if k > len(order):
        return False
    if any(n not in order[k:] for n in kwnames):
        return False
    given = set(order[:k]) | set(kwnames)
    return all(n in given for n in order[:f["req"]])


# ---- parameter specs ---------------------------------------------------------------------------------
def _numobj(x, fl):
    """a number of the given Python / numpy type; its value is float(<the object>)"""
    from fractions import Fraction as Fr
    from decimal import Decimal
    if fl in ("int", "float", "npf", "npi", "bool"):
        return {"int": int, "float": float, "npf": np.float64, "npi": np.int64, "bool": bool}[fl](x)
    if fl == "f32":
        return np.float32(x)
    if fl == "f16":
        return np.float16(x)
    if fl == "ld":
        return np.longdouble(x)
    if fl == "frac":
        return Fr(int(round(x * 3)), 3)
    if fl == "dec":
        return Decimal(repr(float(x)))
    if fl == "big":
        return int(x)                               # Python int beyond 2**53
    if fl == "u8":
        return np.uint8(x)
    raise ValueError(fl)


def numval(x, fl):
    return int(bool(x)) if fl == "bool" else float(_numobj(x, fl))


def build(s):
    from pyuncertainnumber.pba.intervals.number import Interval
    k = s[0]
    if k == "N":
        return _numobj(s[1], s[2])
    if k == "LF":                                   # a list whose elements have a numeric type of their own
        return [_numobj(x, s[2]) for x in s[1]]
    if k == "L":
        return list(s[1])
    if k == "T":
        return tuple(s[1])
    if k == "I":
        return Interval(s[1], s[2])
    if k == "X":
        return {"none": None, "arr": np.array([0.0, 1.0]), "dict": {"lo": 0, "hi": 1}, "set": {0.5}}[s[1]]
    raise ValueError(k)


def spec_wire(s):
    k = s[0]
    if k == "N":
        return "N:" + q(numval(s[1], s[2]))
    if k == "LF":
        return "L:" + ql([numval(x, s[2]) for x in s[1]])
    if k in ("L", "T"):
        return "L:" + ql([float(x) for x in s[1]])
    if k == "I":
        return f"I:{q(float(s[1]))}:{q(float(s[2]))}"
    return "X"


def sem(s):
    """the interval a well-formed spec denotes (harness' own reading), else None"""
    k = s[0]
    if k == "N":
        x = float(numval(s[1], s[2]))
        return (x, x)
    if k == "LF":
        s = ["L", [numval(x, s[2]) for x in s[1]]]
        k = "L"
    if k in ("L", "T"):
        xs = [float(x) for x in s[1]]
        if len(xs) == 1:
            return (xs[0], xs[0])
        if len(xs) == 2 or (len(xs) == 3 and xs[2] != 0):
            return (xs[0], xs[1]) if xs[0] <= xs[1] else None
        return None
    if k == "I":
        return (float(s[1]), float(s[2]))
    return None


# ---- implementation ----------------------------------------------------------------------------------
def _pba():
    import pyuncertainnumber.pba as pba
    return pba


def canon(p):
    L = [float(x) for x in np.asarray(p.left, dtype=float)]
    R = [float(x) for x in np.asarray(p.right, dtype=float)]
    stub = bool(getattr(p, "_c09_stub", False))
    real = bool(getattr(p, "_c09_real", False))
    mom = None
    if not stub:
        mom = [float(p.mean.lo), float(p.mean.hi), float(p.var.lo), float(p.var.hi)]
    return ("ok", L, R, mom, real)


LAST_EXC = [None]            # the exception object of the last failing run_impl
DEFAULT_GRID = (0.001, 0.999, 200)


class use_grid:
    """rebind the public discretisation (Params.steps / p_lboundary / p_hboundary / p_values) and the harness' own
    copy of it (N, P); everything is put back on exit, also when the body raises"""

    def __init__(self, grid):
        self.grid = tuple(grid) if grid else None

    def __enter__(self):
        global N, P
        if self.grid is None:
            return self
        from pyuncertainnumber.pba.params import Params
        self.saved = (Params.p_values, Params.p_lboundary, Params.p_hboundary, Params.steps, N, P)
        lo, hi, n = self.grid
        Params.p_lboundary, Params.p_hboundary, Params.steps = lo, hi, n
        Params.p_values = np.linspace(lo, hi, n)
        N, P = n, np.linspace(lo, hi, n)
        return self

    def __exit__(self, *exc):
        global N, P
        if self.grid is not None:
            from pyuncertainnumber.pba.params import Params
            Params.p_values, Params.p_lboundary, Params.p_hboundary, Params.steps, N, P = self.saved
        return False


def run_strict(c, mode):
    """the same call with floating-point errors ('errstate') or warnings ('warnings') configured to raise"""
    import warnings as _w
    err0 = np.geterr()
    try:
        if mode == "errstate":
            with np.errstate(all="raise"):
                return run_impl(c)
        with _w.catch_warnings():
            _w.simplefilter("error")
            return run_impl(c)
    finally:
        np.seterr(**err0)


LAST_OBJ = [None]            # the real result object of the last successful run_impl (kept alive by run())
OPERAND_CHANGES = []         # operands found modified by a constructor call


def _snap(o):
    """canonical value of an operand (to check that a call leaves it unchanged)"""
    from pyuncertainnumber.pba.intervals.number import Interval
    if isinstance(o, Interval):
        return ("I", float(o.lo), float(o.hi))
    if isinstance(o, (list, tuple)):
        return (type(o).__name__, tuple(_snap(x) for x in o))
    if isinstance(o, np.ndarray):
        return ("arr", tuple(o.ravel().tolist()))
    if isinstance(o, dict):
        return ("dict", tuple(sorted((k, _snap(v)) for k, v in o.items())))
    if isinstance(o, set):
        return ("set", tuple(sorted(o)))
    return (type(o).__name__, o)


DIST_NAMES = {"normal": ["gaussian", "normal", "norm"]}


def run_impl(c):
    pba = _pba()
    LAST_OBJ[0] = None
    try:
        via = c.get("via")
        if via:
            # the less common entry point: a precise Distribution(family, params) turned into a p-box
            vals = [build(s) for s in c["pos"]]
            params = {"tuple": tuple, "list": list}[via["container"]](vals) if via["container"] != "scalar" else vals[0]
            before = _snap(params)
            if via["entry"] == "un":
                import pyuncertainnumber as pun
                d = None
                obj = pun.UncertainNumber(essence="pbox", distribution_parameters=[via["name"], params]).construct
            else:
                d = pba.Distribution(via["name"], params)
            if via["entry"] == "un":
                pass
            elif via["entry"] == "to_pbox":
                obj = d.to_pbox()
            elif via["entry"] == "convert":
                from pyuncertainnumber.pba.operation import convert
                obj = convert(d)
            elif via["entry"] == "add0":
                obj = d + 0.0
            else:
                obj = -(-d)
            if _snap(params) != before:
                OPERAND_CHANGES.append((case_json(c), "Distribution parameters"))
        else:
            args = [build(s) for s in c["pos"]]
            if c.get("alias"):          # one and the same object handed over for every positional parameter
                args = [args[0]] * len(args)
            kwargs = {n: build(s) for n, s in c["kw"]}
            before = (_snap(args), _snap(kwargs))
            if c["kind"] == "par":
                obj = getattr(pba, c["fam"])(*args, **kwargs)
            elif c["kind"] == "uni":
                obj = pba.uniform(args[0], args[1])
            elif c["kind"] == "ebl":
                obj = pba.exponential_by_lambda(args[0])
            else:
                raise ValueError(c["kind"])
            if (_snap(args), _snap(kwargs)) != before:
                OPERAND_CHANGES.append((case_json(c), "constructor arguments"))
        LAST_OBJ[0] = obj
        return canon(obj)
    except BaseException as e:  # noqa
        LAST_EXC[0] = e
        return ("err", err_kind(e))


def run_impl_real_moments(c):
    """same call with the library's own moment computation (LP) in place of the harness stub"""
    from pyuncertainnumber.pba.pbox_abc import Staircase
    cur = Staircase._init_moments
    realf = Staircase._verif_real_init_moments

    def real(self):
        realf(self)
        self._c09_real = True
    Staircase._init_moments = real
    try:
        return run_impl(c)
    finally:
        Staircase._init_moments = cur


def _mark_stub():
    from pyuncertainnumber.pba.pbox_abc import Staircase
    core.stub_moments()
    cur = Staircase._init_moments
    if not getattr(cur, "_c09", False):
        def marked(self):
            cur(self)
            self._c09_stub = True
        marked._c09 = True
        Staircase._init_moments = marked


# ---- wire ----------------------------------------------------------------------------------------------
def finite(xs):
    return all(math.isfinite(float(x)) for x in xs)


def box_of(c):
    """[(name, lo, hi)] in the order positional then keyword, or None when a spec is malformed"""
    out = []
    if c["kind"] == "par":
        order = FAMS[c["fam"]]["order"]
        for i, s in enumerate(c["pos"]):
            iv = sem(s)
            if iv is None:
                return None
            out.append((order[i] if i < len(order) else f"extra{i}", iv[0], iv[1]))
        for n, s in c["kw"]:
            iv = sem(s)
            if iv is None:
                return None
            out.append((n, iv[0], iv[1]))
        return out
    names = ["a", "b"] if c["kind"] == "uni" else ["lamb"]
    for n, s in zip(names, c["pos"]):
        iv = sem(s)
        if iv is None:
            return None
        out.append((n, iv[0], iv[1]))
    return out


def wire(c):
    if c["kind"] == "uni":
        return f"uni {N} {spec_wire(c['pos'][0])} {spec_wire(c['pos'][1])}"
    if c["kind"] == "ebl":
        s0 = c["pos"][0]
        iv = sem(s0)
        if iv is None and s0[0] in ("L", "T") and len(s0[1]) == 3 and s0[1][2] == 0:
            iv = (float(s0[1][0]), float(s0[1][1]))        # unchecked Interval: endpoints used as given
        rows = ["nan", "nan"]
        if iv is not None:
            for j, lam in enumerate(iv):
                with np.errstate(all="ignore"):
                    r = sps.expon(scale=1 / np.float64(lam)).ppf(P)
                if finite(r):
                    rows[j] = ql(r)
        return f"ebl {spec_wire(c['pos'][0])} {rows[0]} {rows[1]}"
    fam = c["fam"]
    k = len(c["pos"])
    kwn = [n for n, _ in c["kw"]]
    ok = sig_ok(fam, k, kwn)
    ents = []
    b = box_of(c)
    if b is not None and ok:
        seen = set()
        for cor in itertools.product(*[(lo, hi) for _, lo, hi in b]):
            if cor in seen:
                continue
            seen.add(cor)
            pos, kw = cor[:k], dict(zip(kwn, cor[k:]))
            with np.errstate(all="ignore"):
                row = sp_ppf(fam, pos, kw)
                m, v = sp_stats(fam, pos, kw)
            if finite(row) and finite([m, v]):
                ents.append(f"{ql(cor)};{ql(row)};{q(m)};{q(v)}")
            else:
                ents.append(f"{ql(cor)};nan")
    specs = [spec_wire(s) for s in c["pos"]]
    kws = [spec_wire(s) for _, s in c["kw"]]
    return " ".join(["par", "1" if ok else "0", str(k)] + specs + [str(len(kws))] + kws + [str(len(ents))] + ents)


def raw_mag(c):
    vals = [1e-300]
    for s in c["pos"]:
        if s[0] == "N":
            vals.append(abs(float(numval(s[1], s[2]))))
        elif s[0] == "LF":
            vals += [abs(float(numval(x, s[2]))) for x in s[1][:2]]
        elif s[0] in ("L", "T"):
            vals += [abs(float(x)) for x in s[1][:2]]
        elif s[0] == "I":
            vals += [abs(float(s[1])), abs(float(s[2]))]
    return max(vals)


def parse_model(s):
    t = s.split()
    if t[0] == "err":
        return ("err", t[1])
    if t[0] == "ok":
        return ("ok", unql(t[1]), unql(t[2]), None if t[3] == "none" else [unq(x) for x in t[3:7]])
    return ("bad", s)


def agrees(c, impl, model):
    if impl[0] != model[0]:
        return False
    if impl[0] == "err":
        return impl[1] == model[1]
    if len(impl[1]) != len(model[1]) or len(impl[2]) != len(model[2]):
        return False
    if c["kind"] == "uni":
        mag = raw_mag(c)
        tol = F(8) * F(core.ulp(mag)) + F(1, 10 ** 300)
        eq = lambda a, m: abs(F(a) - m) <= tol
        eqm = lambda a, m: abs(F(a) - m) <= F(16) * F(core.ulp(max(mag, mag * mag))) + F(1, 10 ** 300)
    elif c["kind"] == "ebl":
        eq = lambda a, m: F(a) == m
        eqm = lambda a, m: close(a, m, 3)
    else:
        eq = eqm = lambda a, m: F(a) == m            # min / max of supplied values: exact
    for a, m in zip(impl[1] + impl[2], model[1] + model[2]):
        if not math.isfinite(a) or not eq(a, m):
            return False
    if c.get("nomom"):
        return True
    derived = impl[3] is None or bool(impl[4])       # the constructor derived the moments itself (stub or LP)
    if model[3] is None:
        return derived                                # model: mean = var = None were handed over
    if derived:
        return False
    for a, m in zip(impl[3], model[3]):
        if not math.isfinite(a) or not eqm(a, m):
            return False
    return True


# ---- semantic oracle -------------------------------------------------------------------------------------
REL = 1e-12


def inside(lo, x, hi, scale=0.0):
    t = REL * max(abs(lo), abs(x), abs(hi), scale) + 1e-300
    return lo - t <= x <= hi + t


def valid_box(c, b):
    """the box lies inside the property's quantifier (every point is a distribution of the family)"""
    if c["kind"] == "par":
        fam = c["fam"]
        if not sig_ok(fam, len(c["pos"]), [n for n, _ in c["kw"]]):
            return False
        return all(lo > 0 for n, lo, hi in b if n in FAMS[fam]["positive"])
    if c["kind"] == "uni":
        (_, alo, ahi), (_, blo, bhi) = b
        return ahi <= blo
    return b[0][1] > 0


def members(rng, b, n_rand):
    """parameter points of the box: every corner, the centre, face midpoints, random interior points"""
    pts = set(itertools.product(*[(lo, hi) for _, lo, hi in b]))
    mid = tuple((lo + hi) / 2 for _, lo, hi in b)
    pts.add(mid)
    for j, (_, lo, hi) in enumerate(b):
        for e in (lo, hi):
            pts.add(mid[:j] + (e,) + mid[j + 1:])
    for _ in range(n_rand):
        pt = []
        for _, lo, hi in b:
            r = rng.random()
            x = lo + (hi - lo) * (rng.random() if r < 0.7 else rng.choice([1e-9, 1 - 1e-9, 0.5, 1e-3]))
            pt.append(min(max(x, lo), hi))
        pts.add(tuple(pt))
    return sorted(pts)


def oracle(ctx, c, impl, rng, n_rand):
    """list of (check, description) failures of the property on the real result"""
    b = box_of(c)
    if b is None:
        return []
    overlap = False
    edge = None
    if c["kind"] == "par" and not valid_box(c, b) and sig_ok(c["fam"], len(c["pos"]), [n for n, _ in c["kw"]]) \
            and all(lo <= hi for _, lo, hi in b):
        # the box reaches outside the family's domain (a positive parameter <= 0 at some corner)
        bad = [(n, lo, hi) for n, lo, hi in b if n in FAMS[c["fam"]]["positive"] and lo <= 0]
        if impl[0] == "err":
            return []                      # refusing such a box is always right
        n0, lo0, hi0 = bad[0]
        corner = {n: (lo if n == n0 else lo) for n, lo, hi in b}
        if lo0 < 0 or hi0 <= 0:
            # straddling the boundary, or entirely outside: no p-box of "every member" exists, the call must raise
            return [("domain", f"parameter box {b} contains points outside the {c['fam']} family's domain (corner {corner}: "
                               f"{n0} = {lo0!r}) but a p-box was returned instead of an exception")]
        edge = bad                          # touching the boundary (parameter = 0 at a corner): judge the valid members
    if edge is not None:
        pass
    elif not valid_box(c, b):
        # bespoke uniform with overlapping endpoint intervals: not every point of the box is a distribution, the constructor
        # may refuse it; when it answers, the members with a0 <= b0 are judged like any others
        overlap = (c["kind"] == "uni" and impl[0] == "ok" and b[0][1] <= b[0][2] and b[1][1] <= b[1][2]
                   and b[0][1] <= b[1][1] and b[0][2] <= b[1][2])
        if not overlap:
            return []
    fails = []
    if impl[0] == "err":
        return [("raises", f"valid parameter box {b} raises {impl[1]}")]
    L, R, mom = np.array(impl[1]), np.array(impl[2]), impl[3]
    point = all(lo == hi for _, lo, hi in b)
    names = [n for n, _, _ in b]
    if c["kind"] == "par":
        fam, k = c["fam"], len(c["pos"])
        mem = members(rng, b, n_rand)
        if edge is not None:               # only the members inside the domain; some close to the boundary
            extra = []
            for th in list(mem):
                for n, lo, hi in edge:
                    j = names.index(n)
                    for f in (1e-6, 1e-2, 0.5):
                        extra.append(th[:j] + (lo + (hi - lo) * f,) + th[j + 1:])
            mem = [th for th in mem + extra if all(th[names.index(n)] > 0 for n, _, _ in edge)]
        for th in mem:
            pos, kw = th[:k], dict(zip(names[k:], th[k:]))
            qs = sp_ppf(fam, pos, kw)
            sc = float(np.max(np.abs(qs)))
            bad = [i for i in range(N) if not inside(L[i], qs[i], R[i])]
            if bad:
                i = bad[0]
                fails.append(("enclosure", f"member {dict(zip(names, th))}: quantile at p[{i}] = {qs[i]!r} outside [{L[i]!r}, {R[i]!r}] ({len(bad)} levels)"))
            if point:
                dif = [i for i in range(N) if abs(L[i] - qs[i]) > 4 * core.ulp(qs[i]) or abs(R[i] - qs[i]) > 4 * core.ulp(qs[i])]
                if dif:
                    i = dif[0]
                    fails.append(("degenerate", f"point parameters {dict(zip(names, th))}: bounds [{L[i]!r},{R[i]!r}] at p[{i}] differ from the quantile {qs[i]!r}"))
            if mom is not None:
                m, v = sp_stats(fam, pos, kw)
                if not inside(mom[0], m, mom[1]):
                    fails.append(("moments", f"member {dict(zip(names, th))}: mean {m!r} outside [{mom[0]!r}, {mom[1]!r}]"))
                if not inside(mom[2], v, mom[3]):
                    fails.append(("moments", f"member {dict(zip(names, th))}: variance {v!r} outside [{mom[2]!r}, {mom[3]!r}]"))
            if fails:
                break
    elif c["kind"] == "uni":
        mag = max(abs(x) for _, lo, hi in b for x in (lo, hi))
        tol = F(16) * F(core.ulp(mag))
        LF, RF, PF = [F(x) for x in impl[1]], [F(x) for x in impl[2]], [F(float(x)) for x in P]
        if point and impl[1] != impl[2]:
            fails.append(("degenerate", f"point parameters {b}: left != right"))
        mem = members(rng, b, n_rand)
        if overlap:     # narrow members inside the overlap [b.lo, a.hi]
            o1, o2 = b[1][1], b[0][2]
            mem += [(o1, o1), (o2, o2), ((o1 + o2) / 2, (o1 + o2) / 2), (o1, o2), (o1 + (o2 - o1) * 0.4, o1 + (o2 - o1) * 0.6)]
        for th in mem:
            a0, b0 = F(th[0]), F(th[1])
            if a0 > b0:
                continue
            for i in range(N):
                qi = a0 + PF[i] * (b0 - a0)
                if not (LF[max(i - 1, 0)] - tol <= qi <= RF[min(i + 1, N - 1)] + tol):
                    fails.append(("enclosure", f"member U({th[0]!r},{th[1]!r}): quantile at p[{i}] = {float(qi)!r} outside the neighbouring steps [{impl[1][max(i-1,0)]!r}, {impl[2][min(i+1,N-1)]!r}]"))
                    break
            if mom is not None:
                m, v = (a0 + b0) / 2, (b0 - a0) ** 2 / 12
                tm = F(16) * F(core.ulp(max(mag, mag * mag)))
                if not (F(mom[0]) - tm <= m <= F(mom[1]) + tm):
                    fails.append(("moments", f"member U({th[0]!r},{th[1]!r}): mean {float(m)!r} outside [{mom[0]!r}, {mom[1]!r}]"))
                if not (F(mom[2]) - tm <= v <= F(mom[3]) + tm):
                    fails.append(("moments", f"member U({th[0]!r},{th[1]!r}): variance {float(v)!r} outside [{mom[2]!r}, {mom[3]!r}]"))
            if fails:
                break
    else:
        if point and any(abs(x - y) > 4 * core.ulp(x) for x, y in zip(impl[1], impl[2])):
            fails.append(("degenerate", f"point rate {b}: left != right"))
        for th in members(rng, b, n_rand):
            lam = th[0]
            qs = sps.expon(scale=1 / lam).ppf(P)
            bad = [i for i in range(N) if not inside(L[i], qs[i], R[i])]
            if bad:
                i = bad[0]
                fails.append(("enclosure", f"member Exp(rate={lam!r}): quantile at p[{i}] = {qs[i]!r} outside [{L[i]!r}, {R[i]!r}]"))
            if point and any(abs(L[i] - qs[i]) > 4 * core.ulp(qs[i]) for i in range(N)):
                fails.append(("degenerate", f"point rate {lam!r}: bounds differ from the quantile function"))
            if mom is not None:
                if not inside(mom[0], 1 / lam, mom[1]):
                    fails.append(("moments", f"member Exp(rate={lam!r}): mean {1/lam!r} outside [{mom[0]!r}, {mom[1]!r}]"))
                if not inside(mom[2], (1 / lam) * (1 / lam), mom[3]):
                    fails.append(("moments", f"member Exp(rate={lam!r}): variance {(1/lam)*(1/lam)!r} outside [{mom[2]!r}, {mom[3]!r}]"))
            if fails:
                break
    return fails


# ---- generators ----------------------------------------------------------------------------------------
def form(rng, lo, hi, allow_point_forms=True):
    """wrap an interval [lo,hi] in one of the accepted parameter forms"""
    if lo == hi and allow_point_forms:
        r = rng.random()
        if r < 0.35:
            isint = float(lo).is_integer() and abs(lo) < 2 ** 40
            fl = rng.choice(["float", "npf"] + (["int", "npi"] if isint else []))
            return ["N", lo, fl]
        if r < 0.5:
            return [rng.choice(["L", "T"]), [lo]]
    r = rng.random()
    if r < 0.4:
        return ["L", [lo, hi]]
    if r < 0.6:
        return ["T", [lo, hi]]
    if r < 0.9:
        return ["I", lo, hi]
    return [rng.choice(["L", "T"]), [lo, hi, rng.choice([1, 1.0, 2.5, -1])]]


def rnd_iv(rng, kind):
    """an interval for a location ('loc'), a positive parameter ('pos')"""
    if kind == "loc":
        c = rng.choice([0.0, rng.uniform(-5, 5), rng.uniform(-1, 1) * 10 ** rng.uniform(-3, 4), float(rng.randint(-20, 20))])
        w = rng.choice([0.0, 0.0, rng.uniform(0, 3), 10 ** rng.uniform(-9, 3), float(rng.randint(1, 5))])
        return (c - w / 2, c + w / 2) if rng.random() < 0.5 else (c, c + w)
    lo = rng.choice([10 ** rng.uniform(-3, 3), rng.uniform(0.1, 5), float(rng.randint(1, 6)), 0.5, 1.0])
    w = rng.choice([0.0, 0.0, rng.uniform(0, 3), lo * 10 ** rng.uniform(-9, 1), float(rng.randint(1, 4))])
    return (lo, lo + w)


def rnd_shape(rng):
    lo = rng.choice([10 ** rng.uniform(-1, 2), rng.uniform(0.3, 8), float(rng.randint(1, 9)), 0.5])
    w = rng.choice([0.0, rng.uniform(0, 4), lo * 10 ** rng.uniform(-6, 0.5), float(rng.randint(1, 4))])
    return (lo, lo + w)


def par_case(rng, fam, stream, point=False, kwmode=None):
    f = FAMS[fam]
    order = f["order"]
    ivs = {}
    for n in order:
        if n in ("loc", "mu"):
            ivs[n] = rnd_iv(rng, "loc")
        elif n == "a":
            ivs[n] = rnd_shape(rng)
        else:
            ivs[n] = rnd_iv(rng, "pos")
        if n == "sigma":                      # keep exp(mu + sigma z) finite and meaningful
            ivs[n] = (min(ivs[n][0], 3.0), min(ivs[n][0], 3.0) + min(ivs[n][1] - ivs[n][0], 2.0))
        if n == "mu":
            ivs[n] = (max(min(ivs[n][0], 50.0), -50.0), max(min(ivs[n][1], 50.0), -50.0))
        if point:
            ivs[n] = (ivs[n][0], ivs[n][0])
    if "exact" in f:
        k = f["exact"]
    else:
        k = rng.choice(range(f["req"], len(order) + 1)) if rng.random() < 0.3 else len(order)
    pos, kw = [], []
    if f["kw"] and kwmode is not None:
        if kwmode == "scale":
            k, kwn = 0, ["scale"]
        elif kwmode == "loc+scale":
            k, kwn = 1, ["scale"]
        elif kwmode == "both":
            k, kwn = 0, rng.choice([["loc", "scale"], ["scale", "loc"]])
        else:
            k, kwn = 0, ["loc"]
        kw = [[n, form(rng, *ivs[n])] for n in kwn]
    pos = [form(rng, *ivs[n]) for n in order[:k]]
    return {"kind": "par", "fam": fam, "pos": pos, "kw": kw, "stream": stream}


GRID_FORMS = [lambda lo, hi: ["L", [lo, hi]], lambda lo, hi: ["T", [lo, hi]], lambda lo, hi: ["I", lo, hi],
              lambda lo, hi: ["L", [lo, hi, 1]], lambda lo, hi: ["N", lo, "float"], lambda lo, hi: ["N", lo, "int"],
              lambda lo, hi: ["N", lo, "npf"], lambda lo, hi: ["N", lo, "npi"], lambda lo, hi: ["L", [lo]], lambda lo, hi: ["T", [lo]]]


def gen_cases(ctx):
    rng = ctx.rng
    cases = []
    fams = list(FAMS)
    # 1. grid: every family x every pair of parameter forms on one small integer box (+ the always-present witnesses)
    for fam in fams:
        order = FAMS[fam]["order"]
        base = {"loc": (-1, 2), "mu": (-1, 1), "scale": (1, 3), "sigma": (1, 2), "a": (2, 4)}
        for f1, f2 in itertools.product(range(len(GRID_FORMS)), repeat=2):
            if fam != "normal" and (f1 + 3 * f2) % 4 != 0:      # full 10x10 for normal, a quarter elsewhere
                continue
            specs = []
            for j, n in enumerate(order):
                fm = GRID_FORMS[[f1, f2, (f1 + f2) % len(GRID_FORMS)][j]]
                specs.append(fm(*base[n]))
            cases.append({"kind": "par", "fam": fam, "pos": specs, "kw": [], "stream": "grid-forms"})
        # fewer positional parameters (scipy defaults)
        for k in range(0, len(order)):
            cases.append({"kind": "par", "fam": fam, "pos": [["L", list(base[n])] for n in order[:k]], "kw": [], "stream": "grid-arity"})
        cases.append({"kind": "par", "fam": fam, "pos": [["L", list(base[n])] for n in order] + [["L", [1, 2]]], "kw": [], "stream": "grid-arity"})
    # family moments that do not fit the discretised support [ppf(0.001), ppf(0.999)]: the constructor derives the
    # moments from the bounds (witnesses of KF-C09-lognormal-derived-moments; run with the library's real moment code)
    for mu, sg in [((0, 0), (3, 3)), ((0, 1), (3, 4)), ((0, 0), (3.5, 3.5))]:
        cases.append({"kind": "par", "fam": "lognormal", "pos": [["L", list(mu)], ["L", list(sg)]], "kw": [],
                      "stream": "derived-moments", "mom": True})
    # ---- round 3 streams -------------------------------------------------------------------------------------
    num = lambda x: ["N", x, "int" if isinstance(x, int) else "float"]
    # wide boxes: the reported mean / variance intervals must contain the corner members' moments (real moment code
    # whenever the constructor derives the moments itself)
    wide = [("normal", [["L", [4, 20]], num(1)], []), ("exponential", [], [["scale", ["L", [1, 8]]]]),
            ("gamma", [["L", [1, 12]], num(0), num(1)], []), ("logistic", [["L", [-10, 40]], ["L", [1, 2]]], []),
            ("laplace", [["T", [0, 30]], num(1.5)], []), ("gumbel_r", [["I", -5, 25], num(1)], []),
            ("rayleigh", [["L", [0, 0]], ["L", [1, 9]]], []), ("rayleigh", [], [["scale", ["L", [1, 9]]]]),
            ("lognormal", [["L", [0, 4]], num(0.5)], []), ("exponential", [["L", [0, 50]], ["L", [1, 2]]], []),
            ("normal", [["L", [-1000, 1000]], ["L", [0.5, 1]]], []), ("exponential", [num(0), ["L", [0.5, 40]]], [])]
    for fam, pos, kw in wide:
        cases.append({"kind": "par", "fam": fam, "pos": pos, "kw": kw, "stream": "wide-box", "mom": True})
    for _ in range(ctx.scale(10, 150)):
        fam = rng.choice([f for f in fams if f != "lognormal"])
        order = FAMS[fam]["order"]
        sc = 10 ** rng.uniform(-2, 2)
        iv = {"loc": (0.0, 0.0), "scale": (sc, sc * rng.uniform(1, 1.5)), "a": (1.0, 1.0 + rng.choice([0, 1, 10]))}
        if rng.random() < 0.6:
            c0 = rng.uniform(-5, 5) * sc
            iv["loc"] = (c0, c0 + sc * rng.uniform(8, 1000))
        else:
            iv["scale"] = (sc, sc * rng.uniform(8, 60))
        cases.append({"kind": "par", "fam": fam, "pos": [form(rng, *iv[n]) for n in order], "kw": [], "stream": "wide-box", "mom": True})
    # thin but not degenerate boxes (relative widths 1e-9 .. 1e-5, tiny magnitudes)
    for fam in fams:
        order = FAMS[fam]["order"]
        for rel, mag in [(1e-9, 2.0), (1e-6, 3.0), (1e-5, 0.75), (3.0, 2e-9)]:
            iv = {}
            for n in order:
                base = mag * (1.5 if n in ("scale", "sigma", "a") else 1.0)
                if n == "sigma":
                    base = min(base, 1.0)
                iv[n] = (base, base * (1 + rel))
            cases.append({"kind": "par", "fam": fam, "pos": [["L", list(iv[n])] for n in order], "kw": [], "stream": "thin"})
    cases.append({"kind": "uni", "pos": [["L", [2e-9, 8e-9]], ["L", [1.0, 1.0 + 1e-9]]], "kw": [], "stream": "thin"})
    cases.append({"kind": "uni", "pos": [["L", [1.0, 1.0 + 1e-9]], ["L", [2.0, 2.0 + 1e-6]]], "kw": [], "stream": "thin"})
    cases.append({"kind": "ebl", "pos": [["L", [2.0, 2.0 + 2e-9]]], "kw": [], "stream": "thin"})
    cases.append({"kind": "ebl", "pos": [["L", [2e-9, 8e-9]]], "kw": [], "stream": "thin"})
    # extreme constants as parameters
    kB = 1.380649e-23
    ext = [("normal", [num(1e-20), num(1)]), ("normal", [["L", [0, 1]], num(1e-20)]), ("normal", [num(1e18), ["L", [1e15, 2e15]]]),
           ("exponential", [num(kB), ["L", [1, 2]]]), ("exponential", [num(0), ["L", [2.0 ** -60, 2.0 ** -59]]]),
           ("gamma", [["L", [1, 2]], num(0), num(1e18)]), ("logistic", [num(1e18), num(1e15)]), ("laplace", [["L", [-1e-20, 1e-20]], num(1)]),
           ("gumbel_r", [num(0), ["L", [1e-20, 3e-20]]]), ("rayleigh", [["L", [0, 1e-20]], num(1e18)]), ("lognormal", [["L", [-40, -39]], num(1e-20)]),
           ("lognormal", [num(kB), ["L", [1, 2]]])]
    for fam, pos in ext:
        cases.append({"kind": "par", "fam": fam, "pos": pos, "kw": [], "stream": "extreme"})
    cases.append({"kind": "uni", "pos": [num(0), num(1e18)], "kw": [], "stream": "extreme"})
    cases.append({"kind": "uni", "pos": [num(1e-20), ["L", [1, 2]]], "kw": [], "stream": "extreme"})
    cases.append({"kind": "ebl", "pos": [["L", [1e-20, 2e-20]]], "kw": [], "stream": "extreme"})
    cases.append({"kind": "ebl", "pos": [["L", [1e15, 1e18]]], "kw": [], "stream": "extreme"})
    # the Distribution(...) entry point: precise distributions given as tuple / list / scalar parameters
    dist_fams = [("normal", n) for n in ("gaussian", "normal", "norm")] + [(f, f) for f in fams if f != "normal"]
    pt = lambda: rng.choice([float(rng.randint(-5, 9)), rng.randint(-5, 9), round(rng.uniform(-5, 9), 3)])
    pp = lambda: rng.choice([float(rng.randint(1, 6)), rng.randint(1, 6), round(rng.uniform(0.2, 4), 3)])
    entries = ["to_pbox", "convert", "add0", "negneg"]
    k = 0
    for rep in range(ctx.scale(1, 8)):
        for fam, name in dist_fams:
            order = FAMS[fam]["order"]
            full = [num(pp() if n in FAMS[fam]["positive"] else pt()) for n in order]
            variants = [full]
            if "exact" not in FAMS[fam] and FAMS[fam]["req"] <= 1:
                variants.append(full[:1])
            for pos in variants:
                for cont in (["tuple", "list"] + (["scalar"] if len(pos) == 1 else [])):
                    for entry in (entries if rep == 0 else [entries[k % 4]]):
                        k += 1
                        cases.append({"kind": "par", "fam": fam, "pos": pos, "kw": [], "stream": "dist-entry",
                                      "via": {"name": name, "container": cont, "entry": entry}, "nomom": entry in ("add0", "negneg")})
        for cont in ("tuple", "list"):
            a0 = pt()
            for entry in (entries if rep == 0 else ["to_pbox"]):
                cases.append({"kind": "uni", "pos": [num(a0), num(a0 + pp())], "kw": [], "stream": "dist-entry",
                              "via": {"name": "uniform", "container": cont, "entry": entry}, "nomom": entry in ("add0", "negneg")})
    # sequences: the same numbers bound differently in consecutive calls (positional / keyword / other keyword names)
    seq = [("exponential", [["L", [1, 2]]], []), ("exponential", [], [["scale", ["L", [1, 2]]]]), ("exponential", [], [["loc", ["L", [1, 2]]]]),
           ("rayleigh", [num(3)], []), ("rayleigh", [], [["scale", num(3)]]), ("rayleigh", [], [["loc", num(3)]]),
           ("rayleigh", [], [["loc", num(2)], ["scale", num(5)]]), ("rayleigh", [], [["scale", num(2)], ["loc", num(5)]]),
           ("exponential", [["L", [2, 5]], ["L", [3, 4]]], []), ("exponential", [], [["scale", ["L", [2, 5]]], ["loc", ["L", [3, 4]]]]),
           ("exponential", [["L", [2, 5]]], [["scale", ["L", [3, 4]]]]), ("exponential", [["L", [3, 4]]], [["scale", ["L", [2, 5]]]]),
           ("normal", [["L", [1, 2]]], []), ("normal", [num(0), ["L", [1, 2]]], []), ("gamma", [["L", [1, 2]]], []),
           ("gamma", [num(3), ["L", [1, 2]]], []), ("gamma", [num(3), num(0), ["L", [1, 2]]], [])]
    for rnd in range(2):
        for fam, pos, kw in (seq if rnd == 0 else list(reversed(seq))):
            cases.append({"kind": "par", "fam": fam, "pos": json.loads(json.dumps(pos)), "kw": json.loads(json.dumps(kw)), "stream": "sequence"})
    # ---- round 4 streams -------------------------------------------------------------------------------------
    # domain edges: a positive parameter reaching 0 or below at one corner only (must raise; a returned value is judged),
    # and valid extreme boxes just inside the domain (must not raise)
    num4 = lambda x: ["N", x, "int" if isinstance(x, int) else "float"]
    for fam in fams:
        order = FAMS[fam]["order"]
        okv = {"loc": ["L", [4, 5]], "mu": ["L", [0, 1]], "scale": num4(1), "sigma": num4(1), "a": num4(2)}
        for n in FAMS[fam]["positive"]:
            for lo, hi in [(0, 1), (-1, 1), (0.0, 2.0), (-1e-17, 1.0), (-2, 3), (0, 0), (-2, -1)]:
                for fm in (lambda a, b: ["L", [a, b]], lambda a, b: ["T", [a, b]], lambda a, b: ["I", a, b]):
                    if fm(0, 1)[0] != "L" and (lo, hi) not in [(0, 1), (-1, 1)]:
                        continue
                    pos = [fm(lo, hi) if m == n else okv[m] for m in order]
                    cases.append({"kind": "par", "fam": fam, "pos": pos, "kw": [], "stream": "malformed-domain-edge"})
            for lo, hi in [(1e-300, 1.0), (5e-324, 1e-300), (1e-12, 1e-9)]:
                if n == "a" or (n == "sigma" and lo < 1e-12):
                    lo, hi = max(lo, 1e-3), max(hi, 2e-3)
                pos = [["L", [lo, hi]] if m == n else okv[m] for m in order]
                cases.append({"kind": "par", "fam": fam, "pos": pos, "kw": [], "stream": "domain-inside"})
    for fam in ("exponential", "rayleigh"):
        for lo, hi in [(0, 2), (-1, 1), (-1e-17, 1.0)]:
            cases.append({"kind": "par", "fam": fam, "pos": [], "kw": [["scale", ["L", [lo, hi]]]], "stream": "malformed-domain-edge"})
            cases.append({"kind": "par", "fam": fam, "pos": [["L", [1, 2]]], "kw": [["scale", ["T", [lo, hi]]]], "stream": "malformed-domain-edge"})
    cases.append({"kind": "par", "fam": "normal", "pos": [num4(5), ["L", [0, 1]]], "kw": [], "stream": "malformed-domain-edge"})
    cases.append({"kind": "par", "fam": "gamma", "pos": [["L", [0, 2]]], "kw": [], "stream": "malformed-domain-edge"})
    for lam in [(0, 2), (-1, 1), (-1e-17, 1.0)]:
        cases.append({"kind": "ebl", "pos": [["L", list(lam)]], "kw": [], "stream": "malformed-domain-edge"})
    # one and the same operand object for every parameter; the UncertainNumber(essence='pbox', ...) layer
    for fam in fams:
        order = FAMS[fam]["order"]
        for sp in (["L", [1, 2]], ["I", 1.5, 2.5], ["T", [2, 2]], num4(2)):
            cases.append({"kind": "par", "fam": fam, "pos": [json.loads(json.dumps(sp)) for _ in order], "kw": [],
                          "stream": "same-operand", "alias": True})
    un_names = [("normal", "gaussian"), ("normal", "norm")] + [(f, f) for f in fams if f != "normal"]
    for _ in range(ctx.scale(2, 12)):
        for fam, name in un_names:
            c = par_case(rng, fam, "un-layer")
            c["pos"] = [sp for sp in c["pos"]]
            if len(c["pos"]) == len(FAMS[fam]["order"]):
                c["via"] = {"name": name, "container": "tuple", "entry": "un"}
                cases.append(c)
    # ---- round 7 streams -------------------------------------------------------------------------------------
    num7 = lambda x: ["N", x, "int" if isinstance(x, int) else "float"]
    # the public discretisation rebound to another grid (same length with other boundaries; other lengths), used, put back;
    # the cases before and after run on the default grid (the bespoke uniform is left out: its one-step claim is about
    # the default boundaries and it discretises with its own import-time `steps`)
    for grid in [(0.02, 0.98, 200), (0.005, 0.995, 200), (0.001, 0.999, 100), (0.001, 0.999, 300), (0.01, 0.99, 40)]:
        cases.append({"kind": "par", "fam": "normal", "pos": [["L", [0.0, 0.1]], ["L", [1.0, 1.05]]], "kw": [], "stream": "grid-changed"})
        for fam in fams:
            order = FAMS[fam]["order"]
            iv = {"loc": (0.0, 0.1), "mu": (0.0, 0.1), "scale": (1.0, 1.05), "sigma": (0.5, 0.55), "a": (2.0, 2.2)}
            cases.append({"kind": "par", "fam": fam, "pos": [form(rng, *iv[n]) for n in order], "kw": [], "stream": "grid-changed", "grid": list(grid)})
            cases.append({"kind": "par", "fam": fam, "pos": [num7(iv[n][0] + 2.0) for n in order], "kw": [], "stream": "grid-changed", "grid": list(grid)})
        cases.append({"kind": "par", "fam": "exponential", "pos": [], "kw": [["scale", num7(2.0)]], "stream": "grid-changed", "grid": list(grid)})
        cases.append({"kind": "par", "fam": "normal", "pos": [num7(2.0), num7(3.0)], "kw": [], "stream": "grid-changed", "grid": list(grid),
                      "via": {"name": "gaussian", "container": "tuple", "entry": "to_pbox"}})
        cases.append({"kind": "ebl", "pos": [["L", [1, 2]]], "kw": [], "stream": "grid-changed", "grid": list(grid)})
        c = par_case(rng, rng.choice(fams), "grid-changed")
        c["grid"] = list(grid)
        cases.append(c)
        cases.append({"kind": "par", "fam": "normal", "pos": [["L", [0.0, 0.1]], ["L", [1.0, 1.05]]], "kw": [], "stream": "grid-changed"})
    # floating-point errors / warnings configured to raise: boxes with a corner whose moments under- or overflow while
    # its quantiles do not, and ordinary boxes
    strict = [("normal", [["L", [0, 1]], ["L", [1e-160, 1.0]]], []), ("exponential", [], [["scale", ["I", 1e-170, 2.0]]]),
              ("lognormal", [["L", [0, 0.5]], ["L", [1.0, 20.0]]], []), ("laplace", [["L", [0, 1]], ["L", [1e-170, 3.0]]], []),
              ("logistic", [num7(0), ["L", [1e-165, 1.0]]], []), ("gumbel_r", [["L", [0, 1]], ["L", [1e-160, 2.0]]], []),
              ("rayleigh", [num7(0), ["L", [1e-170, 1.0]]], []), ("gamma", [["L", [1, 2]], num7(0), ["L", [1e-170, 1.0]]], []),
              ("normal", [["L", [0, 1]], ["L", [1.0, 1e160]]], []), ("normal", [["L", [0, 1]], ["L", [1, 2]]], []),
              ("gamma", [["L", [2, 3]], num7(0), ["L", [1, 2]]], []), ("gumbel_r", [["L", [0, 1]], ["L", [1, 2]]], [])]
    for fam, pos, kw in strict:
        c = {"kind": "par", "fam": fam, "pos": pos, "kw": kw, "stream": "strict-fp"}
        if any(sp[0] == "L" and max(sp[1]) >= 20 for sp in pos) and fam in ("lognormal", "normal"):
            c["overflow"] = True      # a corner's variance overflows to inf: outside the wire format (finite rationals); bounds only
        cases.append(c)
    cases.append({"kind": "uni", "pos": [["L", [0, 1]], ["L", [2, 3]]], "kw": [], "stream": "strict-fp"})
    cases.append({"kind": "uni", "pos": [["L", [0, 1e-170]], ["L", [1e-165, 1e-160]]], "kw": [], "stream": "strict-fp"})
    cases.append({"kind": "ebl", "pos": [["L", [1, 2]]], "kw": [], "stream": "strict-fp"})
    cases.append({"kind": "ebl", "pos": [["L", [1.0, 1e170]]], "kw": [], "stream": "strict-fp"})
    # numeric types of the parameters: the result must be the float64 computation of the same values
    for fl, xs in [("f32", (0.1, 1.5, 2.7)), ("f16", (0.1, 1.5, 2.7)), ("ld", (0.1, 1.5, 2.7)), ("frac", (1 / 3, 4 / 3, 7 / 3)),
                   ("dec", (0.1, 1.5, 2.7)), ("u8", (3, 5, 7))]:
        for fam in fams:
            order = FAMS[fam]["order"]
            cases.append({"kind": "par", "fam": fam, "pos": [["N", xs[j % 3], fl] if j != 1 else ["LF", [xs[1], xs[2]], fl]
                                                              for j, n in enumerate(order)], "kw": [], "stream": "numeric-types"})
        cases.append({"kind": "uni", "pos": [["N", xs[0], fl], ["LF", [xs[1], xs[2]], fl]], "kw": [], "stream": "numeric-types"})
        cases.append({"kind": "ebl", "pos": [["LF", [xs[1], xs[2]], fl]], "kw": [], "stream": "numeric-types"})
    for fam in ("normal", "logistic", "laplace", "gumbel_r"):
        cases.append({"kind": "par", "fam": fam, "pos": [["N", 2 ** 53 + 1, "big"], ["L", [1, 2]]], "kw": [], "stream": "numeric-types"})
        cases.append({"kind": "par", "fam": fam, "pos": [["LF", [2 ** 60 + 1, 2 ** 60 + 4097], "big"], ["N", 2 ** 55 + 1, "big"]], "kw": [], "stream": "numeric-types"})
    # keyword parameters (exponential, rayleigh): witnesses of KF-C09-kw-drops-positional
    for fam in ("exponential", "rayleigh"):
        cases.append({"kind": "par", "fam": fam, "pos": [["L", [1, 2]]], "kw": [["scale", ["L", [1, 2]]]], "stream": "kw"})
        cases.append({"kind": "par", "fam": fam, "pos": [], "kw": [["loc", ["L", [1, 2]]], ["scale", ["L", [1, 2]]]], "stream": "kw"})
        cases.append({"kind": "par", "fam": fam, "pos": [], "kw": [["scale", ["L", [1, 2]]]], "stream": "kw"})
        cases.append({"kind": "par", "fam": fam, "pos": [["L", [0, 1]], ["L", [1, 2]]], "kw": [["scale", ["L", [1, 2]]]], "stream": "kw"})
        for _ in range(ctx.scale(12, 200)):
            cases.append(par_case(rng, fam, "kw", kwmode=rng.choice(["scale", "loc+scale", "both", "loc"])))
    # 2. random boxes, 3. point parameters
    for _ in range(ctx.scale(230, 5000)):
        cases.append(par_case(rng, rng.choice(fams), "random-box"))
    for _ in range(ctx.scale(48, 800)):
        cases.append(par_case(rng, rng.choice(fams), "point", point=True))
    # 4. malformed parameters / invalid parameter values (tie on the error kind; outside the property)
    bad_specs = [["L", [2, 1]], ["T", [2, 1]], ["L", []], ["T", []], ["L", [1, 2, 3, 4]], ["L", [2, 1, 0]], ["L", [1, 2, 0]],
                 ["L", [2, 1, 1]], ["X", "none"], ["X", "arr"], ["X", "dict"], ["X", "set"], ["N", 1, "bool"], ["N", 0, "bool"]]
    for _ in range(ctx.scale(90, 900)):
        fam = rng.choice(fams)
        c = par_case(rng, fam, "malformed")
        r = rng.random()
        if r < 0.6 and (c["pos"] or c["kw"]):
            tgt = c["pos"] if c["pos"] else None
            if tgt:
                for _ in range(rng.choice([1, 1, 2])):
                    tgt[rng.randrange(len(tgt))] = rng.choice(bad_specs)
        else:   # non-positive scale / shape in some corner: scipy answers NaN there
            order = FAMS[fam]["order"]
            j = rng.choice([i for i, n in enumerate(order) if n in FAMS[fam]["positive"]])
            if j < len(c["pos"]):
                lo = rng.choice([0.0, -1.0, -2.0, 0.0])
                hi = rng.choice([lo, 1.0, 2.0, 0.0 if lo < 0 else 3.0])
                c["pos"][j] = form(rng, lo, max(lo, hi))
        cases.append(c)
    # 5. bespoke uniform
    uni_fixed = [((0, 1), (2, 3)), ((0, 0), (1, 1)), ((0, 1), (1, 3)), ((0, 2), (1, 3)), ((2, 3), (0, 1)), ((0, 3), (1, 2)),
                 ((1, 1), (1, 1)), ((-3, -2), (-2, 4)), ((0, 3), (2, 5)), ((0, 4), (1, 4)), ((-2, 2), (-1, 6)), ((0, 5), (5, 5.5)), ((0, 0.001), (1000, 1001))]
    for a, b in uni_fixed:
        cases.append({"kind": "uni", "pos": [["L", list(a)], ["L", list(b)]], "kw": [], "stream": "uniform-fixed", "mom": True})
    for f1, f2 in itertools.product(range(len(GRID_FORMS)), repeat=2):
        if (f1 + 2 * f2) % 3 == 0:
            cases.append({"kind": "uni", "pos": [GRID_FORMS[f1](-1, 1), GRID_FORMS[f2](2, 5)], "kw": [], "stream": "uniform-forms"})
    for i in range(ctx.scale(110, 2500)):
        a = rnd_iv(rng, "loc")
        r = rng.random()
        gap = rng.choice([0.0, rng.uniform(0, 3), 10 ** rng.uniform(-6, 3)])
        wb = rng.choice([0.0, rng.uniform(0, 3), 10 ** rng.uniform(-6, 3), (a[1] - a[0]) * rng.uniform(0, 2)])
        if r < 0.8:
            b = (a[1] + gap, a[1] + gap + wb)
        elif r < 0.9:       # overlapping boxes (still accepted by the constructor when both endpoints are ordered)
            b = (a[0] + rng.random() * (a[1] - a[0]), a[1] + wb)
        else:               # b below a / b inside a: raises
            b = (a[0] - gap - wb, a[0] - gap) if rng.random() < 0.5 else (a[0] + (a[1] - a[0]) * 0.25, a[0] + (a[1] - a[0]) * 0.5)
        cases.append({"kind": "uni", "pos": [form(rng, *a), form(rng, *b)], "kw": [], "stream": "uniform-random", "mom": i < 4})
    for _ in range(ctx.scale(12, 120)):
        cases.append({"kind": "uni", "pos": [rng.choice(bad_specs), form(rng, 2.0, 3.0)] if rng.random() < 0.5 else
                      [form(rng, 0.0, 1.0), rng.choice(bad_specs)], "kw": [], "stream": "uniform-malformed"})
    # 6. exponential_by_lambda
    for lam in [(1, 2), (2, 2), (0.5, 0.5), (0.01, 100)]:
        cases.append({"kind": "ebl", "pos": [["L", list(lam)]], "kw": [], "stream": "ebl-fixed", "mom": True})
    for fm in GRID_FORMS:
        cases.append({"kind": "ebl", "pos": [fm(2, 5)], "kw": [], "stream": "ebl-forms"})
    for i in range(ctx.scale(40, 600)):
        cases.append({"kind": "ebl", "pos": [form(rng, *rnd_iv(rng, "pos"))], "kw": [], "stream": "ebl-random", "mom": i < 2})
    for lam in [(0, 2), (-1, 2), (-2, -1), (-1, -1), (0, 0), (-1, 0)]:
        cases.append({"kind": "ebl", "pos": [["L", list(lam)]], "kw": [], "stream": "ebl-malformed"})
    for s in bad_specs[:12]:
        cases.append({"kind": "ebl", "pos": [s], "kw": [], "stream": "ebl-malformed"})
    return cases


# ---- run -------------------------------------------------------------------------------------------------
def family_fit(c):
    """harness' own evaluation of the code's guard: do the family's corner moments fit the discretised support
    [min ppf(0.001), max ppf(0.999)] (means inside, largest variance <= width^2/4)?  None when not applicable."""
    try:
        b = box_of(c)
        if c["kind"] != "par" or b is None:
            return None
        k = len(c["pos"])
        names = [n for n, _, _ in b]
        lo, hi, ms, vs = math.inf, -math.inf, [], []
        for cor in itertools.product(*[(l, h) for _, l, h in b]):
            pos, kw = cor[:k], dict(zip(names[k:], cor[k:]))
            row = sp_ppf(c["fam"], pos, kw)
            m, v = sp_stats(c["fam"], pos, kw)
            lo, hi = min(lo, float(row[0])), max(hi, float(row[-1]))
            ms.append(m)
            vs.append(v)
        return bool(finite(ms + vs) and lo <= min(ms) and max(ms) <= hi and max(vs) <= (hi - lo) ** 2 / 4)
    except Exception:
        return None


def features(c, impl, check):
    return {"kind": c["kind"], "fam": c.get("fam", c["kind"]), "check": check, "npos": len(c["pos"]), "nkw": len(c["kw"]),
            "kwnames": "+".join(n for n, _ in c["kw"]), "stream": c["stream"],
            "entry": (c["via"]["entry"] + ":" + c["via"]["container"]) if c.get("via") else "constructor",
            "family_moments_fit": family_fit(c) if check == "moments" else None,
            "moments_source": "none" if impl[0] == "err" else ("derived" if (impl[3] is None or impl[4]) else "handed-over"),
            "symptom": ("raises:" + impl[1]) if impl[0] == "err" else "value"}


def _js(t):
    if t is None:
        return None
    if t[0] == "ok":
        L, R = [float(x) for x in t[1]], [float(x) for x in t[2]]
        return ["ok", {"left[0,1,-1]": [L[0], L[1], L[-1]] if len(L) > 1 else L, "right[0,1,-1]": [R[0], R[1], R[-1]] if len(R) > 1 else R,
                       "moments": None if t[3] is None else [float(x) for x in t[3]]}]
    return list(t)


def case_json(c):
    return {k: c[k] for k in ("kind", "fam", "pos", "kw", "stream", "via", "nomom", "alias", "grid", "overflow") if k in c}


def run(ctx: core.Check, cases=None):
    ctx.rule = ("streams: grid over parameter forms (list, tuple, Interval, 3-element list, int/float/numpy scalars, 1-element list) "
                "x 8 families and over the number of positional parameters; keyword parameters (exponential, rayleigh); random "
                "boxes (location over 7 decades, widths 0 .. 1e3, positive parameters over 6 decades); point parameters; malformed "
                "parameters and non-positive scales (error kind only); bespoke uniform (separated / touching / overlapping / inverted "
                "boxes) and exponential_by_lambda; wide boxes (moments judged with the library's real moment code when derived); thin "
                "non-degenerate boxes (relative width 1e-9..1e-5, magnitudes 1e-9); extreme constants (1e-20, 2^-60, k_B, 1e18); the "
                "Distribution(family, tuple|list|scalar).to_pbox()/convert()/+0/-(-d) entry point; the UncertainNumber(essence='pbox') layer; the "
                "same operand object for every parameter; boxes reaching outside the family's domain at one corner (touching 0 / straddling: "
                "must raise, a returned value is judged) and just inside it (1e-300, 5e-324: must not raise); the public grid rebound "
                "(other boundaries, 40/100/300 steps) and put back; every 6th case and a strict-fp stream re-run under np.errstate(all='raise') / "
                "warnings.simplefilter('error') (same value or the escalated error); float32/float16/longdouble/Fraction/Decimal/uint8/big-int parameters; sequences binding the same numbers "
                "positionally and by keyword in consecutive calls; results kept alive and re-read, cases evaluated twice. A case is non-trivial when it is a distinct (constructor, parameter forms, values) "
                "description; malformed cases count as trivial.")
    ctx.assumptions = ["scipy ppf/stats values at the corners are computed by the harness with its own family table and sent to the model",
                       "monotonicity of the gamma quantile in its shape parameter is an assumption of the theorem, validated numerically by the oracle",
                       "binary64 rounding is not modelled: envelope and moment hulls are compared exactly (min/max of supplied values), "
                       "linspace and 1/lambda within a few ulp",
                       "moments derived by the constructor itself (family moments not fitting the discretised support) are not modelled: "
                       "the model answers 'none', the oracle judges the library's real values on a budgeted subset",
                       "string parameters and vector Interval parameters are not exercised"]
    gen_out = core.LEAN / "Pun/Gen/ParamGen.lean"
    gen_name = "pbox_parametric.py corner enumeration, reductions, levels, call splitting, moment guard"
    mods = ["Pun.Props.C09"]
    try:
        info = _gen(gen_out)
        mods.append("Pun.Props.C09Gen")
        gens = [(gen_name, lambda: info)]
    except Exception as e:      # source not of the recognised form: the generated part is not claimed (no stale Gen file is audited)
        err = e

        def _raise():
            raise err
        gens = [(gen_name, _raise)]
    ctx.lean_stage(mods, generators=gens)
    _mark_stub()
    from pyuncertainnumber.pba.params import Params
    if len(Params.p_values) != N or any(float(a) != float(b) for a, b in zip(Params.p_values, P)):
        ctx.fail({"check": "grid"}, {"p_values": "changed"}, "Params.p_values is no longer linspace(0.001, 0.999, 200)")
    if cases is None:
        cases = gen_cases(ctx)
    ERR0 = np.geterr()
    n_rand = ctx.scale(10, 40)
    real_budget = [ctx.scale(12, 60)]
    forced_budget = [ctx.scale(25, 100)]
    keep = []            # (real result object, canonical value when produced, case) — kept alive and re-read later
    again = []           # (case, canonical value) — evaluated a second time at the end, after unrelated calls

    def same(a, b, moments=True):
        if a[0] != b[0]:
            return False
        if a[0] == "err":
            return a[1] == b[1]
        if a[1] != b[1] or a[2] != b[2]:
            return False
        return (not moments) or a[3] is None or b[3] is None or a[4] or b[4] or a[3] == b[3]

    def reverify(final=False):
        for obj, can, c in keep:
            now = canon(obj)
            if not same(can, now, moments=not can[4]):
                ctx.fail(features(c, can, "aliasing"), dict(case_json(c), impl=_js(can), reread=_js(now)),
                         "a p-box returned earlier changed its value after later calls (result shares state with the library)")
        if not final:
            del keep[:-40]

    CH = 250
    done = [0]

    def process(c, rep):
        stream = c["stream"]
        model = parse_model(rep)
        impl = run_impl(c)
        obj = LAST_OBJ[0]
        if impl[0] == "ok" and impl[3] is None and not c.get("nomom") and not c.get("overflow"):
            # the constructor derived the moments itself: use the library's own moment code (LP, ~1 s) instead of
            # the stub so that the oracle judges what a user sees.  Always for the fixed witnesses; within a budget for
            # random cases; and whenever the model says the family's moments should have been handed over.
            unexpected = model[0] == "ok" and model[3] is not None and forced_budget[0] > 0
            if c.get("mom") or unexpected or (c["kind"] == "par" and real_budget[0] > 0):
                if unexpected:
                    forced_budget[0] -= 1
                elif not c.get("mom"):
                    real_budget[0] -= 1
                impl = run_impl_real_moments(c)
                obj = LAST_OBJ[0]
        ctx.count(json.dumps(case_json(c), sort_keys=True, default=str), "malformed" not in stream, stream)
        ctx.bump("fam:" + c.get("fam", c["kind"]))
        ctx.bump("impl:" + (impl[1] if impl[0] == "err" else "value"))
        if impl[0] == "ok":
            ctx.bump("moments:" + ("recomputed-by-arithmetic(not-compared)" if c.get("nomom") else
                                   "derived-by-constructor(LP,checked)" if impl[4] else
                                   "derived-by-constructor(stubbed,unchecked)" if impl[3] is None else "handed-over(checked)"))
        if c.get("overflow"):
            ctx.bump("tie-skipped(non-finite family moments)")
        elif agrees(c, impl, model):
            ctx.tie_ok()
        else:
            ctx.tie_bad(stream, case_json(c), _js(impl), _js(model) if model[0] != "bad" else model)
        oimpl = impl if not (c.get("nomom") or c.get("overflow")) or impl[0] == "err" else (impl[0], impl[1], impl[2], None, False)
        for check, what in oracle(ctx, c, oimpl, ctx.rng, n_rand):
            ctx.fail(features(c, impl, check), dict(case_json(c), impl=_js(impl)), what)
        if stream in ("random-box", "kw", "uniform-random", "ebl-random", "dist-entry") and len(ctx.samples) < 6 and impl[0] == "ok":
            ctx.sample({"case": case_json(c), "impl": _js(impl), "model": rep[:160] + " …"})
        # global floating-point / warning state: the same call under np.errstate(all='raise') and under
        # warnings.simplefilter('error') gives the same value or raises the escalated error - never another value
        if "malformed" not in stream and (stream in ("strict-fp", "numeric-types") or done[0] % 6 == 0):
            for mode in (("errstate", "warnings") if stream == "strict-fp" else (("errstate", "warnings")[(done[0] // 6) % 2],)):
                st = run_strict(c, mode)
                ctx.bump("strict:" + mode + ":" + ("raised" if st[0] == "err" else "value"))
                if st[0] == "err":
                    e = LAST_EXC[0]
                    if not (isinstance(e, (FloatingPointError, Warning)) or (impl[0] == "err" and impl[1] == st[1])):
                        ctx.fail(features(c, st, "strict-fp"), dict(case_json(c), mode=mode, default=_js(impl), strict=_js(st)),
                                 f"under {mode} the call raises {type(e).__name__} ({str(e)[:80]}) which is not an escalated floating-point error / warning")
                else:
                    if impl[0] == "ok" and not same(impl, st):
                        ctx.fail(features(c, st, "strict-fp"), dict(case_json(c), mode=mode, default=_js(impl), strict=_js(st)),
                                 f"under {mode} the call returns a different value than under the default floating-point settings "
                                 f"(moments {st[3]} instead of {impl[3]})")
                    ost = st if not c.get("nomom") else (st[0], st[1], st[2], None, False)
                    for check, what in oracle(ctx, c, ost, ctx.rng, 4):
                        ctx.fail(features(c, st, check), dict(case_json(c), mode=mode, impl=_js(st)), f"[{mode}] " + what)
        # the result reports the configured grid and does not share memory with it
        if impl[0] == "ok" and obj is not None:
            from pyuncertainnumber.pba.params import Params as _P
            pv = np.asarray(getattr(obj, "p_values", _P.p_values), dtype=float)
            if len(impl[1]) != N or len(pv) != N or any(float(a) != float(b) for a, b in zip(pv, P)):
                ctx.fail(features(c, impl, "grid"), dict(case_json(c), impl=_js(impl)),
                         f"the p-box has {len(impl[1])} steps / reports {len(pv)} levels starting {pv[:2].tolist()} but the configured grid is linspace{c.get('grid') or DEFAULT_GRID}")
            if np.shares_memory(obj.left, _P.p_values) or np.shares_memory(obj.right, _P.p_values) or np.shares_memory(obj.left, obj.right):
                ctx.fail(features(c, impl, "aliasing"), dict(case_json(c), impl=_js(impl)), "the bounds share memory with Params.p_values or with each other")
        # state carried between calls: keep real results alive, re-read them later; evaluate some cases twice
        if impl[0] == "ok" and obj is not None:
            keep.append((obj, impl, c))
        if "malformed" not in stream and (done[0] % 9 == 0 or stream in ("sequence", "kw", "dist-entry")) and len(again) < ctx.scale(150, 600):
            again.append((c, impl))
        done[0] += 1
        if done[0] % 100 == 0:
            reverify()

    def wire_g(c):
        with use_grid(c.get("grid")):
            return wire(c)

    for s0 in range(0, len(cases), CH):
        chunk = cases[s0:s0 + CH]
        replies = core.model_batch("C09", [wire_g(c) for c in chunk])
        for c, rep in zip(chunk, replies):
            with use_grid(c.get("grid")):
                process(c, rep)
    reverify(final=True)
    for c, first in again:
        with use_grid(c.get("grid")):
            second = run_impl(c)
        ctx.bump("evaluated-twice")
        if not same(first, second):
            ctx.fail(features(c, second, "repeat"), dict(case_json(c), first=_js(first), second=_js(second)),
                     "the same call gives a different result when made again after unrelated calls")
    from pyuncertainnumber.pba.params import Params as _P
    if (len(_P.p_values) != DEFAULT_GRID[2] or _P.steps != DEFAULT_GRID[2] or (_P.p_lboundary, _P.p_hboundary) != DEFAULT_GRID[:2]
            or any(float(a) != float(b) for a, b in zip(_P.p_values, np.linspace(*DEFAULT_GRID)))):
        ctx.fail({"check": "global-state"}, {"Params": "changed"}, "Params (steps / boundaries / p_values) differ from the defaults after the run")
    if np.geterr() != ERR0:
        ctx.fail({"check": "global-state"}, {"np.geterr": str(np.geterr())}, "numpy's floating-point error state was changed by a call")
    for cj, what in OPERAND_CHANGES:
        ctx.fail({"kind": cj["kind"], "fam": cj.get("fam", cj["kind"]), "check": "operand-modified"}, cj, f"the call modified its {what}")
    del OPERAND_CHANGES[:]


def _gen(out):
    from .translator import param as tr
    return tr.generate(core.REPO, out)


def replay(obj):
    c = obj.get("case", {})
    if "kind" not in c:
        print(json.dumps(obj, indent=1))
        return 0
    c = {"kind": c["kind"], "fam": c.get("fam"), "pos": c["pos"], "kw": c.get("kw", []), "stream": c.get("stream", "replay"), "mom": True}
    _mark_stub()
    impl = run_impl(c)
    if impl[0] == "ok" and impl[3] is None:
        impl = run_impl_real_moments(c)
    rep = core.model_batch("C09", [wire(c)])[0]
    import random
    print("case   :", json.dumps(case_json(c)))
    print("impl   :", json.dumps(_js(impl)))
    print("model  :", json.dumps(_js(parse_model(rep))) if not rep.startswith("bad") else rep)
    print("oracle :", oracle(None, c, impl, random.Random(0), 20) or "property holds on this case")
    return 0
