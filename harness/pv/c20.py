"""C20 — hedged expressions and significant digits decode to intervals about the number.

proof  : Pun.Props.C20 (generic in the keyword table) + Pun.Props.C20Gen (hypotheses discharged for the
         table regenerated from the `match kwd` statement of hedge_interpret on every run)
tie    : sgnumber / hedge_interpret / pun.I on rendered numerals vs `Pun.Hedge.sgnumber`, `Pun.Hedge.hedge`
         on the tokenised numeral (character-level parsing is glue validated here)
oracle : exact Fractions from the numeral's digits: half a unit of the last significant digit; containment /
         endpoint / nesting of the hedges; commutation with sign, with powers of ten and with rewriting the
         same number (moving the point against the exponent); no exception inside the quantifier
"""
from __future__ import annotations
import math
from fractions import Fraction as F
import numpy as np
from . import core
from .core import q, unq
from .translator import hedge as tr

SYMMETRIC = ["exactly", "about", "around", "count"]
LEFT = ["almost", "below"]          # end at the number
RIGHT = ["over", "above"]           # start at the number
HEDGES = SYMMETRIC + LEFT + RIGHT + ["at most", "at least", "order"]
COMMUTING = ["exactly", "about", "around", "almost", "below", "over", "above", "at most", "at least"]


# ---- numerals: (neg, int_digits, frac_digits, hasDot, exp|None, style) ------------------------------
def render(n):
    neg, i, f, dot, e, style = n
    s = ("-" if neg else ("+" if style.get("plus") else "")) + i
    if dot:
        s += "." + f
    if e is not None:
        s += ("E" if style.get("upper") else "e") + (("+" if style.get("eplus") and e >= 0 else "") + str(e))
    return s


def wire(n):
    neg, i, f, dot, e, _ = n
    return f"{int(neg)} {i or '-'} {f or '-'} {int(dot)} {'n' if e is None else e}"


def value(n):
    neg, i, f, dot, e, _ = n
    v = F(int((i + f) or "0")) * F(10) ** ((e or 0) - len(f))
    return -v if neg else v


def last_digit_exp(n, integer_zeros_significant):
    """decimal exponent of the last significant digit. A numeral with a decimal point: its last written digit.
    An integer mantissa: its last non-zero digit (sgnumber's convention) or its last digit (hedge convention)."""
    neg, i, f, dot, e, _ = n
    e = e or 0
    if dot:
        return e - len(f)
    if integer_zeros_significant:
        return e
    return e + (len(i) - len(i.rstrip("0")))


def negate(n):
    return (not n[0],) + n[1:]


def scale(n, k):
    return n[:4] + ((n[4] or 0) + k, n[5])


def shift_point(n, rng):
    """the same number and the same last digit written differently: move the point, compensate in the exponent"""
    neg, i, f, dot, e, st = n
    if not dot:
        return None
    digits = i + f
    cut = rng.randint(1, len(digits)) if len(digits) > 1 else 1
    ni, nf = digits[:cut], digits[cut:]
    ne = (e or 0) + (len(i) - cut)
    return (neg, ni, nf, True, ne, st)


def gen_numeral(rng, small=False):
    form = rng.random()
    digs = lambda k, first_nonzero=False: "".join(str(rng.randint(1 if (first_nonzero and j == 0) else 0, 9)) for j in range(k))
    if form < 0.3:      # integer, often with trailing zeros
        i = digs(rng.randint(1, 4), True) + "0" * rng.choice([0, 0, 1, 2, 3, 5])
        f, dot = "", False
    elif form < 0.4:    # integer followed by a bare point
        i, f, dot = digs(rng.randint(1, 4), True) + "0" * rng.choice([0, 1, 2]), "", True
    elif form < 0.7:    # decimal with trailing zeros
        i = digs(rng.randint(1, 4), True)
        f, dot = digs(rng.randint(0, 3)) + "0" * rng.choice([0, 0, 1, 2, 3]), True
        if f == "":
            f = "0"
    elif form < 0.9:    # below one
        i = rng.choice(["0", "0", "", "00"])
        f, dot = "0" * rng.choice([0, 0, 1, 2, 4]) + digs(rng.randint(1, 3), True) + "0" * rng.choice([0, 0, 1, 2]), True
    elif form < 0.95:   # leading zeros / single digit
        i = rng.choice(["0", "00", ""]) + digs(rng.randint(1, 2), True)
        f, dot = "", False
    elif form < 0.975:  # tiny: many zeros after the point (last-digit unit down to 1e-27)
        i = rng.choice(["0", ""])
        f, dot = "0" * rng.randint(12, 24) + digs(rng.randint(1, 3), True), True
    else:               # long decimal expansion (15-20 decimals)
        i = digs(rng.randint(1, 2), True)
        f, dot = digs(rng.randint(15, 20)), True
    e = None
    r = rng.random()
    if r < 0.35:
        e = rng.randint(-9, 9) if not small else rng.randint(-3, 3)
    elif r < 0.5 and not small:
        e = rng.choice([-25, -20, -17, -16, -15, -12, 12, 15, 16, 20, 25]) + rng.randint(-2, 2)
    st = {"upper": rng.random() < 0.15, "eplus": rng.random() < 0.2, "plus": rng.random() < 0.08}
    neg = rng.random() < 0.4
    return (neg, i, f, dot, e, st)


FIXED = [(False, "200", "", False, None, {}), (True, "200", "", False, None, {}), (False, "0", "5", True, None, {}),
         (False, "0", "05", True, None, {}), (False, "200", "00", True, None, {}), (False, "1", "", False, 3, {}),
         (False, "1", "5", True, 3, {}), (False, "1", "50", True, 3, {}), (False, "", "5", True, None, {}),
         (False, "5", "", True, None, {}), (False, "12", "3", True, -4, {}), (True, "2", "5", True, None, {}),
         (False, "9", "", False, None, {}), (False, "12300", "", False, 4, {}), (False, "20", "", True, 1, {}),
         (False, "1000000", "", False, None, {}), (False, "0", "00001", True, None, {}), (True, "0", "5", True, None, {}),
         # magnitudes: last-digit unit from 1e-27 to 1e+25
         (False, "1", "5", True, -17, {}), (True, "1", "5", True, -17, {}), (False, "15", "", False, -18, {}), (False, "3", "", False, -25, {}),
         (False, "0", "000000000000000015", True, None, {}), (False, "2", "50", True, -20, {}), (False, "1", "5", True, 25, {}),
         (False, "7", "", False, 22, {}), (True, "4", "25", True, 16, {}), (False, "1", "234567890123456789", True, None, {})]

# zero in every spelling (falsy but valid)
ZEROS = [(False, "0", "", False, None, {}), (False, "0", "0", True, None, {}), (False, "0", "00", True, None, {}), (True, "0", "0", True, None, {}),
         (False, "000", "", False, None, {}), (False, "0", "", False, 3, {}), (False, "0", "0", True, -2, {}), (True, "0", "", False, None, {}),
         (False, "0", "", True, None, {}), (False, "", "0", True, None, {}), (False, "0", "", False, -3, {}), (False, "00", "000", True, 2, {"eplus": True}),
         (False, "0", "", False, None, {"plus": True}), (True, "0", "000", True, None, {}), (False, "0", "", False, 0, {}), (False, "0", "0", True, -20, {})]


# ---- the real code ------------------------------------------------------------------------------------
def _ivl(r):
    lo, hi = float(np.asarray(r.lo)), float(np.asarray(r.hi))
    return ("ok", lo, hi)


def impl_sg(text):
    from pyuncertainnumber.characterisation.utils import sgnumber
    try:
        r = sgnumber(text)
        return ("ok", float(r[0]), float(r[1]))
    except BaseException as e:  # noqa
        return ("err", core.err_kind(e))


def impl_hedge(text):
    from pyuncertainnumber.nlp.language_parsing import hedge_interpret
    try:
        r = hedge_interpret(text)
        if isinstance(r, str):
            return ("text", r)
        return _ivl(r)
    except BaseException as e:  # noqa
        return ("err", core.err_kind(e))


def impl_punI(text):
    import pyuncertainnumber as pun
    try:
        return _ivl(pun.I(text).construct)
    except BaseException as e:  # noqa
        return ("err", core.err_kind(e))


def parse_model(rep):
    t = rep.split()
    if t[0] == "none":
        return ("text", None)
    if t[0] == "err":
        return ("err", t[1])
    if t[0] != "ok":
        return ("bad", rep)
    g = lambda s: (-math.inf if s == "-inf" else (math.inf if s == "inf" else unq(s)))
    return ("ok", g(t[1]), g(t[2]))


def near(a, b, scale_):
    """|a-b| within 16 ulp of the magnitude of the quantities the result was computed from"""
    if isinstance(b, float) and math.isinf(b):
        return a == b
    if isinstance(a, float) and (math.isinf(a) or math.isnan(a)):
        return False
    tol = 16 * F(core.ulp(float(scale_))) + F(1, 10 ** 300)
    return abs(F(a) - F(b)) <= tol


def same(impl, model, sc):
    if impl[0] != model[0]:
        return False
    if impl[0] != "ok":
        return impl[0] == "text" or impl[1] == model[1]
    return near(impl[1], model[1], sc) and near(impl[2], model[2], sc)


def fl(x):
    return x if isinstance(x, float) else float(x)


# ---- run ------------------------------------------------------------------------------------------------
def run(ctx: core.Check):
    ctx.rule = ("numerals are generated structurally (sign, integer digits with trailing/leading zeros, fraction digits with trailing "
                "zeros, bare point, values below one, exponent with e/E/+) and rendered to the string Python sees; every numeral goes "
                "through sgnumber, hedge_interpret(bare), pun.I and every hedge word, and is paired with its negation, a power-of-ten "
                "multiple (10^-25 .. 10^25) and a rewriting of the same number; exponents from e-27 to e+27, up to 24 zeros after the point, 15-20 decimals, "
                "and zero in 16 spellings (0, 0.0, 0.00, -0.0, 000, 0e3, 0.0e-2, -0, 0., .0, +0 ...) under every hedge. Non-trivial unless the numeral is a single non-zero digit; distinct on the text.")
    ctx.assumptions = ["character-level parsing: Pun.Hedge.parse reads the string itself (split once at e, sign, split once at ., digits, signed exponent; proved inverse to render); Python's float/int/Decimal/strip/lower remain validated by the tie (underscores, inf/nan, non-ASCII digits are outside the quantifier)",
                       "binary64 rounding is not modelled: agreement within 16 ulp of max(|x|, half-width)",
                       "sqrt of the `count` hedge is supplied by the harness", "return_type='pbox' is not covered", "the hedges `order` and `between` are not part of the statement: tie only (order of a negative number raises AssertionError, mirrored)",
                       "integer numerals consisting of zeros only (sgnumber('0') = [-5,5]) are outside the significant-digit theorem's guard and are not judged",
                       "multiplying by a power of ten = changing the exponent / moving the point over written digits; appending zeros to an integer is a different numeral"]
    gen_out = core.LEAN / "Pun/Gen/HedgeGen.lean"
    ctx.lean_stage(["Pun.Props.C20", "Pun.Props.C20Gen"], generators=[("hedge_interpret match table", lambda: _gen(gen_out))])
    rng = ctx.rng
    nums = list(FIXED) + list(ZEROS) + [gen_numeral(rng) for _ in range(ctx.scale(260, 9000))]
    reqs, meta = [], []

    def add(kind, n, kw=None, text=None):
        x = value(n)
        if kind == "sg":
            reqs.append("sg " + wire(n))
        else:
            sq = math.sqrt(abs(float(x)))
            reqs.append(f"hedge {kw.replace(' ', '_')} {wire(n)} {q(sq)}")
        meta.append((kind, n, kw, text))

    for n in nums:
        t = render(n)
        add("sg", n, None, t)
        variants = [n, negate(n), scale(n, rng.choice([-3, -1, 1, 2, 5]))]
        far = [k for k in (-25, -20, -17, -15, 12, 17, 25) if abs((n[4] or 0) + k) <= 30]
        if far:
            variants.append(scale(n, rng.choice(far)))
        sp = shift_point(n, rng)
        if sp is not None:
            variants.append(sp)
        for kw in HEDGES + ["between"]:
            for v in variants:
                add("hedge", v, kw, None)
    replies = core.model_batch("C20", reqs)
    results = {}
    for (kind, n, kw, text), rep in zip(meta, replies):
        model = parse_model(rep)
        x = value(n)
        t = render(n)
        if kind == "sg":
            u = F(10) ** last_digit_exp(n, False)
            sc = max(abs(x), u)
            zero_int = (not n[3]) and set(n[1]) <= {"0"}
            for call, impl in (("sgnumber", impl_sg(t)), ("hedge_interpret", impl_hedge(t)), ("pun.I", impl_punI(t)),
                               ("sgnumber-padded", impl_sg("  " + t.upper() + " "))):
                ctx.count((call, t), len(n[1] + n[2]) > 1, "sigdigits:" + call)
                if same(impl, model, sc):
                    ctx.tie_ok()
                else:
                    ctx.tie_bad("sigdigits", {"call": call, "text": t}, list(impl), rep)
                if zero_int:
                    continue
                feat = {"call": call, "kind": "sigdigits", "neg": n[0], "below_one": abs(x) < 1, "has_exp": n[4] is not None,
                        "has_dot": n[3], "symptom": ("raises:" + impl[1]) if impl[0] == "err" else "value"}
                if impl[0] != "ok":
                    ctx.fail(feat, {"text": t, "call": call}, f"{call}({t!r}) does not give an interval: {impl}")
                elif not (near(impl[1], x - u / 2, sc) and near(impl[2], x + u / 2, sc)):
                    ctx.fail(feat, {"text": t, "call": call},
                             f"{call}({t!r}) = [{impl[1]!r}, {impl[2]!r}]; half a unit of the last significant digit around the number is [{float(x - u / 2)!r}, {float(x + u / 2)!r}]")
            if len(ctx.samples) < 3:
                ctx.sample({"text": t, "sgnumber": list(impl_sg(t)), "model": rep})
            continue
        # hedges
        text = f"{kw} {t}"
        style = rng.random()
        if style < 0.1:
            text = f"{t} {kw}"
        elif style < 0.2:
            text = f"{kw}  {t} "
        impl = impl_hedge(text)
        u = F(10) ** last_digit_exp(n, True)
        sc = max(abs(x), u, F(math.sqrt(abs(float(x)))) if kw == 'count' else 0) * 10
        ctx.count(("hedge", kw, t), True, "hedge:" + kw)
        if same(impl, model, sc):
            ctx.tie_ok()
        else:
            ctx.tie_bad("hedge", {"text": text}, list(impl), rep)
        results[(kw, wire(n))] = (impl, x, sc, text)
        if kw in ("between", "order"):
            continue          # not part of the statement (tie only)
        feat = {"call": "hedge_interpret", "kind": "hedge", "kw": kw, "neg": n[0], "below_one": abs(x) < 1, "has_exp": n[4] is not None,
                "has_dot": n[3], "symptom": ("raises:" + impl[1]) if impl[0] == "err" else ("value" if impl[0] == "ok" else "text")}
        case = {"text": text}
        if impl[0] != "ok":
            ctx.fail(feat, case, f"hedge_interpret({text!r}) does not give an interval: {impl}")
            continue
        lo, hi = impl[1], impl[2]
        xf = float(x)
        if kw == "order":
            continue
        # strict where binary64 resolves the last written digit of the numeral (else x - w may round to x: outside the model)
        resolved = u >= 1024 * F(core.ulp(float(abs(x))))
        if not (lo <= hi):
            ctx.fail(dict(feat, check="ordered"), case, f"hedge_interpret({text!r}) = [{lo!r}, {hi!r}] has lo > hi")
        elif kw in SYMMETRIC:
            if not (lo <= xf <= hi) or not near((xf - lo) - (hi - xf), 0, max(sc, abs(lo), abs(hi))):
                ctx.fail(dict(feat, check="contains"), case, f"hedge_interpret({text!r}) = [{lo!r}, {hi!r}] is not symmetric about the stated number {xf!r}")
        elif kw in LEFT or kw == "at most":
            if hi != xf or not ((lo < xf) if resolved else (lo <= xf)) or (kw == "at most" and lo != -math.inf):
                ctx.fail(dict(feat, check="endpoint"), case, f"hedge_interpret({text!r}) = [{lo!r}, {hi!r}] must end at the stated number {xf!r}")
        elif kw in RIGHT or kw == "at least":
            if lo != xf or not ((xf < hi) if resolved else (xf <= hi)) or (kw == "at least" and hi != math.inf):
                ctx.fail(dict(feat, check="endpoint"), case, f"hedge_interpret({text!r}) = [{lo!r}, {hi!r}] must start at the stated number {xf!r}")
        if len(ctx.samples) < 6 and rng.random() < 0.002:
            ctx.sample({"text": text, "impl": list(impl), "model": rep})
    # character level: the model parses the STRING itself (Pun.Hedge.parse, proved inverse to render in Props.C20)
    treqs, tmeta = [], []
    MALFORMED = ["1e", "1.2.3", "1e5.5", "1.5e2e3", "--5", "5e+", ".", "e5", "-", "5.e", "0x10", "+-5", "5-", "1..", ".e1", "1e-",
                 "12a", "a12", "1,5", "1e+-2", "..5", "-.", "+", "1.e.2"]
    for n in nums[: ctx.scale(200, 4000)]:
        t = render(n)
        treqs.append("sgtext " + t); tmeta.append(("sg", t, n, None))
        kw = rng.choice(HEDGES)
        sq = math.sqrt(abs(float(value(n))))
        treqs.append(f"hedgetext {kw.replace(' ', '_')} {t} {q(sq)}"); tmeta.append(("hedge", t, n, kw))
        treqs.append("roundtrip " + t); tmeta.append(("rt", t, n, None))
    for t in MALFORMED:
        treqs.append("sgtext " + t); tmeta.append(("bad", t, None, None))
    for (kind, t, n, kw), rep in zip(tmeta, core.model_batch("C20", treqs)):
        ctx.count(("text", kind, t, kw), True, "text:" + kind)
        if kind == "rt":
            # what the model read, written back, is read by Python as the same number with the same last digit
            a, b = impl_sg(t), impl_sg(rep) if not rep.startswith("err") else ("err", "model")
            (ctx.tie_ok if (a[0] == "ok" and a == b) else (lambda: ctx.tie_bad("text-roundtrip", {"text": t}, list(a), rep)))()
            continue
        model = parse_model(rep)
        if kind in ("sg", "bad"):
            impl = impl_sg(t)
            sc = max(abs(value(n)), F(10) ** last_digit_exp(n, False)) if n is not None else 1
        else:
            impl = impl_hedge(f"{kw} {t}")
            x = value(n)
            sc = max(abs(x), F(10) ** last_digit_exp(n, True), F(math.sqrt(abs(float(x)))) if kw == "count" else 0) * 10
        if same(impl, model, sc):
            ctx.tie_ok()
        else:
            ctx.tie_bad("text", {"text": t, "kw": kw}, list(impl), rep)
    # process-wide state: the interpretation must not depend on the public decimal context (precision, rounding)
    _decimal_context_stream(ctx, nums)
    # relations between results: nesting and commutation
    for n in nums:
        base = wire(n)
        get = lambda kw, v: results.get((kw, wire(v)))
        a, b, c = get("exactly", n), get("about", n), get("around", n)
        if a and b and c and all(r[0][0] == "ok" for r in (a, b, c)):
            (ia, x, sc, ta), (ib, _, _, _), (ic, _, _, _) = a, b, c
            ok = ic[1] <= ib[1] <= ia[1] <= ia[2] <= ib[2] <= ic[2]
            # strictly nested and strictly about the number wherever binary64 resolves the last digit of the numeral
            u = F(10) ** last_digit_exp(n, True)
            if ok and u >= 1024 * F(core.ulp(float(abs(x)))):
                xf = float(x)
                ok = ic[1] < ib[1] < ia[1] < xf < ia[2] < ib[2] < ic[2]
            if not ok:
                ctx.fail({"call": "hedge_interpret", "kind": "hedge", "check": "nesting", "neg": n[0], "below_one": abs(x) < 1},
                         {"text": ta}, f"{render(n)!r}: exactly {ia[1:]} / about {ib[1:]} / around {ic[1:]} are not nested")
        for kw in COMMUTING:
            r0 = get(kw, n)
            if not r0 or r0[0][0] != "ok":
                continue
            (i0, x0, sc0, t0) = r0
            off0 = (F(i0[1]) - x0 if math.isfinite(i0[1]) else i0[1], F(i0[2]) - x0 if math.isfinite(i0[2]) else i0[2])
            # sign
            r1 = get(kw, negate(n))
            if r1 and r1[0][0] == "ok":
                i1, x1, sc1, t1 = r1
                off1 = (F(i1[1]) - x1 if math.isfinite(i1[1]) else i1[1], F(i1[2]) - x1 if math.isfinite(i1[2]) else i1[2])
                if not (near(off1[0], off0[0], sc0) and near(off1[1], off0[1], sc0)):
                    ctx.fail({"call": "hedge_interpret", "kind": "hedge", "check": "sign", "kw": kw, "below_one": abs(x0) < 1},
                             {"text": t0, "other": t1}, f"{t0!r} -> {i0[1:]}, {t1!r} -> {i1[1:]}: the offsets from the number change with its sign")
        ctx.bump("relations")
    # power-of-ten and rewriting pairs (looked up by construction order)
    _pairs(ctx, nums, results)


def _pairs(ctx, nums, results):
    # results were stored for every variant; recover pairs by value ratio
    by_kw = {}
    for (kw, w), r in results.items():
        by_kw.setdefault(kw, []).append((w, r))
    for kw in COMMUTING:
        items = by_kw.get(kw, [])
        # group by (neg, digits) : variants of one numeral share sign and digit string
        groups = {}
        for w, r in items:
            t = w.split()
            groups.setdefault((t[0], (t[1] + t[2]).replace("-", "").lstrip("0")), []).append((w, r))
        for g in groups.values():
            ref = next(((w, r) for w, r in g if r[0][0] == "ok"), None)
            if ref is None:
                continue
            (w0, (i0, x0, sc0, t0)) = ref
            for w, (i, x, sc, t) in g:
                if w == w0:
                    continue
                # same digits, same sign: the numbers differ by the power of ten between their last-digit positions
                ratio = F(10) ** (_lde(w) - _lde(w0))
                if x0 != 0 and ratio != x / x0:
                    raise core.InfraError(f"pair bookkeeping: {t0!r} {t!r}")
                if i[0] != "ok":
                    continue           # reported already
                exp_lo = F(i0[1]) * ratio if math.isfinite(i0[1]) else i0[1]
                exp_hi = F(i0[2]) * ratio if math.isfinite(i0[2]) else i0[2]
                if not (near(i[1], exp_lo, sc) and near(i[2], exp_hi, sc)):
                    ctx.fail({"call": "hedge_interpret", "kind": "hedge", "check": "pow10", "kw": kw, "below_one": abs(x) < 1 or abs(x0) < 1},
                             {"text": t0, "other": t},
                             f"{t0!r} -> {i0[1:]} but {t!r} -> {i[1:]}: not the same interval multiplied by {float(ratio)!r}")


def _decimal_context_stream(ctx, nums):
    """the same calls under a lowered decimal.getcontext().prec / another rounding mode (set globally and through
    decimal.localcontext) give the results of the default context (or raise) — never another value; the context is
    left as it was found."""
    import decimal
    rng = ctx.rng
    pool = [n for n in nums if len(n[1] + n[2]) >= 4][: ctx.scale(90, 1500)] + list(FIXED[:12]) + list(ZEROS[:6])
    settings = [(3, decimal.ROUND_HALF_EVEN), (6, decimal.ROUND_DOWN), (2, decimal.ROUND_UP), (1, decimal.ROUND_CEILING), (5, decimal.ROUND_FLOOR)]
    for n in pool:
        t = render(n)
        kws = rng.sample(HEDGES, 3)
        calls = [("sgnumber", impl_sg, t), ("hedge_interpret", impl_hedge, t), ("pun.I", impl_punI, t)] + \
                [("hedge_interpret", impl_hedge, f"{kw} {t}") for kw in kws]
        base = [fn(a) for _, fn, a in calls]
        prec, rnd = rng.choice(settings)
        g = decimal.getcontext()
        saved = (g.prec, g.rounding)
        for how in ("global", "local"):
            try:
                if how == "global":
                    g.prec, g.rounding = prec, rnd
                    got = [fn(a) for _, fn, a in calls]
                else:
                    with decimal.localcontext() as c:
                        c.prec, c.rounding = prec, rnd
                        got = [fn(a) for _, fn, a in calls]
            finally:
                g.prec, g.rounding = saved
            for (name, _, a), b, r in zip(calls, base, got):
                ctx.count(("decimal-context", how, prec, rnd, name, a), True, "decimal-context")
                if r[0] == "err" and b[0] != "err":
                    continue            # raising under a hostile context is acceptable, another value is not
                if r != b and not (r[0] == b[0] == "ok" and all((x == y) or (x != x and y != y) for x, y in zip(r[1:], b[1:]))):
                    ctx.fail({"call": name, "kind": "decimal-context", "how": how, "prec": prec, "rounding": rnd, "symptom": "value"},
                             {"text": a, "call": name, "prec": prec, "rounding": rnd, "how": how},
                             f"{name}({a!r}) = {list(r)} with decimal context prec={prec}, rounding={rnd} ({how}); {list(b)} with the default context")
        if (decimal.getcontext().prec, decimal.getcontext().rounding) != saved:
            ctx.fail({"call": "decimal", "kind": "decimal-context", "symptom": "state-leaked"}, {"text": t}, "the decimal context was changed by the call")


def _lde(w):
    """decimal exponent of the last written digit, from the wire form of a numeral"""
    t = w.split()
    return (0 if t[4] == "n" else int(t[4])) - (0 if t[2] == "-" else len(t[2]))


def _gen(out):
    res = tr.generate(core.REPO, out)
    return "ok: %d keyword rows regenerated" % len(res["table"])


def replay(obj):
    c = obj.get("case", {})
    print(core.json.dumps(obj, indent=1))
    for k in ("text", "other"):
        if k in c:
            call = c.get("call", "hedge_interpret")
            fn = {"sgnumber": impl_sg, "pun.I": impl_punI}.get(call, impl_hedge)
            print(f"{call}({c[k]!r}) ->", fn(c[k]))
    return 0
