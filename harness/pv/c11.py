"""C11 — envelope and imposition are the lattice join and meet of uncertain numbers.

proof  : Pun.Props.C11Gen (the reductions, crossing test, exception and fold re-extracted from the source on every run by
         translator/envimp.py are proved equal to the hand model, so the theorems below hold for what the source says now);
         Pun.Props.C11 (binary env/imp are lub/glb of the containment order on well-formed p-boxes, imp raises iff
         the operands have no common selection, comm/assoc/idem, the folds over any listing order agree, the
         all-Interval shortcut is the interval hull and converts to the p-box envelope, `in` follows the order)
tie    : `envelope(*ops)` / `imposition(*ops)` for families of 0..5 operands of mixed Python kinds in EVERY listing order
         (<=120), `Pbox.env` / `Pbox.imp` on pairs, `x in p` for every item kind, against `Pun.EnvImp.*`
         (min/max do not round: agreement is exact on every stream)
oracle : independent of the model, exact (only comparisons of binary64 values, no arithmetic):
         envelope == pointwise (min of converted left bounds, max of right bounds)  [upper bound + least];
         all-Interval family -> Interval hull, equal to the p-box route; imposition raises iff some step has
         max left > min right, else == pointwise (max left, min right) [lower bound + greatest];
         every listing order gives the same result; associativity / idempotence of the methods;
         X contained in P  =>  `X in P`; range of X outside the range of P => not `X in P`;
         every operand `in` its envelope, the imposition `in` every operand;
         state between calls: results kept alive do not change, operands are not modified, re-evaluation after unrelated
         calls reproduces the first result, freshly created operands at reused addresses do not inherit earlier values,
         a converted DS structure spends mass*200 (+-2) steps on each focal element.
"""
from __future__ import annotations
import itertools, json, math, warnings
from fractions import Fraction as F
import numpy as np
from . import core, pbx
from .core import q, ql

N = 200


# ---------------------------------------------------------------------------------------------
# operand descriptions (JSON-able) -> Python objects, converted bounds, wire tokens
def rle(xs):
    out = []
    for v in xs:
        v = float(v) if not isinstance(v, int) else v
        if out and out[-1][0] == v:
            out[-1][1] += 1
        else:
            out.append([v, 1])
    return out


def unrle(r):
    out = []
    for v, c in r:
        out.extend([v] * c)
    return out


def build(d):
    """the Python object of an operand description"""
    from pyuncertainnumber import pba
    k = d[0]
    if k == "I":
        return pba.I(d[1], d[2])
    if k == "N":
        from fractions import Fraction as _Fr
        return {"int": int, "float": float, "np": np.float64, "npint": np.int64, "f32": np.float32, "f16": np.float16,
                "longdouble": np.longdouble, "frac": lambda v: _Fr(v)}[d[2]](d[1])
    if k == "P":
        return pbx.stair(unrle(d[1]), unrle(d[2]))
    if k == "P32":      # float32 bound arrays
        return pbx.Staircase()(left=np.array(unrle(d[1]), dtype=np.float32), right=np.array(unrle(d[2]), dtype=np.float32))
    if k == "Pi":       # integer-dtype p-box built from Python int lists
        return pbx.Staircase()(left=[int(v) for v in unrle(d[1])], right=[int(v) for v in unrle(d[2])])
    if k == "L":
        return getattr(pba, d[1])(*d[2])
    if k == "D":
        from pyuncertainnumber.pba.distributions import Distribution
        return Distribution(d[1], list(d[2]) if (len(d) > 3 and d[3] == "list") else tuple(d[2]))
    if k == "S":
        style = d[3] if len(d) > 3 else "lists"
        if style == "ivec":         # one vector Interval
            return pba.DempsterShafer(pba.I([a for a, _ in d[1]], [b for _, b in d[1]]), d[2])
        if style == "iobjs":        # a list of scalar Interval objects
            return pba.DempsterShafer([pba.I(a, b) for a, b in d[1]], d[2])
        return pba.DempsterShafer([list(iv) for iv in d[1]], list(d[2]))
    if k == "SM":       # DS structure produced by the library's own mixture of two DS structures (may repeat focal elements)
        return pba.stochastic_mixture(build(d[1]), build(d[2]))
    if k == "X":
        return float(d[1])
    if k == "O":
        return {"str": "abc", "list": [1, 2], "ndarray": np.array([1.0, 2.0]), "none": None}[d[1]]
    raise ValueError(d)


def bounds_of(d, obj):
    """bounds of the operand as a 200-step p-box.  Interval and Number: computed here (lo / hi repeated);
    Pbox: the object's own arrays; Distribution / DS structure: the object's to_pbox() (C08 / C09 are about that)"""
    k = d[0]
    if k == "I":
        return [float(d[1])] * N, [float(d[2])] * N
    if k == "N":
        return [float(d[1])] * N, [float(d[1])] * N
    if k in ("P", "L", "Pi", "P32"):
        return [float(v) for v in obj.left], [float(v) for v in obj.right]
    if k in ("D", "S", "SM"):
        p = obj.to_pbox()
        return [float(v) for v in p.left], [float(v) for v in p.right]
    return None


def wire_op(d, b):
    k = d[0]
    if k == "I":
        return f"I:{q(d[1])}:{q(d[2])}"
    if k == "N":
        return f"N:{q(d[1])}"
    if k == "X":
        return "X"
    if k == "O":
        return "O"
    return f"B:{ql(b[0])}:{ql(b[1])}"


def item_wire(d, obj):
    """token of an item for `in`: numbers by value, objects by their .lo / .hi attributes"""
    if d[0] == "N":
        return f"N:{q(d[1])}"
    if d[0] == "O":
        return "A"
    return f"J:{q(float(obj.lo))}:{q(float(obj.hi))}"


def canon(r):
    if r.__class__.__name__ == "Interval":
        return ("ivl", float(r.lo), float(r.hi))
    return ("ok", [float(v) for v in r.left], [float(v) for v in r.right])


def call(fn, *a):
    try:
        with warnings.catch_warnings():
            warnings.simplefilter("ignore")
            return canon(fn(*a))
    except BaseException as e:  # noqa
        return ("err", core.err_kind(e))


def call_obj(fn, *a):
    """(real result object or None, canonical value)"""
    try:
        with warnings.catch_warnings():
            warnings.simplefilter("ignore")
            r = fn(*a)
            return r, canon(r)
    except BaseException as e:  # noqa
        return None, ("err", core.err_kind(e))


def snap(d, obj):
    """what an operand IS, read from the object's own attributes (to verify that calls leave operands unchanged)"""
    k = d[0]
    if k == "I":
        return (float(obj.lo), float(obj.hi))
    if k in ("P", "L", "Pi", "P32"):
        return (tuple(float(v) for v in obj.left), tuple(float(v) for v in obj.right))
    if k in ("S", "SM"):
        return (tuple(float(v) for v in np.ravel(obj.intervals.lo)), tuple(float(v) for v in np.ravel(obj.intervals.hi)),
                tuple(float(v) for v in np.ravel(obj.masses)))
    if k == "D":
        return (obj.dist_family, tuple(float(v) for v in obj.dist_params))
    if k == "N":
        return float(obj)
    return None


def ds_reference(los, his, masses):
    """p-box of a DS structure computed from its focal elements and masses alone (exact rationals): at probability level p the
    left bound is the smallest lower endpoint whose cumulative mass (lower endpoints in increasing order) reaches p, the right
    bound likewise with the upper endpoints — each side with ITS OWN ordering and cumulative masses; repeated focal elements
    accumulate.  Returns (left, right, allowed) ; allowed[side][i] = values also accepted at step i because a cumulative mass
    coincides with the level up to 1e-12 (binary64 cumsum may fall on either side)."""
    import bisect
    from pyuncertainnumber.pba.params import Params
    ps = [F(float(p)) for p in Params.p_values]
    eps = F(1, 10 ** 12)
    out, allowed = [], []
    for vals in (los, his):
        pairs = sorted(zip([float(v) for v in vals], [F(float(m)) for m in masses]), key=lambda t: t[0])
        cum, c = [], F(0)
        for _, m in pairs:
            c += m
            cum.append(c)
        side, alw = [], []
        for p_ in ps:
            j = min(bisect.bisect_left(cum, p_), len(cum) - 1)
            side.append(pairs[j][0])
            near = {pairs[min(t + 1, len(cum) - 1)][0] for t in range(max(0, j - 1), min(len(cum), j + 2)) if abs(cum[t] - p_) < eps}
            near |= {pairs[t][0] for t in range(max(0, j - 1), min(len(cum), j + 2)) if abs(cum[t] - p_) < eps}
            alw.append(near)
        out.append(side)
        allowed.append(alw)
    return out[0], out[1], allowed


def ds_ref_bounds(d, obj, lib):
    """(reference bounds to judge with, description of the first disagreement with the library's conversion or None)"""
    if d[0] == "S":
        los, his, ms = [iv[0] for iv in d[1]], [iv[1] for iv in d[1]], d[2]
    else:   # mixture: the focal elements and masses the object itself exposes
        los, his, ms = list(np.ravel(obj.intervals.lo)), list(np.ravel(obj.intervals.hi)), list(np.ravel(obj.masses))
    L, R, allowed = ds_reference(los, his, ms)
    why = None
    for side, ref, got, alw in (("left", L, lib[0], allowed[0]), ("right", R, lib[1], allowed[1])):
        for i, (a, b) in enumerate(zip(ref, got)):
            if a != b:
                if b in alw[i]:
                    ref[i] = b          # level coincides with a cumulative mass: either neighbour is right
                elif why is None:
                    why = (f"{side} bound at step {i} (p = {0.001 + i * 0.998 / 199:.4f}) is {b}, the focal elements "
                           f"{[[float(x), float(y)] for x, y in zip(los, his)][:6]} with masses {[float(m) for m in ms][:6]} give {a}")
    return (L, R), why


def call_in(item, cont):
    try:
        r = item in cont
        return ("ok", bool(r))
    except BaseException as e:  # noqa
        return ("err", core.err_kind(e))


def parse_res(s):
    t = s.split()
    if t[0] == "err":
        return ("err", t[1])
    if t[0] == "ivl":
        return ("ivl", F(t[1]), F(t[2]))
    if t[0] == "ok" and len(t) == 3:
        return ("ok", core.unql(t[1]), core.unql(t[2]))
    if t[0] == "ok" and len(t) == 2:
        return ("ok", t[1] == "true")
    return ("bad", s)


def same(impl, model):
    """exact agreement (min / max / comparisons do not round)"""
    if impl[0] != model[0]:
        return False
    if impl[0] == "err":
        return impl[1] == model[1]
    if impl[0] == "ivl":
        return F(impl[1]) == model[1] and F(impl[2]) == model[2]
    if impl[0] == "ok" and isinstance(impl[1], bool):
        return impl[1] == model[1]
    if impl[0] == "ok":
        if len(impl[1]) != len(model[1]) or len(impl[2]) != len(model[2]):
            return False
        if any(math.isnan(v) or math.isinf(v) for v in impl[1] + impl[2]):
            return False
        return all(F(a) == b for a, b in zip(impl[1] + impl[2], model[1] + model[2]))
    return False


def js(t):
    if t is None:
        return None
    if t[0] == "ok" and not isinstance(t[1], bool):
        return ["ok", rle([float(v) for v in t[1]])[:12], rle([float(v) for v in t[2]])[:12]]
    return [t[0]] + [float(v) if isinstance(v, F) else v for v in t[1:]]


# ---------------------------------------------------------------------------------------------
# generators
def plateau(rng, lo, hi, kmax=6, quarter=False):
    """a sorted 200-step sequence with few plateaus, integer or quarter valued"""
    k = rng.choice([1, 1, 2, 3, kmax])
    cuts = sorted(rng.sample(range(1, N), k - 1)) if k > 1 else []
    vals = sorted(rng.randint(lo * 4, hi * 4) / 4 if quarter else rng.randint(lo, hi) for _ in range(k))
    out, seg = [], 0
    for i in range(N):
        while seg < len(cuts) and i >= cuts[seg]:
            seg += 1
        out.append(vals[seg])
    return out


def box_around(rng, cl, cr, quarter=False):
    """a p-box whose every step contains [cl[i], cr[i]] (cl, cr sorted)"""
    w = (lambda: rng.choice([0, 0, 1, 2, 5]) / (4 if quarter and rng.random() < .5 else 1))
    dl = sorted((w() for _ in range(3)), reverse=True)
    dr = sorted(w() for _ in range(3))
    c1, c2 = sorted(rng.sample(range(1, N), 2))
    seg = lambda i: 0 if i < c1 else (1 if i < c2 else 2)
    l = [cl[i] - dl[seg(i)] for i in range(N)]
    r = [cr[i] + dr[seg(i)] for i in range(N)]
    l = [min(l[i:]) for i in range(N)] if any(a > b for a, b in zip(l, l[1:])) else l
    r = list(np.maximum.accumulate(r)) if any(a > b for a, b in zip(r, r[1:])) else r
    return ["P", rle(l), rle([float(v) for v in r])]


def rand_operand(rng, quarter=False, span=6):
    kind = rng.choice(["I", "I", "N", "P", "P", "P"])
    g = (lambda: rng.randint(-span * 4, span * 4) / 4) if quarter else (lambda: rng.randint(-span, span))
    if kind == "I":
        a, b = sorted([g(), g()])
        return ["I", a, b]
    if kind == "N":
        v = g()
        t = rng.choice(["int", "float", "np"]) if float(v).is_integer() else rng.choice(["float", "np"])
        return ["N", int(v) if t == "int" else float(v), t]
    c = plateau(rng, -span, span, quarter=quarter)
    return box_around(rng, c, c, quarter)


def fam_core(rng, k, quarter=False):
    """operands that all contain a common core (imposition exists), then sometimes one is pushed away"""
    const = rng.random() < 0.5
    if const:
        v = rng.randint(-5, 5) + (rng.choice([0, .25, .5]) if quarter else 0)
        cl = cr = [v] * N
    else:
        cl = plateau(rng, -5, 5, quarter=quarter)
        cr = cl if rng.random() < .6 else [a + b for a, b in zip(cl, plateau(rng, 0, 2))]
    ops = []
    for _ in range(k):
        kind = rng.choice(["I", "N", "P", "P"]) if const else rng.choice(["I", "P", "P", "P"])
        if kind == "N":
            v = cl[0]
            t = rng.choice(["int", "float", "np"]) if float(v).is_integer() else rng.choice(["float", "np"])
            ops.append(["N", int(v) if t == "int" else float(v), t])
        elif kind == "I":
            ops.append(["I", cl[0] - rng.choice([0, 0, 1, 3]), cr[-1] + rng.choice([0, 0, 1, 2])])
        else:
            ops.append(box_around(rng, cl, cr, quarter))
    mode = rng.choice(["keep", "keep", "far", "touch", "step"])
    if mode == "far":
        j = rng.randrange(k)
        ops[j] = shift(ops[j], rng.choice([-40, 40]))
    elif mode == "touch" and k >= 2:
        # an interval that meets the family's common range in exactly one point (or misses it by a quarter)
        lo_all = max(lo_of(o) for o in ops)
        gap = rng.choice([0, 0, .25])
        ops[rng.randrange(k)] = ["I", lo_all - 3 - gap, min_r0(ops) - gap] if rng.random() < .5 else ["I", max_l_last(ops) + gap, max_l_last(ops) + gap + 2]
    elif mode == "step" and k >= 2:
        a, b = one_step_disjoint(rng)
        i, j = rng.sample(range(k), 2)
        ops[i], ops[j] = a, b
        for m in range(k):
            if m not in (i, j):
                ops[m] = ["I", -30, 40] if rng.random() < .5 else box_around(rng, [-2] * N, [21] * N)
    return ops, mode


def lo_of(o):
    return o[1] if o[0] in ("I", "N") else o[1][0][0]


def min_r0(ops):
    """smallest right bound at the first step"""
    return min((o[2] if o[0] == "I" else (o[1] if o[0] == "N" else o[2][0][0])) for o in ops)


def max_l_last(ops):
    """largest left bound at the last step"""
    return max((o[1] if o[0] in ("I", "N") else o[1][-1][0]) for o in ops)


def shift(o, s):
    if o[0] == "I":
        return ["I", o[1] + s, o[2] + s]
    if o[0] == "N":
        return ["N", o[1] + s, o[2]]
    return ["P", [[v + s, c] for v, c in o[1]], [[v + s, c] for v, c in o[2]]]


def one_step_disjoint(rng, j=None):
    """two well-formed boxes that overlap at every step except step j"""
    if j is None:
        j = rng.choice([0, 0, 1, N // 2, N - 2, N - 1, N - 1, rng.randrange(N)])
    xl = [0] * j + [10] * (N - j)
    xr = [20] * N
    yl = [-1] * N
    yr = [5] * (j + 1) + [20] * (N - j - 1)
    a, b = ["P", rle(xl), rle(xr)], ["P", rle(yl), rle(yr)]
    return (a, b) if rng.random() < .5 else (b, a)


GRID_POOL = (
    [["I", a, b] for a in (0, 1, 2) for b in (0, 1, 2) if a <= b]
    + [["N", 0, "int"], ["N", 1, "int"], ["N", 2, "np"], ["N", 1.0, "float"]]
    + [["P", [[0, 100], [1, 100]], [[1, 100], [2, 100]]],
       ["P", [[0, 200]], [[2, 200]]],
       ["P", [[1, 200]], [[1, 200]]],
       ["P", [[0, 1], [1, 199]], [[1, 199], [2, 1]]],
       ["S", [[0, 1], [1, 2]], [0.5, 0.5]],
       ["D", "uniform", [0, 2]]]
)


def lib_operand(rng):
    kind = rng.choice(["normal", "uniform", "I", "N", "D", "D", "S", "mmm", "P"])
    a = round(rng.uniform(-3, 3), 3)
    if kind == "normal":
        return ["L", "normal", [[a, a + round(rng.uniform(0, 2), 3)], [0.5, 0.5 + round(rng.uniform(0, 1), 3)]]]
    if kind == "uniform":
        return ["L", "uniform", [[a, a + 1], [a + 2, a + 2 + round(rng.uniform(0, 3), 3)]]]
    if kind == "I":
        return ["I", a, a + round(rng.uniform(0, 4), 3)]
    if kind == "N":
        return ["N", a, rng.choice(["float", "np"])]
    if kind == "D":
        fam = rng.choice(["gaussian", "uniform", "exponential", "triang"])
        par = {"gaussian": [a, round(rng.uniform(.3, 2), 3)], "uniform": [a, a + round(rng.uniform(.5, 4), 3)],
               "exponential": [round(rng.uniform(.5, 3), 3)], "triang": [round(rng.uniform(.1, .9), 2), a, round(rng.uniform(.5, 3), 3)]}[fam]
        return ["D", fam, par]
    if kind == "S":
        m = rng.choice([2, 3, 4])
        ivs = [[x, x + round(rng.uniform(0, 3), 3)] for x in (round(rng.uniform(-3, 3), 3) for _ in range(m))]
        return ["S", ivs, [1.0 / m] * m]
    if kind == "mmm":
        return ["L", "min_max_mean", [a, a + 4, a + round(rng.uniform(.5, 3.5), 3)]]
    return rand_operand(rng, quarter=True, span=3)


def gen_families(ctx):
    rng = ctx.rng
    fams = []   # (stream, ops)
    # grid: every family of 1 and 2 pool operands (order handled by the listing orders), sampled triples
    for o in GRID_POOL:
        fams.append(("grid", [o]))
    for a, b in itertools.combinations_with_replacement(GRID_POOL, 2):
        fams.append(("grid", [a, b]))
    tr = list(itertools.combinations_with_replacement(range(len(GRID_POOL)), 3))
    rng.shuffle(tr)
    for t in tr[: ctx.scale(120, len(tr))]:
        fams.append(("grid", [GRID_POOL[i] for i in t]))
    # exactly one disjoint step (first, second, middle, last but one, last), alone and beside a wide interval
    for j in (0, 1, N // 2, N - 2, N - 1):
        a, b = one_step_disjoint(rng, j)
        fams.append(("grid", [a, b]))
        fams.append(("grid", [["I", -30, 40], a, b]))
    # random exact streams, k = 1..5
    for _ in range(ctx.scale(240, 2500)):
        k = rng.choice([1, 2, 2, 3, 3, 4, 5])
        ops, mode = fam_core(rng, k, quarter=rng.random() < .4)
        fams.append(("core-" + mode, ops))
    for _ in range(ctx.scale(90, 1000)):
        k = rng.choice([2, 3, 4, 5])
        qt = rng.random() < .4
        fams.append(("random", [rand_operand(rng, qt, span=rng.choice([2, 6])) for _ in range(k)]))
    # library constructors / distributions / DS structures (binary64 values)
    for _ in range(ctx.scale(60, 600)):
        k = rng.choice([2, 2, 3, 4, 5])
        fams.append(("lib", [lib_operand(rng) for _ in range(k)]))
    # nearly equal operands (relative difference 1e-6 .. 1e-5, i.e. inside numpy.allclose's default tolerance):
    # an implementation that treats "close" as "equal" drops the slightly wider operand
    for _ in range(ctx.scale(40, 400)):
        a = float(rng.choice([1000, 250, -800, 3.5, 1e4]))
        w = abs(a) * rng.choice([0.5, 1.0, 2.0])
        e1, e2 = a * rng.choice([2e-6, 4e-6, -3e-6]), abs(a) * rng.choice([5e-6, 1e-5])
        i1 = ["I", a, a + w]
        i2 = ["I", a + e1, a + w + e2]
        third = rng.choice([["N", a + w / 2, "float"], ["P", [[a + w / 4, 200]], [[a + w / 2, 200]]]])
        ops = [i1, i2, third]
        rng.shuffle(ops)
        fams.append(("near-equal", ops))
    fams.extend(seq_families(ctx))
    # malformed: empty family, foreign objects, non-finite numbers
    fams.append(("malformed", []))
    for bad in (["O", "str"], ["O", "list"], ["O", "ndarray"], ["O", "none"], ["X", "nan"], ["X", "inf"]):
        fams.append(("malformed", [bad]))
        fams.append(("malformed", [["I", 0, 1], bad]))
        fams.append(("malformed", [bad, ["P", [[0, 200]], [[2, 200]]], ["N", 1, "int"]]))
    fams.append(("malformed", [["O", "str"], ["X", "nan"]]))
    fams.append(("malformed", [["X", "nan"], ["O", "str"]]))
    return fams


def scale_op(o, sc):
    if o[0] == "I":
        return ["I", float(o[1]) * sc, float(o[2]) * sc]
    if o[0] == "N":
        return ["N", float(o[1]) * sc, "np" if o[2] == "np" else "float"]
    return ["P", [[float(v) * sc, c] for v, c in o[1]], [[float(v) * sc, c] for v, c in o[2]]]


def rand_masses(rng, m):
    w = [rng.choice([1, 1, 2, 3, 5, 8]) for _ in range(m)]
    t = sum(w)
    ms = [round(x / t, 2) for x in w[:-1]]
    return ms + [round(1 - sum(ms), 2)]


def seq_families(ctx):
    """consecutive calls that bind the same numbers differently (operands are built immediately before each call and dropped
    after it, so object addresses are reused): same focal elements / different masses, same family / different parameter,
    same endpoint / different other endpoint, same value / different number type, DS structures given as lists, as one vector
    Interval, as a list of Interval objects; integer-dtype p-boxes; tiny, thin and huge operands"""
    rng = ctx.rng
    F = [[1, 2], [3, 5], [4, 6]]
    fams = [
        ("seq", [["S", F, [.5, .3, .2]], ["I", 3.5, 4]]),
        ("seq", [["S", F, [.1, .1, .8]], ["I", 3.5, 4]]),
        ("seq", [["S", F, [.1, .1, .8]]]),
        ("seq", [["S", F, [.2, .6, .2]], ["I", 0, 5.5]]),
        ("seq", [["S", F, [.5, .3, .2], "ivec"], ["I", 0, 5.5]]),
        ("seq", [["S", F, [.1, .8, .1], "iobjs"], ["N", 4, "int"]]),
        ("seq", [["S", F[::-1], [.2, .3, .5]], ["I", 3.5, 4]]),
        ("seq", [["S", F, [.8, .1, .1]], ["S", F, [.1, .1, .8]]]),
        ("seq", [["D", "gaussian", [0, 1]], ["I", 0, 1]]),
        ("seq", [["D", "gaussian", [0, 2]], ["I", 0, 1]]),
        ("seq", [["D", "gaussian", [0, 1], "list"], ["I", 0, 1]]),
        ("seq", [["D", "gaussian", [1, 1]], ["L", "normal", [0, 1]]]),
        ("seq", [["D", "uniform", [0, 2]]]),
        ("seq", [["D", "uniform", [0, 3]]]),
        ("seq", [["L", "uniform", [[0, 1], [2, 3]]], ["N", 1.5, "float"]]),
        ("seq", [["L", "uniform", [[0, 1], [2, 4]]], ["N", 1.5, "float"]]),
        ("seq", [["L", "min_max", [2, 5]], ["N", 3, "int"]]),
        ("seq", [["L", "min_max", [2, 6]], ["N", 3, "npint"]]),
        ("seq", [["L", "min_max_mean", [0, 4, 1]], ["I", 1, 2]]),
        ("seq", [["L", "min_max_mean", [0, 4, 3]], ["I", 1, 2]]),
        ("seq", [["I", 1, 3], ["N", 2, "int"]]),
        ("seq", [["I", 1, 4], ["N", 2, "npint"]]),
        ("seq", [["I", 0, 3], ["N", 2.0, "np"]]),
        ("seq", [["Pi", [[0, 100], [1, 100]], [[1, 100], [2, 100]]], ["I", 0, 1]]),
        ("seq", [["Pi", [[0, 100], [1, 100]], [[1, 100], [3, 100]]], ["I", 0, 1]]),
        ("seq", [["Pi", [[0, 100], [1, 100]], [[1, 100], [2, 100]]], ["Pi", [[1, 200]], [[1, 50], [4, 150]]], ["L", "min_max", [0, 2]]]),
        ("seq", [["Pi", [[2, 200]], [[5, 200]]], ["L", "min_max", [2, 5]], ["I", 2, 5]]),
    ]
    for _ in range(ctx.scale(10, 120)):
        m = rng.choice([2, 3, 4])
        los = sorted(rng.sample(range(-6, 7), m))
        foc = [[a, a + rng.choice([1, 2, 3]) + i] for i, a in enumerate(los)]
        style = rng.choice(["lists", "lists", "ivec", "iobjs"])
        partner = rng.choice([["I", los[0], los[-1] + 1], ["N", los[1], "int"], ["I", -10, 20], None])
        for _ in range(3):
            ops = [["S", foc, rand_masses(rng, m), style]] + ([partner] if partner else [])
            rng.shuffle(ops)
            fams.append(("seq", ops))
    # DS structures with repeated, nested, unordered focal elements and unequal masses; one focal element; as many focal
    # elements as steps-2, steps-1, steps, steps+1; mixtures made by the library (shared focal elements)
    fams += [
        ("dss", [["S", [[1, 3], [1, 3], [2, 6]], [.4, .3, .3]]]),
        ("dss", [["S", [[1, 3], [1, 3], [2, 6]], [.4, .3, .3]], ["I", 2, 2.5]]),
        ("dss", [["S", [[2, 6], [1, 3], [1, 3]], [.3, .1, .6], "ivec"], ["N", 2, "int"]]),
        ("dss", [["S", [[1, 5], [2, 3]], [.8, .2]]]),
        ("dss", [["S", [[1, 5], [2, 3]], [.8, .2]], ["I", 2.5, 4]]),
        ("dss", [["S", [[2, 3], [1, 5]], [.3, .7], "iobjs"], ["S", [[1, 5], [2, 3]], [.3, .7]]]),
        ("dss", [["S", [[0, 10], [4, 5], [2, 7], [4, 5]], [.1, .4, .2, .3]], ["P", [[3, 200]], [[6, 200]]]]),
        ("dss", [["S", [[3, 4]], [1.0]], ["I", 0, 3.5]]),
        ("dss", [["S", [[5, 6], [1, 2], [3, 9]], [.05, .9, .05]], ["N", 1.5, "float"], ["I", 0, 4]]),
        ("dss", [["SM", ["S", [[1, 3], [2, 6]], [.5, .5]], ["S", [[1, 3], [0, 1]], [.2, .8]]], ["I", 0.5, 2]]),
        ("dss", [["SM", ["S", [[1, 5], [2, 3]], [.8, .2]], ["S", [[2, 3], [1, 5]], [.6, .4]]]]),
    ]
    for n_ in (N - 2, N - 1, N, N + 1):
        fams.append(("dss", [["S", [[i, 2 * i + 1] for i in range(n_)], [1.0 / n_] * n_], ["I", 50, 60]]))
        fams.append(("dss", [["S", [[(7 * i) % n_, (7 * i) % n_ + (i % 5)] for i in range(n_)], [1.0 / n_] * n_, "ivec"]]))
    for _ in range(ctx.scale(24, 300)):
        m = rng.choice([2, 3, 3, 4, 5])
        pool = [[a, b] for a in range(0, 6) for b in range(a, 8)]
        foc = [list(rng.choice(pool)) for _ in range(m)]
        if rng.random() < .5:
            foc[rng.randrange(m)] = list(foc[0])                    # a repeated focal element
        if rng.random() < .5:
            a0, b0 = foc[0]
            foc[-1] = [a0 + (b0 - a0) // 3, b0 - (b0 - a0) // 3]    # nested in the first one
        ds = ["S", foc, rand_masses(rng, m), rng.choice(["lists", "ivec", "iobjs"])]
        partner = rng.choice([None, ["I", 2, 4], ["N", 3, "int"], ["P", [[1, 120], [2, 80]], [[5, 60], [6, 140]]],
                              ["S", foc[::-1], rand_masses(rng, m)]])
        ops = [ds] + ([partner] if partner else [])
        rng.shuffle(ops)
        fams.append(("dss", ops))
    # magnitudes: exact families rescaled to tiny and huge scales (min / max / comparisons stay exact)
    for _ in range(ctx.scale(30, 300)):
        k = rng.choice([2, 3, 3, 4])
        ops, mode = fam_core(rng, k, quarter=rng.random() < .4)
        sc = rng.choice([2.0 ** -30, 2.0 ** -70, 1e-19, 1e-170, 2.0 ** 36, 1e150, 1e17])
        fams.append(("scaled", [scale_op(o, sc) for o in ops]))
    # falsy but valid operands
    fams += [
        ("extreme", [["N", 0, "int"], ["N", -0.0, "float"]]),
        ("extreme", [["I", 0, 0], ["N", 0.0, "float"], ["P", [[0.0, 200]], [[0.0, 200]]]]),
        ("extreme", [["N", -0.0, "np"], ["I", -1, 0]]),
        ("extreme", [["I", 0, 0], ["I", -0.0, 0.0], ["I", 0, 1]]),
    ]
    # numeric types: the result must be the float64 computation of the same values
    fams += [
        ("extreme", [["N", 2.5, "f32"], ["I", 0, 1], ["N", 0.75, "f16"]]),
        ("extreme", [["N", 2 ** 60, "int"], ["I", 0, 1]]),
        ("extreme", [["N", 2.5, "frac"], ["N", 2.5, "longdouble"], ["I", 2, 3]]),
        ("extreme", [["P32", [[1, 120], [1.5, 80]], [[3, 60], [3.25, 140]]], ["I", 1.25, 2], ["N", 1.75, "f32"]]),
        ("extreme", [["P32", [[1, 200]], [[3, 200]]], ["P", [[0.5, 200]], [[2.5, 200]]]]),
    ]
    tiny = [[1e-9, 100], [4e-9, 100]]
    fams += [
        ("extreme", [["I", 2e-9, 8e-9], ["N", 5e-9, "float"]]),
        ("extreme", [["I", 2e-9, 8e-9], ["I", 3e-9, 9e-9], ["P", tiny, [[5e-9, 100], [7e-9, 100]]]]),
        ("extreme", [["I", 2e-9, 8e-9], ["N", 9e-9, "float"]]),
        ("extreme", [["N", 1e-20, "float"], ["N", 2.0 ** -60, "np"], ["I", 0, 1e-20]]),
        ("extreme", [["N", 1e-20, "float"], ["N", 0, "int"]]),
        ("extreme", [["N", 1e-20, "float"], ["I", 0.0, 2e-20], ["P", [[0.0, 200]], [[1e-20, 100], [3e-20, 100]]]]),
        ("extreme", [["N", 1.380649e-23, "float"], ["I", 0.0, 1.0], ["N", 1e18, "float"]]),
        ("extreme", [["N", 1e18, "float"], ["I", 1e18, 1e18 + 256], ["N", 1e18 + 128, "np"]]),
        ("extreme", [["I", 1.0, 1.0 + 1e-9], ["N", 1.0 + 5e-10, "float"]]),
        ("extreme", [["I", 1.0, 1.0 + 1e-9], ["N", 1.0 + 2e-9, "float"]]),
        ("extreme", [["I", 1.0, 1.0 + 1e-9], ["I", 1.0 + 1e-9, 1.0 + 3e-9], ["I", 1.0 - 1e-9, 1.0 + 1e-9]]),
        ("extreme", [["P", [[5.0, 200]], [[5.0 + 1e-8, 200]]], ["P", [[5.0 + 2e-8, 200]], [[5.0 + 3e-8, 200]]]]),
        ("extreme", [["P", [[5.0, 200]], [[5.0 + 1e-8, 200]]], ["P", [[5.0 + 5e-9, 200]], [[5.0 + 3e-8, 200]]], ["N", 5.0 + 7e-9, "float"]]),
    ]
    return fams


def orders_for(ctx, k, idx5):
    """listing orders besides the given one: all of them up to k = 4 and for the first k = 5 families, else a sample"""
    if k <= 1:
        return []
    allp = [list(p) for p in itertools.permutations(range(k))][1:]
    if k <= 4 or ctx.tier == "thorough" or idx5 < 12:
        return allp
    ctx.rng.shuffle(allp)
    return sorted(allp[:14] + [list(range(k - 1, -1, -1))])


# ---------------------------------------------------------------------------------------------
def contained(x, p):
    """x ⊑ p on converted bounds (exact comparisons)"""
    return all(pl <= xl for pl, xl in zip(p[0], x[0])) and all(xr <= pr for xr, pr in zip(x[1], p[1]))


def first_diff(a, b):
    for i, (u, v) in enumerate(zip(a, b)):
        if u != v:
            return i
    return None if len(a) == len(b) else min(len(a), len(b))


def kinds(ops):
    return "".join(sorted(o[0] for o in ops))


def run(ctx: core.Check):
    global N
    core.stub_moments()
    ctx.rule = ("families of 0..5 operands of mixed Python kinds (scalar Interval, int/float/numpy number, Staircase, library p-box, "
                "Distribution, Dempster-Shafer structure, foreign object, non-finite number): every 1- and 2-family of an 18-operand grid pool, "
                "sampled triples, random integer / quarter-valued families built around a common core (imposition exists) with one operand pushed far, "
                "touching in one point, or disjoint at exactly one step (first / last / random), unrelated random families, library-constructor "
                "families; each evaluated in every listing order (all k! up to k = 4, all 120 for part of the 5-families, sampled otherwise). "
                "Sequence stream (operands created right before each call and dropped after it): same focal elements with different masses, "
                "same family / other parameter, DS structures given as lists / one vector Interval / Interval objects, integer-dtype p-boxes, "
                "numpy integer numbers; extreme stream: tiny (1e-9, 1e-20, 2**-60), thin (relative 1e-9) and huge (1e18) operands; "
                "create / aggregate / drop loops per operand kind (address reuse); every first result object is kept alive and re-read "
                "later, operands are snapshotted and compared after the calls, a sample of families is evaluated again at the end "
                "(same objects, and rebuilt). dss stream: DS operands with repeated, nested, unordered focal elements and unequal masses, one focal "
                "element, steps-2 / steps-1 / steps / steps+1 focal elements, library mixtures of DS structures — judged against a p-box computed "
                "in the harness from the focal elements and masses; scaled stream: exact families at 2^-30, 2^-70, 1e-19, 1e-170, 2^36, 1e17, 1e150; "
                "falsy operands (0, -0.0, [0,0]); interactions: operands copied / deep-copied / pickled / rebuilt from their structures, results "
                "fed back as operands, calls inside `with dependency(...)`. Global state: families of every operand kind built and aggregated under "
                "Params.steps = 100 / 300 (40, 400 thorough; set, used, restored in a finally) must have that many steps and be the step-wise "
                "join / meet there (also tied to the model at that step count), the default-grid families are re-evaluated afterwards; the same "
                "calls under np.errstate(all='raise') + warnings-as-errors give the same value or raise. Aliasing: operands built from the "
                "caller's float64 buffers; results share no memory with them and keep their value when they are overwritten. Numeric types: "
                "float16 / float32 / longdouble / Fraction / 2**60 numbers and float32 p-boxes. Non-trivial = at least two operands that are not all equal; distinct on the operand descriptions.")
    ctx.assumptions = ["bounds of Distribution / DempsterShafer operands are taken from their own to_pbox() (C08 / C09 are about those)",
                       "moments are stubbed in the harness process (C04's concern); output_type other than 'pbox' is not exercised",
                       "vector Intervals and sample-based Distribution objects are outside the modelled operand kinds"]
    ctx.lean_stage(["Pun.Lemmas.EnvImp", "Pun.Props.C11", "Pun.Props.C11Gen"],
                   generators=[("pbox_abc.py Staircase.env/imp, aggregation.py envelope/imposition, intervals/methods.py env", _gen)])
    from pyuncertainnumber.pba.aggregation import envelope, imposition
    from pyuncertainnumber.pba.operation import convert
    fams = gen_families(ctx)
    built, reqs = [], []
    n5 = 0
    for stream, ops in fams:
        objs = [build(d) for d in ops]
        bnds = [bounds_of(d, o) for d, o in zip(ops, objs)]
        k = len(ops)
        perms = orders_for(ctx, k, n5)
        if k == 5:
            n5 += 1
        ptok = ";".join(".".join(map(str, p)) for p in perms) if perms else "-"
        toks = " ".join(wire_op(d, b) for d, b in zip(ops, bnds))
        fresh = stream in ("seq", "extreme", "dss")
        built.append((stream, ops, None if fresh else objs, bnds, perms))
        del objs
        reqs.append(f"envelope {N} {ptok} {toks}".rstrip())
        reqs.append(f"imposition {N} {ptok} {toks}".rstrip())
    replies = core.model_batch("C11", reqs)
    extra_reqs, extra_meta = [], []   # second batch: containment and pair requests, built from the implementation's results

    def extra(req, *meta):
        extra_reqs.append(req)
        extra_meta.append(meta)

    kept = []        # (family index, call, REAL result object, canonical value when produced) — re-read later
    first = {}       # (family index, call) -> canonical first result, for the re-evaluation pass
    snaps0 = {}

    def recheck_kept(upto=None):
        for fj, wh, obj, c0 in kept[-(upto or len(kept)):]:
            try:
                c1 = canon(obj)
            except BaseException as e:  # noqa
                c1 = ("err", core.err_kind(e))
            ctx.count(("kept", fj, wh, len(kept)), False, None)
            if c1 != c0:
                st, ops_ = built[fj][0], built[fj][1]
                ctx.fail({"k": len(ops_), "kinds": kinds(ops_), "stream": st.split("-")[0], "call": wh, "check": "result-changed-later"},
                         {"stream": st, "operands": ops_, "call": wh, "when_produced": js(c0), "re_read": js(c1)},
                         f"a result of {wh} kept alive changed its value after later, unrelated calls")

    for fi, (stream, ops, objs, bnds, perms) in enumerate(built):
        k = len(ops)
        if objs is None:
            objs = [build(d) for d in ops]      # sequence streams: operands are created right before the calls and dropped after
        snap_before = [snap(d, o) for d, o in zip(ops, objs)]
        if fi % 100 == 99:
            recheck_kept(120)
        valid = all(b is not None for b in bnds) and k >= 1
        # DS operands are judged against the p-box computed here from their focal elements and masses, not against the
        # library's own conversion (which only feeds the model); a conversion that differs is itself reported
        obnds = list(bnds)
        if valid:
            for j, (d, o, b) in enumerate(zip(ops, objs, bnds)):
                if d[0] in ("S", "SM"):
                    obnds[j], why = ds_ref_bounds(d, o, b)
                    ctx.count(("ds-conversion", json.dumps(d)), True, None)
                    if why:
                        ctx.fail({"k": k, "kinds": kinds(ops), "stream": stream.split("-")[0], "call": "convert", "check": "ds-conversion"},
                                 {"stream": stream, "operands": ops, "operand": d},
                                 "DS operand converted for envelope / imposition: " + why)
        nontriv = k >= 2 and any(json.dumps(o) != json.dumps(ops[0]) for o in ops[1:])
        feat0 = {"k": k, "kinds": kinds(ops), "stream": stream.split("-")[0]}
        desc = {"stream": stream, "operands": ops}
        all_ivl = k >= 1 and all(o[0] == "I" for o in ops)
        for which, fn, rep in (("envelope", envelope, replies[2 * fi]), ("imposition", imposition, replies[2 * fi + 1])):
            mres = rep.split(" | ")
            m0 = parse_res(mres[0])
            results = []
            for oi, order in enumerate([list(range(k))] + perms):
                if oi == 0:
                    robj, impl = call_obj(fn, *objs)
                    first[(fi, which)] = impl
                    if robj is not None and (len(kept) < 4000):
                        kept.append((fi, which, robj, impl))
                else:
                    impl = call(fn, *[objs[i] for i in order])
                results.append(impl)
                ctx.count((which, json.dumps(ops), tuple(order)), nontriv, stream)
                mod = m0 if (oi == 0 or mres[oi] == "=") else parse_res(mres[oi])
                if oi == 0 or mres[oi] != "=" or impl != results[0]:
                    ok = same(impl, mod)
                else:
                    ok = True   # implementation and model both repeat their first result, which was compared exactly
                if ok:
                    ctx.tie_ok()
                else:
                    ctx.tie_bad(stream, {**desc, "call": which, "order": order}, js(impl), js(mod))
            ctx.bump(f"{which}:k={k}")
            r0 = results[0]
            case = {**desc, "call": which, "impl": js(r0)}
            if not valid:
                # outside the quantifier: only the error kinds are compared (tie)
                continue
            # ---- listing order -------------------------------------------------------------
            for oi, r in enumerate(results[1:], 1):
                if r != r0:
                    ctx.fail({**feat0, "call": which, "check": "order"}, {**case, "order": perms[oi - 1], "impl_order": js(r)},
                             f"{which}: listing order {perms[oi - 1]} gives a different result from the given order")
                    break
            Ls, Rs = [b[0] for b in obnds], [b[1] for b in obnds]
            if which == "envelope":
                wantL = [min(c) for c in zip(*Ls)]
                wantR = [max(c) for c in zip(*Rs)]
                if r0[0] == "err":
                    ctx.fail({**feat0, "call": which, "check": "raises", "symptom": "raises:" + r0[1]}, case,
                             f"envelope raised {r0[1]} on a family of kinds {feat0['kinds']}")
                    continue
                if all_ivl:
                    if r0[0] != "ivl" or r0[1] != wantL[0] or r0[2] != wantR[0]:
                        ctx.fail({**feat0, "call": which, "check": "hull"}, {**case, "expected": [wantL[0], wantR[0]]},
                                 f"envelope of intervals is not their hull [{wantL[0]}, {wantR[0]}]")
                    # the p-box route on the same intervals must give the hull as a p-box
                    alt = call(envelope, *[convert(o) for o in objs])
                    ctx.count(("envelope-pbox-route", json.dumps(ops)), nontriv, stream)
                    if alt[0] != "ok" or alt[1] != wantL or alt[2] != wantR:
                        ctx.fail({**feat0, "call": which, "check": "hull-vs-pbox"}, {**case, "pbox_route": js(alt)},
                                 "p-box envelope of converted intervals differs from the converted interval hull")
                    for d, o in zip(ops, objs):
                        if r0[0] == "ivl":
                            extra(f"icontains {q(r0[1])} {q(r0[2])} {item_wire(d, o)}", "in-hull", fi, d, call_in(o, envelope(*objs)), True, None)
                    continue
                if r0[0] != "ok":
                    ctx.fail({**feat0, "call": which, "check": "type"}, case, "envelope of a mixed family did not return a p-box")
                    continue
                i = first_diff(r0[1], wantL)
                j = first_diff(r0[2], wantR)
                if i is not None or j is not None:
                    s = i if i is not None else j
                    side = "left" if i is not None else "right"
                    got = (r0[1] if i is not None else r0[2])[s] if s < len(r0[1]) else None
                    want = (wantL if i is not None else wantR)[s] if s < N else None
                    upper = (got is not None and want is not None and ((side == "left" and got > want) or (side == "right" and got < want)))
                    ctx.fail({**feat0, "call": which, "check": "upper" if upper else "least", "side": side},
                             {**case, "step": s, "got": got, "expected": want},
                             f"envelope {side} bound at step {s} is {got}, pointwise {'min' if side == 'left' else 'max'} of the operands is {want}"
                             + (" (an operand is not contained)" if upper else " (not the least p-box containing the operands)"))
                    continue
                Eobj = envelope(*objs)
                for d, o, b in zip(ops, objs, bnds):
                    extra(f"contains {ql(r0[1])} {ql(r0[2])} {item_wire(d, o)}", "in-envelope", fi, d, call_in(o, Eobj), True, None)
            else:
                exists = all(max(c) <= min(e) for c, e in zip(zip(*Ls), zip(*Rs)))
                bad_step = next((s for s, (c, e) in enumerate(zip(zip(*Ls), zip(*Rs))) if max(c) > min(e)), None)
                ctx.bump("imposition-exists" if exists else "imposition-empty")
                if not exists:
                    if r0[0] != "err":
                        ctx.fail({**feat0, "call": which, "check": "must-raise"}, {**case, "step": bad_step},
                                 f"imposition returned a p-box although the operands have no common value at step {bad_step}")
                    elif r0[1] != "Other":
                        ctx.fail({**feat0, "call": which, "check": "raises", "symptom": "raises:" + r0[1]}, case,
                                 f"imposition of operands without a common distribution raised {r0[1]} instead of its own exception")
                    continue
                wantL = [max(c) for c in zip(*Ls)]
                wantR = [min(c) for c in zip(*Rs)]
                if r0[0] != "ok":
                    ctx.fail({**feat0, "call": which, "check": "raises", "symptom": "raises:" + str(r0[1])}, case,
                             f"imposition raised {r0[1]} although every step of the operands has a common value")
                    continue
                i = first_diff(r0[1], wantL)
                j = first_diff(r0[2], wantR)
                if i is not None or j is not None:
                    s = i if i is not None else j
                    side = "left" if i is not None else "right"
                    got = (r0[1] if i is not None else r0[2])[s] if s < len(r0[1]) else None
                    want = (wantL if i is not None else wantR)[s] if s < N else None
                    lower = (got is not None and want is not None and ((side == "left" and got < want) or (side == "right" and got > want)))
                    ctx.fail({**feat0, "call": which, "check": "lower" if lower else "greatest", "side": side},
                             {**case, "step": s, "got": got, "expected": want},
                             f"imposition {side} bound at step {s} is {got}, pointwise {'max' if side == 'left' else 'min'} of the operands is {want}"
                             + (" (not contained in an operand)" if lower else " (not the largest p-box inside the operands)"))
                    continue
                Mobj = imposition(*objs)
                for d, o, b in zip(ops, objs, bnds):
                    P = convert(o)
                    extra(f"contains {ql(b[0])} {ql(b[1])} J:{q(float(Mobj.lo))}:{q(float(Mobj.hi))}", "imposition-in-operand", fi, d, call_in(Mobj, P), True, None)
        # ---- the methods on pairs / triples of converted operands: tie + algebra --------------------
        if valid and ((k >= 2 and stream != "grid") or k == 3):
            P = [convert(o) for o in objs[:3]]
            B = bnds[:3]
            ab = call(lambda: P[0].env(P[1]))
            ba = call(lambda: P[1].env(P[0]))
            extra(f"env {N} {pbx.wire_pb(*B[0])} {pbx.wire_pb(*B[1])}", "Pbox.env", fi, None, ab, None, None)
            iab = call(lambda: P[0].imp(P[1]))
            iba = call(lambda: P[1].imp(P[0]))
            extra(f"imp {N} {pbx.wire_pb(*B[0])} {pbx.wire_pb(*B[1])}", "Pbox.imp", fi, None, iab, None, None)
            feat = {**feat0, "call": "method"}
            cdesc = {**desc, "call": "Pbox.env / Pbox.imp on the converted operands"}
            if ab != ba:
                ctx.fail({**feat, "check": "env-comm"}, cdesc, "a.env(b) differs from b.env(a)")
            if iab != iba:
                ctx.fail({**feat, "check": "imp-comm"}, cdesc, "a.imp(b) differs from b.imp(a)")
            aa = call(lambda: P[0].env(P[0]))
            ia = call(lambda: P[0].imp(P[0]))
            ctx.count(("idem", json.dumps(ops[0])), False, None)
            if aa != ("ok", B[0][0], B[0][1]):
                ctx.fail({**feat, "check": "env-idem"}, cdesc, "a.env(a) differs from a")
            if ia != ("ok", B[0][0], B[0][1]):
                ctx.fail({**feat, "check": "imp-idem"}, cdesc, "a.imp(a) differs from a")
            if len(P) == 3:
                l1 = call(lambda: P[0].env(P[1]).env(P[2]))
                l2 = call(lambda: P[0].env(P[1].env(P[2])))
                if l1 != l2:
                    ctx.fail({**feat, "check": "env-assoc"}, cdesc, "(a.env(b)).env(c) differs from a.env(b.env(c))")
                m1 = call(lambda: P[0].imp(P[1]).imp(P[2]))
                m2 = call(lambda: P[0].imp(P[1].imp(P[2])))
                if m1 != m2:
                    ctx.fail({**feat, "check": "imp-assoc"}, cdesc, "(a.imp(b)).imp(c) differs from a.imp(b.imp(c)) (value or raising)")
                ctx.count(("assoc", json.dumps(ops[:3])), nontriv, None)
        # ---- `in` follows the ordering (pairs of operands) ---------------------------------------------
        if valid and k >= 2:
            for (da, oa, ba_), (db, ob, bb) in itertools.permutations(list(zip(ops, objs, obnds))[:4], 2):
                if db[0] in ("N", "D", "S", "SM"):
                    continue        # containers: p-boxes (and Intervals for interval / number items)
                if db[0] == "I":
                    if da[0] not in ("I", "N"):
                        continue
                    inside = contained(ba_, bb)
                    extra(f"icontains {q(db[1])} {q(db[2])} {item_wire(da, oa)}", "in-interval", fi, [da, db], call_in(oa, ob), inside, not inside)
                    continue
                inside = contained(ba_, bb)
                lo_i = float(oa) if da[0] == "N" else float(oa.lo)
                hi_i = float(oa) if da[0] == "N" else float(oa.hi)
                outside = lo_i < bb[0][0] or hi_i > bb[1][-1]
                extra(f"contains {ql(bb[0])} {ql(bb[1])} {item_wire(da, oa)}", "in-pbox", fi, [da, db], call_in(oa, ob), True if inside else None, True if outside else None)
        if stream == "malformed" and k == 1 and ops[0][0] == "O" and ops[0][1] != "ndarray":
            # foreign item for `in` (no `.lo`): error kind only.  ndarray items are decided by numpy broadcasting: not modelled
            cont = pbx.stair([0.0] * N, [2.0] * N)
            extra(f"contains {ql([0.0] * N)} {ql([2.0] * N)} A", "in-foreign", fi, ops[0], call_in(objs[0], cont), None, None)
        # ---- operands are left as they were ------------------------------------------------------------
        snap_after = [snap(d, o) for d, o in zip(ops, objs)]
        if snap_after != snap_before:
            j = next(i for i, (a, b) in enumerate(zip(snap_before, snap_after)) if a != b)
            ctx.fail({**feat0, "call": "any", "check": "operand-changed"}, {**desc, "operand": ops[j]},
                     f"operand {j} ({ops[j][0]}) was modified by envelope / imposition / `in`")
        ctx.sample({"stream": stream, "operands": [o if o[0] not in ("P",) else ["P", o[1][:3], o[2][:3]] for o in ops]})

    # ---- address reuse: one operand at a time is created, aggregated with a fixed partner and dropped; the next one (other
    #      values, same type, very likely the same address) must not inherit anything from it ---------------------------------
    from pyuncertainnumber import pba as _pba
    wide = _pba.I(-1e6, 1e6)
    T = ctx.scale(24, 120)
    churn = {
        "I": [["I", t % 7 - 3, t % 7 - 3 + 1 + t % 3] for t in range(T)],
        "N": [["N", float(t % 5) - 2.5, "np"] for t in range(T)],
        "S": [["S", [[0, 1], [2, 4], [3, 7]], [round(.1 + .02 * (t % 9), 2), .3, round(.6 - .02 * (t % 9), 2)], ("lists", "ivec", "iobjs")[t % 3]]
              for t in range(T)],
        "D": [["D", "gaussian", [t % 4, 1 + (t % 3) / 2]] for t in range(T)],
        "P": [["P", [[t % 5, 60 + t], [t % 5 + 1, 140 - t]], [[t % 5 + 2, 200]]] for t in range(T)],
        "Pi": [["Pi", [[t % 3, 200]], [[t % 3 + 1, 50 + t], [t % 3 + 4, 150 - t]]] for t in range(T)],
        "L": [["L", "min_max", [t % 4, t % 4 + 2 + t % 3]] for t in range(T)],
    }
    for kind, seqd in churn.items():
        for t, d in enumerate(seqd):
            o = build(d)
            b = bounds_of(d, o)
            c = float(t % 3)
            wantE = ("ok", [min(v, c) for v in b[0]], [max(v, c) for v in b[1]])
            for which, got, want in (("envelope", call(envelope, o, c), wantE), ("envelope", call(envelope, c, o), wantE),
                                     ("imposition", call(imposition, o, wide), ("ok", b[0], b[1]))):
                ctx.count(("churn", kind, t, which), True, "address-reuse")
                if got != want:
                    ctx.fail({"k": 2, "kinds": kinds([d, ["N", c, "float"]]), "stream": "churn", "call": which, "check": "stale-operand"},
                             {"stream": "churn", "operands": [d, ["N", c, "float"]] if which == "envelope" else [d, ["I", -1e6, 1e6]],
                              "call": which, "impl": js(got), "expected": js(want), "iteration": t},
                             f"{which} of a freshly created {kind} operand (iteration {t} of a create / aggregate / drop loop) is not the "
                             f"pointwise bound of ITS values — state of an earlier operand is carried over")
                    break
            del o

    # ---- interactions: operands copied / deep-copied / pickled / rebuilt from their own read-outs before use, results fed back
    #      as operands, calls made inside a `with dependency(...)` block: all must reproduce the first result -------------------
    import copy, pickle
    from pyuncertainnumber.pba.dss import DempsterShafer
    TRANS = (("copy", copy.copy), ("deepcopy", copy.deepcopy), ("pickle", lambda x: pickle.loads(pickle.dumps(x))))
    special = [fi for fi, b in enumerate(built) if b[0] in ("dss", "seq", "extreme")]
    rest = [fi for fi, b in enumerate(built) if b[0] not in ("dss", "seq", "extreme", "malformed") and len(b[1]) >= 2]
    inter = special[:: max(1, len(special) // ctx.scale(40, 300))] + rest[:: max(1, len(rest) // ctx.scale(40, 400))]
    for fi in inter:
        stream, ops, objs, bnds, perms = built[fi]
        if any(b is None for b in bnds) or not ops:
            continue
        if objs is None:
            objs = [build(d) for d in ops]
        feat = {"k": len(ops), "kinds": kinds(ops), "stream": stream.split("-")[0], "call": "interaction",
                "has_dss": any(o[0] in ("S", "SM") for o in ops)}
        cdesc = {"stream": stream, "operands": ops}
        variants = []
        for tname, tf in TRANS:
            try:
                variants.append((tname, [tf(o) for o in objs]))
            except BaseException as e:  # noqa
                ctx.count(("interaction", tname, json.dumps(ops)), True, "interaction")
                ctx.fail({**feat, "check": "copied-operand", "transform": tname, "symptom": "raises:" + core.err_kind(e)},
                         {**cdesc, "transform": tname, "error": type(e).__name__},
                         f"an operand cannot be passed through {tname} ({type(e).__name__}) before being aggregated")
        if feat["has_dss"]:
            try:
                variants.append(("from_dsElements", [DempsterShafer.from_dsElements(o.structures) if d[0] in ("S", "SM") else o
                                                     for d, o in zip(ops, objs)]))
            except BaseException as e:  # noqa
                ctx.fail({**feat, "check": "copied-operand", "transform": "from_dsElements", "symptom": "raises:" + core.err_kind(e)},
                         {**cdesc, "transform": "from_dsElements", "error": type(e).__name__},
                         f"a DS operand cannot be rebuilt from its own structures ({type(e).__name__})")
        for tname, objs2 in variants:
            for which, fn in (("envelope", envelope), ("imposition", imposition)):
                r = call(fn, *objs2)
                ctx.count(("interaction", tname, which, json.dumps(ops)), True, "interaction")
                if r != first[(fi, which)]:
                    ctx.fail({**feat, "check": "copied-operand", "transform": tname,
                              "symptom": ("raises:" + r[1]) if r[0] == "err" else "differs"},
                             {**cdesc, "call": which, "transform": tname, "first": js(first[(fi, which)]), "impl": js(r)},
                             f"{which} of operands passed through {tname} differs from {which} of the originals")
        if len(ops) >= 2:
            for which, fn in (("envelope", envelope), ("imposition", imposition)):
                r = call(lambda: fn(fn(*objs[:-1]), objs[-1]))
                ctx.count(("interaction", "fed-back", which, json.dumps(ops)), True, "interaction")
                if r != first[(fi, which)]:
                    ctx.fail({**feat, "check": "fed-back", "symptom": ("raises:" + r[1]) if r[0] == "err" else "differs"},
                             {**cdesc, "call": which, "first": js(first[(fi, which)]), "impl": js(r)},
                             f"{which}({which}(all but the last operand), last operand) differs from {which} of all operands")
        dep = ("p", "o", "i", "f")[fi % 4]
        with _pba.dependency(dep):
            for which, fn in (("envelope", envelope), ("imposition", imposition)):
                r = call(fn, *objs)
                ctx.count(("interaction", "dependency", which, json.dumps(ops)), True, "interaction")
                if r != first[(fi, which)]:
                    ctx.fail({**feat, "check": "dependency-block", "symptom": ("raises:" + r[1]) if r[0] == "err" else "differs"},
                             {**cdesc, "call": which, "dependency": dep, "first": js(first[(fi, which)]), "impl": js(r)},
                             f"{which} inside `with dependency('{dep}')` differs from the call outside")

    # ---- global state (P ii): the public discretisation changed, used and restored.  Everything is built under the changed
    #      grid; results must have that many steps and be the step-wise join / meet there.  The families of the default grid
    #      are re-evaluated afterwards (next block) and must reproduce their first results --------------------------------------
    from pyuncertainnumber.pba.params import Params
    from pyuncertainnumber.pba.context import get_current_dependency
    for n_ in ((100, 300) if ctx.tier != "thorough" else (100, 300, 40, 400)):
        saved = (Params.steps, Params.p_values, N)
        try:
            Params.steps = n_
            Params.p_values = np.linspace(Params.p_lboundary, Params.p_hboundary, n_)
            N = n_
            gf = grid_families(ctx, ctx.scale(8, 60))
            greqs, gmeta = [], []
            for ops in gf:
                objs = [build(d) for d in ops]
                bnds = [bounds_of(d, o) for d, o in zip(ops, objs)]
                obnds = [ds_ref_bounds(d, o, b)[0] if d[0] in ("S", "SM") else b for d, o, b in zip(ops, objs, bnds)]
                re_, ri_ = compact_oracle(ctx, "steps", ops, objs, obnds, n_, envelope, imposition, convert, {"steps": n_})
                if re_ is not None:
                    toks = " ".join(wire_op(d, b) for d, b in zip(ops, bnds))
                    greqs += [f"envelope {n_} - {toks}", f"imposition {n_} - {toks}"]
                    gmeta += [(ops, "envelope", re_), (ops, "imposition", ri_)]
            for (ops, which, impl), rep in zip(gmeta, core.model_batch("C11", greqs)):
                mod = parse_res(rep)
                if same(impl, mod):
                    ctx.tie_ok()
                else:
                    ctx.tie_bad("steps", {"operands": ops, "call": which, "steps": n_}, js(impl), js(mod))
        finally:
            Params.steps, Params.p_values, N = saved

    # ---- global state (P i): floating-point errors raised and warnings escalated — the same value, or an exception; never
    #      another value; the ambient state is left as it was ----------------------------------------------------------------
    for fi in inter:
        stream, ops, objs, bnds, perms = built[fi]
        if any(b is None for b in bnds) or not ops:
            continue
        if objs is None:
            objs = [build(d) for d in ops]
        dep0 = get_current_dependency()
        for which, fn in (("envelope", envelope), ("imposition", imposition)):
            r = call_strict(fn, *objs)
            ctx.count(("strict", which, json.dumps(ops)), True, "errstate-raise")
            if r != first[(fi, which)] and r[0] != "err":
                ctx.fail({"k": len(ops), "kinds": kinds(ops), "stream": stream.split("-")[0], "call": which, "check": "strict-fp"},
                         {"stream": stream, "operands": ops, "call": which, "first": js(first[(fi, which)]), "impl": js(r)},
                         f"{which} under np.errstate(all='raise') and warnings-as-errors returns a different value than under the defaults")
        if (Params.steps, len(Params.p_values)) != (200, 200) or get_current_dependency() != dep0:
            ctx.fail({"k": len(ops), "kinds": kinds(ops), "stream": stream.split("-")[0], "call": "any", "check": "ambient-state"},
                     {"stream": stream, "operands": ops}, "Params or the dependency context changed during envelope / imposition")

    # ---- caller-visible aliasing (Q): operands built from the caller's float64 buffers of exactly N steps; for two or more
    #      operands the result shares no memory with an operand or a buffer, and keeps its value when those are overwritten ----
    for t in range(ctx.scale(12, 120)):
        k = ctx.rng.choice([2, 2, 3])
        ops = [o for o in fam_core(ctx.rng, k, quarter=False)[0]]
        ops = [o if o[0] == "P" else box_around(ctx.rng, [float(lo_of(o))] * N, [float(lo_of(o)) + 1] * N) for o in ops]
        bufs = [(np.array(unrle(o[1]), dtype=float), np.array(unrle(o[2]), dtype=float)) for o in ops]
        if t % 2 == 0:      # one operand that already IS the join, one that already IS the meet (when it exists): returning it is aliasing
            jl, jr = np.min([b[0] for b in bufs], axis=0), np.max([b[1] for b in bufs], axis=0)
            ml, mr = np.max([b[0] for b in bufs], axis=0), np.min([b[1] for b in bufs], axis=0)
            bufs.insert(t % 3 % (len(bufs) + 1), (jl.copy(), jr.copy()))
            if np.all(ml <= mr):
                bufs.append((ml.copy(), mr.copy()))
            ops = [["P", rle(bl), rle(br)] for bl, br in bufs]
            k = len(ops)
        objs = [pbx.Staircase()(left=bl, right=br) for bl, br in bufs]
        bnds = [([float(v) for v in bl], [float(v) for v in br]) for bl, br in bufs]
        for which, fn in (("envelope", envelope), ("imposition", imposition)):
            robj, r0 = call_obj(fn, *objs)
            ctx.count(("aliasing", which, t), True, "aliasing")
            if robj is None:
                continue
            feat = {"k": k, "kinds": kinds(ops), "stream": "aliasing", "call": which}
            cdesc = {"stream": "aliasing", "operands": ops, "call": which}
            shared = any(robj is o or np.shares_memory(robj.left, a) or np.shares_memory(robj.right, a)
                         for o, (bl, br) in zip(objs, bufs) for a in (o.left, o.right, bl, br))
            if shared:
                ctx.fail({**feat, "check": "shares-memory"}, cdesc, f"the result of {which} shares memory with an operand or the caller's buffer")
            want = (("ok", [min(c) for c in zip(*[b[0] for b in bnds])], [max(c) for c in zip(*[b[1] for b in bnds])]) if which == "envelope"
                    else ("ok", [max(c) for c in zip(*[b[0] for b in bnds])], [min(c) for c in zip(*[b[1] for b in bnds])]))
            if r0 != want and not (which == "imposition"):
                ctx.fail({**feat, "check": "step-wise"}, {**cdesc, "impl": js(r0)}, "envelope of operands built from caller buffers is not the step-wise join")
            for (bl, br), o in zip(bufs, objs):
                bl += 5.0
                br[:] = br + 7.0
                o.left[:] = o.left - 3.0
                o.right[:] = o.right + 3.0
            r1 = canon(robj)
            if r1 != r0:
                ctx.fail({**feat, "check": "result-follows-operand"}, {**cdesc, "when_produced": js(r0), "re_read": js(r1)},
                         f"the result of {which} changed when the operands / the caller's buffers were overwritten afterwards")
            for (bl, br), o, b in zip(bufs, objs, bnds):      # put the operands back for the second call
                bl[:] = b[0]; br[:] = b[1]; o.left[:] = b[0]; o.right[:] = b[1]

    # ---- state carried between calls: re-read every kept result, re-evaluate a sample after all the unrelated calls --------
    recheck_kept()
    again = [fi for fi, b in enumerate(built) if b[0] in ("seq", "extreme", "near-equal", "dss")]
    others = [fi for fi, b in enumerate(built) if b[0] not in ("seq", "extreme", "near-equal", "dss", "malformed")]
    again += others[:: max(1, len(others) // ctx.scale(60, 600))]
    for rnd, fresh_objs in ((0, False), (1, True)):
        for fi in (again if rnd == 0 else list(reversed(again))):
            stream, ops, objs, bnds, perms = built[fi]
            if objs is None or fresh_objs:
                objs = [build(d) for d in ops]
            for which, fn in (("envelope", envelope), ("imposition", imposition)):
                r = call(fn, *objs)
                ctx.count(("again", rnd, which, json.dumps(ops)), False, "re-evaluated")
                if r != first[(fi, which)]:
                    ctx.fail({"k": len(ops), "kinds": kinds(ops), "stream": stream.split("-")[0], "call": which, "check": "not-reproducible"},
                             {"stream": stream, "operands": ops, "call": which, "first": js(first[(fi, which)]), "again": js(r),
                              "fresh_operands": fresh_objs},
                             f"{which} of the same operands gives a different result when evaluated again after unrelated calls"
                             + (" (operands rebuilt)" if fresh_objs else " (same operand objects)"))

    replies2 = core.model_batch("C11", extra_reqs)
    for rq, (what, fi, d, impl, must_true, must_false), rep in zip(extra_reqs, extra_meta, replies2):
        stream, ops = built[fi][0], built[fi][1]
        mod = parse_res(rep)
        ctx.count((what, rq[:4000]), True, None)
        ctx.bump("in" if what.startswith("in") or what.startswith("imposition-in") else what)
        if same(impl, mod):
            ctx.tie_ok()
        else:
            ctx.tie_bad(stream, {"call": what, "operands": ops, "item": d}, js(impl), js(mod))
        if not what.startswith("in") and not what.startswith("imposition-in"):
            continue
        feat = {"k": len(ops), "kinds": kinds(ops), "stream": stream.split("-")[0], "call": "in", "check": what}
        case = {"stream": stream, "operands": ops, "item": d, "impl": js(impl)}
        if what == "in-foreign":
            continue
        if impl[0] != "ok":
            ctx.fail({**feat, "symptom": "raises:" + impl[1]}, case, f"`in` raised {impl[1]} ({what})")
        elif must_true and impl[1] is not True:
            ctx.fail({**feat, "symptom": "false-for-contained"}, case,
                     f"`in` is False although the item is contained ({what})")
        elif must_false and impl[1] is not False:
            ctx.fail({**feat, "symptom": "true-for-outside"}, case,
                     f"`in` is True although the item's range leaves the container's range ({what})")


def _gen():
    from .translator import envimp
    r = envimp.generate(core.REPO, core.LEAN / "Pun/Gen/EnvImpGen.lean")
    t = lambda x: f"{x[0]}({x[1][0]}.{x[1][1]},{x[2][0]}.{x[2][1]})"
    return (f"ok: env left={t(r['env']['left'])} right={t(r['env']['right'])}; imp raises {r['imp']['exc']} if {r['imp']['quant']} "
            f"{t(r['imp']['guardL'])} {r['imp']['cmp']} {t(r['imp']['guardR'])}, left={t(r['imp']['left'])} right={t(r['imp']['right'])}; "
            f"envelope {r['envelope']}; imposition {r['imposition']}; hull lo={t(r['hull']['left'])} hi={t(r['hull']['right'])}")


def call_strict(fn, *a):
    """the call with floating-point errors raised and every warning escalated to an error"""
    try:
        with np.errstate(all="raise"), warnings.catch_warnings():
            warnings.simplefilter("error")
            return canon(fn(*a))
    except BaseException as e:  # noqa
        return ("err", core.err_kind(e))


def compact_oracle(ctx, stream, ops, objs, bnds, n, envelope, imposition, convert, extra_feat):
    """the property at a grid of n steps, judged on the implementation's results only (used under a changed discretisation
    and in the aliasing stream): number of steps, envelope = step-wise (min left, max right), imposition raises iff some step
    has max left > min right else = step-wise (max left, min right), listing orders agree, operands `in` the envelope,
    imposition `in` every operand.  Returns the canonical (envelope, imposition) results."""
    k = len(ops)
    feat = {"k": k, "kinds": kinds(ops), "stream": stream, **extra_feat}
    desc = {"stream": stream, "operands": ops, **extra_feat}
    for d, o, b in zip(ops, objs, bnds):
        if len(b[0]) != n or len(b[1]) != n:
            ctx.fail({**feat, "call": "convert", "check": "steps"}, {**desc, "operand": d, "len": [len(b[0]), len(b[1])]},
                     f"a converted {d[0]} operand has {len(b[0])} steps, the configured discretisation has {n}")
            return None, None
    Ls, Rs = [b[0] for b in bnds], [b[1] for b in bnds]
    all_ivl = all(o[0] == "I" for o in ops)
    orders = [list(p_) for p_ in itertools.permutations(range(k))] if k <= 3 else [list(range(k)), list(range(k - 1, -1, -1))]
    out = []
    for which, fn in (("envelope", envelope), ("imposition", imposition)):
        res = [call(fn, *[objs[i] for i in od]) for od in orders]
        r0 = res[0]
        out.append(r0)
        for od, r in zip(orders, res):
            ctx.count((stream, which, json.dumps(ops), tuple(od), json.dumps(extra_feat)), k >= 2, stream)
            if r != r0:
                ctx.fail({**feat, "call": which, "check": "order"}, {**desc, "call": which, "order": od, "impl": js(r0), "impl_order": js(r)},
                         f"{which}: listing order {od} gives a different result from the given order")
                break
        case = {**desc, "call": which, "impl": js(r0)}
        if which == "envelope":
            wL, wR = [min(c) for c in zip(*Ls)], [max(c) for c in zip(*Rs)]
            if all_ivl:
                if r0 != ("ivl", wL[0], wR[0]):
                    ctx.fail({**feat, "call": which, "check": "hull"}, case, f"envelope of intervals is not their hull [{wL[0]}, {wR[0]}]")
                continue
            want = ("ok", wL, wR)
        else:
            bad = next((i for i, (c, e) in enumerate(zip(zip(*Ls), zip(*Rs))) if max(c) > min(e)), None)
            if bad is not None:
                if r0 != ("err", "Other"):
                    ctx.fail({**feat, "call": which, "check": "must-raise"}, {**case, "step": bad},
                             f"imposition did not raise its exception although the operands have no common value at step {bad}")
                continue
            want = ("ok", [max(c) for c in zip(*Ls)], [min(c) for c in zip(*Rs)])
        if r0 != want:
            if r0[0] != "ok":
                what = f"{which} raised {r0[1]}" if r0[0] == "err" else f"{which} returned {r0[0]}"
                ctx.fail({**feat, "call": which, "check": "raises", "symptom": "raises:" + str(r0[1])}, case, what)
            elif len(r0[1]) != n or len(r0[2]) != n:
                ctx.fail({**feat, "call": which, "check": "steps"}, {**case, "len": [len(r0[1]), len(r0[2])]},
                         f"{which} has {len(r0[1])} steps, the operands and the configured discretisation have {n}")
            else:
                i = first_diff(r0[1], want[1])
                side = "left" if i is not None else "right"
                st = i if i is not None else first_diff(r0[2], want[2])
                got, exp = (r0[1] if i is not None else r0[2])[st], (want[1] if i is not None else want[2])[st]
                ctx.fail({**feat, "call": which, "check": "step-wise", "side": side}, {**case, "step": st, "got": got, "expected": exp},
                         f"{which} is not the step-wise {'join' if which == 'envelope' else 'meet'} at a grid of {n} steps: {side} bound at "
                         f"step {st} is {got}, the operands give {exp}")
            continue
        try:
            R = fn(*objs)
            for d, o in zip(ops, objs):
                ok = (o in R) if which == "envelope" else (R in convert(o))
                if not ok:
                    ctx.fail({**feat, "call": "in", "check": "in-" + which, "symptom": "false-for-contained"}, {**case, "item": d},
                             f"`in` is False for {'an operand and its envelope' if which == 'envelope' else 'the imposition and an operand'}")
                    break
        except BaseException as e:  # noqa
            ctx.fail({**feat, "call": "in", "check": "in-" + which, "symptom": "raises:" + core.err_kind(e)}, case, "`in` raised " + type(e).__name__)
    return out[0], out[1]


def grid_families(ctx, n_fams):
    """families for the CURRENT value of the module-level step count `N` (generators read it)"""
    rng = ctx.rng
    fams = []
    for j in (0, N // 2, N - 1):
        a, b = one_step_disjoint(rng, j)
        fams.append([a, b])
    fams.append([["I", 2.5, 8.0], ["S", [[1, 5], [2, 6], [3, 7], [4, 9]], [.25, .25, .25, .25]], ["L", "uniform", [[0, 3], [7, 10]]]])
    fams.append([["S", [[1, 5], [2, 3]], [.8, .2]], ["I", 2.5, 4], ["N", 3, "int"]])
    fams.append([["D", "gaussian", [4, 2]], ["L", "min_max", [2, 9]], ["I", 3, 5]])
    fams.append([["I", 0, 2], ["I", 1, 3], ["I", 2, 5]])
    fams.append([["L", "normal", [[0, 1], [1, 2]]], ["N", 0.5, "np"]])
    for _ in range(n_fams):
        k = rng.choice([2, 2, 3, 4])
        fams.append(fam_core(rng, k, quarter=rng.random() < .4)[0])
    for _ in range(n_fams // 2):
        fams.append([lib_operand(rng) for _ in range(rng.choice([2, 3]))])
    return fams


def replay(obj):
    """re-execute the stored family on the real code and on the model, print both"""
    core.stub_moments()
    from pyuncertainnumber.pba.aggregation import envelope, imposition
    case = obj.get("case", obj)
    ops = case.get("operands")
    print(json.dumps({k: v for k, v in obj.items() if k != "case"}, indent=1, default=str))
    if ops is None:
        print(json.dumps(case, indent=1, default=str))
        return 0
    objs = [build(d) for d in ops]
    bnds = [bounds_of(d, o) for d, o in zip(ops, objs)]
    toks = " ".join(wire_op(d, b) for d, b in zip(ops, bnds))
    order = case.get("order")
    ptok = ".".join(map(str, order)) if order else "-"
    reps = core.model_batch("C11", [f"envelope {N} {ptok} {toks}".rstrip(), f"imposition {N} {ptok} {toks}".rstrip()])
    print("operands:", json.dumps(ops))
    for name, fn, rep in (("envelope", envelope, reps[0]), ("imposition", imposition, reps[1])):
        print(name, "impl :", json.dumps(js(call(fn, *objs))))
        if order:
            print(name, "impl (order %s):" % order, json.dumps(js(call(fn, *[objs[i] for i in order]))))
        print(name, "model:", " | ".join(json.dumps(js(parse_res(x))) if x != "=" else "=" for x in rep.split(" | ")))
    item = case.get("item")
    if item:
        from pyuncertainnumber.pba.operation import convert
        if isinstance(item[0], list):       # [item, container] among the operands
            it, cont = build(item[0]), build(item[1])
            cont = cont if item[1][0] == "I" else convert(cont)
            print("item in container impl:", call_in(it, cont))
        else:                               # an operand against the envelope of the family
            e = call(envelope, *objs)
            print("operand", json.dumps(item), "in envelope impl:", call_in(build(item), envelope(*objs)) if e[0] != "err" else e)
    return 0
