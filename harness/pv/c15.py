"""C15 — UncertainNumber arithmetic equals construct arithmetic; units obey unit algebra.

proof  : Pun.Props.C15 (dispatch table of the class = specified table, unit algebra laws, mirror images)
tie    : the real operators of UncertainNumber vs `Pun.UN.pyBin/pyNeg` (model answers WHICH construct-level
         call is made on which converted/raw constructs and WHICH dimension results; the harness evaluates
         that call with the real construct library and compares bounds bit-for-bit, dimensions through
         pint's dimensionality) ; p-box∘number specification `Pun.UN.PBn` vs the real reflected operators
oracle : independent of the model: exact-Fraction dimension calculus of the statement; exact quantile
         formulas for U±c, c−U, U·c, U/c, c/U, −U; the same operator applied directly to the converted
         constructs for U∘V, U**c, c**U
"""
from __future__ import annotations
import itertools, operator, math, warnings
from fractions import Fraction as F
import numpy as np
from . import core
from .core import q, ql, unq, unql, close

OPS = {"add": operator.add, "sub": operator.sub, "mul": operator.mul, "div": operator.truediv, "pow": operator.pow}
SYM = {"add": "+", "sub": "-", "mul": "*", "div": "/", "pow": "**"}

# unit strings of the small unit system and their exponent vectors (m, s, kg)
UNITS = {None: (0, 0, 0), "m": (1, 0, 0), "s": (0, 1, 0), "kg": (0, 0, 1), "m/s": (1, -1, 0),
         "m**2": (2, 0, 0), "kg*m/s**2": (1, -2, 1), "1/s": (0, -1, 0), "dimensionless": (0, 0, 0)}
BASE_UNITS = [None, "m", "s", "kg"]
ALL_UNITS = list(UNITS)

# operand parameter sets per essence: (tag, params, sign class)
PARAMS = {
    "I": [("pos", [1, 2]), ("str", [-1, 2]), ("neg", [-3, -1]), ("pos", [0.5, 4.0]), ("pos", [2, 2])],
    "D": [("pos", ["gaussian", (10, 2)]), ("str", ["gaussian", (0, 1)]), ("pos", ["uniform", (1, 3)]),
          ("neg", ["gaussian", (-10, 1)])],
    "P": [("pos", ["uniform", ([1, 2], [3, 4])]), ("str", ["gaussian", ([-1, 1], [1, 2])]),
          ("neg", ["uniform", ([-4, -3], [-2, -1])]), ("pos", ["gaussian", ([8, 12], [0.5, 1.5])])],
    "S": [("pos", ([[1, 5], [3, 6]], [0.5, 0.5])), ("str", ([[-1, 2], [0, 3]], [0.25, 0.75])),
          ("neg", ([[-5, -1], [-6, -3]], [0.5, 0.5])), ("pos", ([[2, 3], [2.5, 4]], [0.125, 0.875]))],
}


def _mods():
    from pyuncertainnumber import UncertainNumber as UN
    from pyuncertainnumber.pba.pbox_abc import convert_pbox, Pbox
    from pyuncertainnumber.pba.intervals.number import Interval
    import pint
    return UN, convert_pbox, Pbox, Interval, pint


def build(d):
    """d = ("U", ess, params, unit) | ("N", x) | ("C",) | ("X",)"""
    UN, convert_pbox, Pbox, Interval, pint = _mods()
    k = d[0]
    if k == "U":
        _, ess, par, unit = d
        if ess == "I":
            return UN(essence="interval", intervals=list(par), unit=unit)
        if ess == "D":
            return UN(essence="distribution", distribution_parameters=[par[0], tuple(par[1])], unit=unit)
        if ess == "P":
            return UN(essence="pbox", pbox_parameters=[par[0], tuple(list(x) for x in par[1])], unit=unit)
        if ess == "S":
            return UN(essence="dempster_shafer", intervals=[list(x) for x in par[0]], masses=list(par[1]), unit=unit)
    if k == "N":
        return d[1]
    if k == "C":
        return Interval(1, 2)
    if k == "X":
        return None
    raise ValueError(d)


def ekind(e):
    UN, convert_pbox, Pbox, Interval, pint = _mods()
    if isinstance(e, pint.DimensionalityError):
        return "Dimensionality"
    if isinstance(e, ZeroDivisionError):
        return "ZeroDivision"
    if isinstance(e, UnboundLocalError):
        return "Unbound"
    if isinstance(e, TypeError):
        return "Type"
    if isinstance(e, ValueError):
        return "Value"
    if isinstance(e, NotImplementedError):
        return "NotImplemented"
    if isinstance(e, AttributeError):
        return "Attribute"
    return "Other:" + type(e).__name__


def bounds(c):
    """canonical p-box view of a construct: (left list, right list) of floats"""
    UN, convert_pbox, Pbox, Interval, pint = _mods()
    p = convert_pbox(c)
    return [float(x) for x in np.asarray(p.left).ravel()], [float(x) for x in np.asarray(p.right).ravel()]


def dim_of(qty):
    d = dict(qty.dimensionality)
    extra = set(d) - {"[length]", "[time]", "[mass]"}
    if extra:
        return ("other", sorted(extra))
    return tuple(float(d.get(k, 0)) for k in ("[length]", "[time]", "[mass]"))


def canon(r):
    UN, convert_pbox, Pbox, Interval, pint = _mods()
    if isinstance(r, UN):
        l, h = bounds(r.construct)
        return ("ok", "un", l, h, dim_of(r.physical_quantity))
    try:
        l, h = bounds(r)
        return ("ok", "raw:" + type(r).__name__, l, h, None)
    except Exception:
        return ("ok", "raw:" + type(r).__name__, [], [], None)


def run_impl(op, L, R):
    try:
        with warnings.catch_warnings():
            warnings.simplefilter("ignore")
            if op == "neg":
                return canon(-L)
            return canon(OPS[op](L, R))
    except BaseException as e:  # noqa
        return ("err", ekind(e))


# ---- the model's answer: a term over the constructs + a dimension ------------------------------
def wire_opd(d, obj):
    if d[0] == "U":
        dm = UNITS[d[3]]
        return f"U {d[1]} {q(float(obj.physical_quantity.magnitude))} {dm[0]} {dm[1]} {dm[2]}"
    if d[0] == "N":
        return f"N {q(d[1])}"
    return d[0]


class _P:
    def __init__(self, s):
        self.s, self.i = s, 0

    def term(self):
        j = self.i
        while self.i < len(self.s) and self.s[self.i] not in "(),":
            self.i += 1
        head = self.s[j:self.i]
        if self.i < len(self.s) and self.s[self.i] == "(":
            self.i += 1
            args = [self.term()]
            while self.s[self.i] == ",":
                self.i += 1
                args.append(self.term())
            assert self.s[self.i] == ")"
            self.i += 1
            return (head, args)
        return (head, [])


def eval_term(t, A, B, cL, cR):
    """evaluate the model's term with the REAL construct library. cL/cR: the plain-number python objects"""
    UN, convert_pbox, Pbox, Interval, pint = _mods()
    head, a = t
    if head == "A":
        return A
    if head == "B":
        return B
    if head == "conv":
        return convert_pbox(eval_term(a[0], A, B, cL, cR))
    if head == "neg":
        return -eval_term(a[0], A, B, cL, cR)
    op = OPS[a[0][0]]
    if head == "cc":
        return op(eval_term(a[1], A, B, cL, cR), eval_term(a[2], A, B, cL, cR))
    if head == "cn":
        return op(eval_term(a[1], A, B, cL, cR), cR if cR is not None else cL)
    if head == "nc":
        return op(cL if cL is not None else cR, eval_term(a[2], A, B, cL, cR))
    raise ValueError(head)


def model_expect(rep, Lobj, Robj, dl, dr):
    """('ok', left, right, dim) | ('err', kind) | ('nomodel',) | ('bad', rep)"""
    t = rep.split()
    if t[0] == "nomodel":
        return ("nomodel",)
    if t[0] == "err":
        return ("err", t[1])
    if t[0] != "ok":
        return ("bad", rep)
    term = _P(t[1]).term()
    A = Lobj.construct if dl[0] == "U" else None
    B = Robj.construct if (dr is not None and dr[0] == "U") else None
    cL = dl[1] if dl[0] == "N" else None
    cR = dr[1] if (dr is not None and dr[0] == "N") else None
    try:
        with warnings.catch_warnings():
            warnings.simplefilter("ignore")
            c = eval_term(term, A, B, cL, cR)
            l, h = bounds(c)
    except BaseException as e:  # noqa
        return ("err", ekind(e))
    return ("ok", l, h, tuple(unq(x) for x in t[2:5]), t[1])


def same_bounds(l1, h1, l2, h2, exact=True, depth=3):
    if len(l1) != len(l2) or len(h1) != len(h2):
        return False
    for a, b in zip(list(l1) + list(h1), list(l2) + list(h2)):
        if isinstance(a, float) and (math.isnan(a) or math.isinf(a)):
            if isinstance(b, float) and (a == b or (math.isnan(a) and math.isnan(b))):
                continue
            return False
        if isinstance(b, float) and (math.isnan(b) or math.isinf(b)):
            return False
        if exact:
            if F(a) != F(b):
                return False
        elif not close(a, F(b), depth):
            return False
    return True


def same_dim(d_impl, d_model):
    if d_impl is None or d_impl[0] == "other":
        return False
    return all(close(a, F(b), 2) for a, b in zip(d_impl, d_model))


def agrees(impl, exp):
    if exp[0] in ("nomodel", "bad"):
        return False
    if impl[0] == "err" or exp[0] == "err":
        return impl[0] == exp[0] and impl[1] == exp[1]
    if impl[1] != "un":
        return False
    return same_bounds(impl[2], impl[3], exp[1], exp[2], exact=True) and same_dim(impl[4], exp[3])


# ---- semantic oracle ---------------------------------------------------------------------------
def spec_dim(op, dl, dr, expo):
    """dimension demanded by the statement; 'dimerr' when it must be an error; None = outside the statement"""
    a = tuple(F(x) for x in UNITS[dl[3]]) if dl[0] == "U" else None
    b = tuple(F(x) for x in UNITS[dr[3]]) if (dr is not None and dr[0] == "U") else None
    zero = (F(0),) * 3
    if op == "neg":
        return a
    if op in ("add", "sub"):
        if a is not None and b is not None:
            return a if a == b else "dimerr"
        return a if a is not None else b
    if op == "mul":
        return tuple(x + y for x, y in zip(a or zero, b or zero))
    if op == "div":
        return tuple(x - y for x, y in zip(a or zero, b or zero))
    if op == "pow":
        if b is not None and b != zero:
            return "dimerr"                     # an exponent carrying a dimension
        if a is None:
            return zero                         # c ** U, U dimensionless
        if dr[0] == "N":
            return tuple(x * F(dr[1]) for x in a)
        # U ** V with V an uncertain (non-degenerate) exponent: only a dimensionless base has a meaning
        return zero if a == zero else None
    return None


def exact_num(op, side, l, h, c):
    """exact quantile lists of U∘c (side 'r': number on the right) / c∘U (side 'l'); None = not covered"""
    L = [F(x) for x in l]
    H = [F(x) for x in h]
    c = F(c)
    rev = lambda xs: list(reversed(xs))
    if op == "add":
        return [x + c for x in L], [x + c for x in H]
    if op == "sub":
        if side == "r":
            return [x - c for x in L], [x - c for x in H]
        return rev([c - x for x in H]), rev([c - x for x in L])
    if op == "mul":
        if c >= 0:
            return [x * c for x in L], [x * c for x in H]
        return rev([x * c for x in H]), rev([x * c for x in L])
    if op == "div":
        if side == "r":
            if c == 0:
                return None
            if c > 0:
                return [x / c for x in L], [x / c for x in H]
            return rev([x / c for x in H]), rev([x / c for x in L])
        if not (all(x > 0 for x in L) or all(x < 0 for x in H)):
            return None
        if c >= 0:
            return rev([c / x for x in H]), rev([c / x for x in L])
        return [c / x for x in L], [c / x for x in H]
    return None


def oracle(ctx, case, op, dl, dr, Lobj, Robj, impl):
    """the property on the real result. returns nothing; reports through ctx.fail"""
    UN, convert_pbox, Pbox, Interval, pint = _mods()
    side = "r" if dl[0] == "U" else "l"
    if dr is not None and dr[0] in ("C", "X"):
        return
    u = dl if dl[0] == "U" else dr
    feat = {"op": op, "form": ("neg" if op == "neg" else ("UU" if (dl[0] == "U" and dr[0] == "U") else ("Uc" if side == "r" else "cU"))),
            "less": dl[1] if dl[0] == "U" else "N", "ress": (dr[1] if dr[0] == "U" else "N") if dr is not None else "-",
            "symptom": ("raises:" + impl[1]) if impl[0] == "err" else ("value" if impl[1] == "un" else "not-an-UncertainNumber"),
            "call": "UncertainNumber operator"}
    expo = None
    want_dim = spec_dim(op, dl, dr, expo)
    # -- construct expected --
    want = None      # ('ok', l, h, exact?) | ('err', kind)
    try:
        with warnings.catch_warnings():
            warnings.simplefilter("ignore")
            if op == "neg":
                l, h = bounds(Lobj.construct)
                want = ("ok", [-F(x) for x in reversed(h)], [-F(x) for x in reversed(l)], False)
            elif feat["form"] == "UU":
                r = OPS[op](convert_pbox(Lobj.construct), convert_pbox(Robj.construct))
                want = ("ok",) + bounds(r) + (True,)
            else:
                U = Lobj if side == "r" else Robj
                c = dr[1] if side == "r" else dl[1]
                l, h = bounds(U.construct)
                ex = exact_num(op, side, l, h, c) if op != "pow" else None
                if ex is not None:
                    want = ("ok", ex[0], ex[1], False)
                elif op == "div":
                    return          # division by zero / by a zero-straddling operand: not judged
                else:
                    base = U.construct if isinstance(U.construct, Interval) and side == "r" else convert_pbox(U.construct)
                    r = OPS[op](base, c) if side == "r" else OPS[op](c, base)
                    want = ("ok",) + bounds(r) + (True,)
    except BaseException as e:  # noqa
        want = ("err", ekind(e))
    cj = dict(case)
    # -- compare --
    if want[0] == "err":
        # the construct library itself rejects the operation: the UncertainNumber operator must reject it too
        if impl[0] != "err":
            ctx.fail(dict(feat, symptom="value-where-construct-raises"), cj, f"{describe(op, dl, dr)}: construct-level operation raises {want[1]} but the UncertainNumber operator returned a value")
        return
    if want_dim == "dimerr":
        if not (impl[0] == "err" and impl[1] == "Dimensionality"):
            ctx.fail(dict(feat, check="unit"), cj, f"{describe(op, dl, dr)}: incompatible dimensions must be an error, got {short(impl)}")
        return
    if impl[0] == "err":
        ctx.fail(feat, cj, f"{describe(op, dl, dr)}: raises {impl[1]}; the same operation on the constructs succeeds")
        return
    if impl[1] != "un":
        ctx.fail(feat, cj, f"{describe(op, dl, dr)}: result is a bare {impl[1]} and not an UncertainNumber")
        return
    if not same_bounds(impl[2], impl[3], want[1], want[2], exact=want[3], depth=3):
        ctx.fail(dict(feat, check="construct"), cj,
                 f"{describe(op, dl, dr)}: construct of the result [{impl[2][0]:.6g}..{impl[2][-1]:.6g}],[{impl[3][0]:.6g}..{impl[3][-1]:.6g}] differs from the operation on the constructs "
                 f"[{float(want[1][0]):.6g}..{float(want[1][-1]):.6g}],[{float(want[2][0]):.6g}..{float(want[2][-1]):.6g}]")
        return
    if want_dim is not None and not same_dim(impl[4], want_dim):
        ctx.fail(dict(feat, check="unit"), cj, f"{describe(op, dl, dr)}: dimension (m,s,kg) of the result is {impl[4]}, unit algebra gives {tuple(float(x) for x in want_dim)}")


def describe(op, dl, dr):
    def s(d):
        if d is None:
            return ""
        if d[0] == "U":
            return f"UN[{d[1]} {d[2]} unit={d[3]}]"
        if d[0] == "N":
            return repr(d[1])
        return {"C": "Interval(1,2)", "X": "None"}[d[0]]
    if op == "neg":
        return "-" + s(dl)
    return f"{s(dl)} {SYM[op]} {s(dr)}"


def short(impl):
    if impl[0] == "err":
        return "raises " + impl[1]
    return f"{impl[1]} [{impl[2][0]:.4g}..],[..{impl[3][-1]:.4g}] dim={impl[4]}"


# ---- generators -----------------------------------------------------------------------------------
def pick(rng, ess, signs=("pos", "str", "neg")):
    c = [p for p in PARAMS[ess] if p[0] in signs]
    return rng.choice(c)


def gen_cases(ctx):
    rng = ctx.rng
    cases = []
    E = "IDPS"
    # 1. grid U∘V: every essence pair x operator x base-unit pair
    for le, re_, op in itertools.product(E, E, OPS):
        for lu, ru in itertools.product(BASE_UNITS, BASE_UNITS):
            if op in ("div", "pow"):
                rs = ("pos",) if op == "pow" else ("pos", "neg")
                ls = ("pos",) if op == "pow" else ("pos", "str", "neg")
            else:
                rs = ls = ("pos", "str", "neg")
            lp, rp = pick(rng, le, ls), pick(rng, re_, rs)
            if op == "pow" and rng.random() < 0.7:
                ru = None if rng.random() < 0.8 else ru
            cases.append(("grid-UU", op, ("U", le, lp[1], lu), ("U", re_, rp[1], ru)))
    # 2. grid U∘c and c∘U: essence x unit x operator x side x numbers
    nums = [2, -3, 0.5, 2.0, 1, -1.5, 0, 3]
    for e, u, op, side in itertools.product(E, BASE_UNITS + ["m/s"], OPS, "rl"):
        for c in (rng.sample(nums, 3) if ctx.tier == "quick" else nums):
            if op == "pow":
                if side == "r":
                    c = rng.choice([2, 3, 0.5, -1, 2.0, 0, 1])
                    p = pick(rng, e, ("pos",) if c not in (2, 0, 1) else ("pos", "str", "neg"))
                else:
                    c = rng.choice([2, 3.0, 1, 2.5])
                    p = pick(rng, e, ("pos", "neg", "str"))
                    if rng.random() < 0.5:
                        u = None
            elif op == "div" and side == "l":
                p = pick(rng, e, ("pos", "neg") if e != "I" else ("pos", "neg", "str"))
            elif op == "div" and side == "r" and c == 0:
                c = 4
                p = pick(rng, e)
            else:
                p = pick(rng, e)
            U = ("U", e, p[1], u)
            cases.append(("grid-Uc" if side == "r" else "grid-cU", op, U, ("N", c)) if side == "r"
                         else ("grid-cU", op, ("N", c), U))
    # 3. unary minus
    for e, u in itertools.product(E, ALL_UNITS):
        for p in PARAMS[e]:
            cases.append(("grid-neg", "neg", ("U", e, p[1], u), None))
    # 4. random: derived units, random parameters
    def rand_un(signs=("pos", "str", "neg"), units=ALL_UNITS):
        e = rng.choice(E)
        s = rng.choice(signs)
        a = round(rng.uniform(0.5, 5), rng.choice([0, 1, 3]))
        w = round(rng.uniform(0.25, 3), rng.choice([0, 1, 3])) or 1.0
        a = a or 1.0
        lo = {"pos": a, "str": -a, "neg": -a - 2 * w - 1}[s]
        if e == "I":
            par = [lo, lo + w if s != "str" else w]
        elif e == "D":
            if s == "str":
                par = ["gaussian", (0.25 * a, w)]
            else:
                par = ["uniform", (lo, lo + w)]
        elif e == "P":
            par = ["uniform", ([lo, lo + w / 4], [lo + w / 2, lo + w])] if s != "str" else ["uniform", ([-a, -a / 2], [w / 2, w])]
        else:
            if s == "str":
                par = ([[-a, w], [-a / 2, 2 * w]], [0.25, 0.75])
            else:
                par = ([[lo, lo + w / 2], [lo + w / 4, lo + w]], [0.5, 0.5])
        return ("U", e, par, rng.choice(units))
    for _ in range(ctx.scale(500, 12000)):
        op = rng.choice(list(OPS) + ["add", "sub"])
        form = rng.random()
        if form < 0.45:
            L = rand_un(("pos",) if op == "pow" else ("pos", "str", "neg"))
            R = rand_un(("pos",) if op == "pow" else (("pos", "neg") if op == "div" else ("pos", "str", "neg")),
                        units=[None, None, "dimensionless", "m"] if op == "pow" else ALL_UNITS)
            if op in ("add", "sub") and rng.random() < 0.6:
                R = R[:3] + (L[3],)
            cases.append(("random-UU", op, L, R))
        else:
            c = rng.choice([rng.randint(-5, 5), round(rng.uniform(-4, 4), 2), float(rng.randint(1, 4))])
            side = "r" if form < 0.7 else "l"
            if op == "pow":
                c = rng.choice([2, 3, -1, 0.5, 1.5, -2]) if side == "r" else rng.choice([2, 1.5, 3.0, 10])
                U = rand_un(("pos",), units=ALL_UNITS if side == "r" else [None, None, "dimensionless", "m", "s"])
            elif op == "div":
                if side == "r" and c == 0:
                    c = 1.25
                U = rand_un(("pos", "neg"))
            else:
                U = rand_un()
            cases.append(("random-Uc", op, U, ("N", c)) if side == "r" else ("random-cU", op, ("N", c), U))
    # 5. operands that are not numbers / uncertain numbers (compared on the error kind only)
    for e, op in itertools.product(E, OPS):
        p = pick(rng, e, ("pos",))
        cases.append(("malformed", op, ("U", e, p[1], "m"), ("C",)))
        cases.append(("malformed", op, ("U", e, p[1], "m"), ("X",)))
    return cases


def key_of(c):
    return repr(c[1:])


def run(ctx: core.Check, cases=None):
    ctx.rule = ("streams: grid U∘V over 4x4 essences x 5 operators x 4x4 base units (m,s,kg,none) with operand sign classes; "
                "grid U∘c / c∘U over essence x unit x operator x side x numbers (int and float, negative, zero, one); unary minus over "
                "essence x 9 unit strings x all parameter sets; random parameters with derived units (m/s, m**2, kg*m/s**2, 1/s); "
                "bare constructs and None as right operand. Non-trivial unless the plain number is the neutral element of the operator; "
                "distinct on (operator, operands, units). Plus a 'chained' history stream: a second operation (-D, 1-D, D*V, D+D, (-D)+D) applied to the "
                "result D of a first one (2*U, U+1, U**2, 3/U, U/V, U*V).")
    ctx.assumptions = [
        "arithmetic of the constructs themselves (interval, Frechet p-box, p-box∘number) is a parameter of the model (C01/C02/C06 prove it); "
        "the tie evaluates the model's construct-level call with the real library",
        "magnitudes of the pint quantities (nominal values) are not compared; only pint dimensionality of base units m, s, kg (no prefixes, no offsets)",
        "U ** V with a dimensional base and an uncertain exponent has no meaning in the statement: only the error/dimensionless cases are judged",
        "division by / reflected division of non-interval constructs straddling zero is not generated (the construct library only warns there)",
        "numpy scalars, bool and complex operands are not generated",
    ]
    ctx.lean_stage(["Pun.Props.C15"])
    core.stub_moments()
    if cases is None:
        cases = gen_cases(ctx)
        chained_stream(ctx)
    UN, convert_pbox, Pbox, Interval, pint = _mods()
    built = []
    reqs = []
    for (stream, op, dl, dr) in cases:
        Lobj = build(dl)
        Robj = build(dr) if dr is not None else None
        built.append((Lobj, Robj))
        if op == "neg":
            reqs.append("neg " + wire_opd(dl, Lobj))
        else:
            reqs.append(f"bin code {op} {wire_opd(dl, Lobj)} {wire_opd(dr, Robj)}")
    replies = core.model_batch("C15", reqs)
    # the specified table, executed as well (the theorem says the two agree; this ties the statement to the run)
    spec_replies = core.model_batch("C15", [r.replace("bin code", "bin spec") for r in reqs if r.startswith("bin")])
    it = iter(spec_replies)
    pb_reqs, pb_meta = [], []
    for (stream, op, dl, dr), (Lobj, Robj), rep in zip(cases, built, replies):
        neutral = (op in ("add", "sub") and ((dr and dr[0] == "N" and dr[1] == 0) or (dl[0] == "N" and dl[1] == 0))) or \
                  (op in ("mul", "div", "pow") and ((dr and dr[0] == "N" and dr[1] == 1)))
        ctx.count(key_of((stream, op, dl, dr)), not neutral, stream)
        impl = run_impl(op, Lobj, Robj)
        exp = model_expect(rep, Lobj, Robj, dl, dr)
        case = {"stream": stream, "op": op, "l": dl, "r": dr}
        if op != "neg":
            srep = next(it)
            if dr[0] in ("U", "N") and srep.split()[:1] != rep.split()[:1]:
                ctx.tie_bad(stream + ":spec-vs-code", case, rep, srep)
        if agrees(impl, exp):
            ctx.tie_ok()
        else:
            ctx.tie_bad(stream, case, short(impl), short_exp(exp))
        ctx.bump("impl:" + (impl[1] if impl[0] == "err" else "value"))
        if stream != "malformed":
            oracle(ctx, case, op, dl, dr, Lobj, Robj, impl)
        # p-box∘number specification (Lean PBn) against the real result
        if impl[0] == "ok" and impl[1] == "un" and (op == "neg" or (op in ("add", "sub", "mul", "div") and "N" in (dl[0], dr[0]))):
            if len(pb_reqs) < ctx.scale(250, 3000):
                U = Lobj if dl[0] == "U" else Robj
                l, h = bounds(U.construct)
                c = 0 if op == "neg" else (dr[1] if dl[0] == "U" else dl[1])
                name = op if (op == "neg" or dl[0] == "U" or op in ("add", "mul")) else "r" + op
                if all(map(math.isfinite, l + h)):
                    pb_reqs.append(f"pbnum {name} {ql(l)} {ql(h)} {q(c)}")
                    pb_meta.append((case, impl))
        if len(ctx.samples) < 6 and stream in ("grid-UU", "grid-cU", "random-Uc", "grid-neg") and ctx.rng.random() < 0.05:
            ctx.sample({"case": describe(op, dl, dr), "impl": short(impl), "model": rep})
    for (case, impl), rep in zip(pb_meta, core.model_batch("C15", pb_reqs)):
        t = rep.split()
        ctx.bump("pbnum")
        if t[0] == "ok" and same_bounds(impl[2], impl[3], unql(t[1]), unql(t[2]), exact=False, depth=3):
            ctx.tie_ok()
        else:
            ctx.tie_bad("pbnum", case, short(impl), rep[:200])



# ---- histories: an operation applied to the RESULT of a previous operation ---------------------------
def chained_stream(ctx):
    """U -> D = first(U) -> R = second(D): unit of R by dimensional algebra on exponent vectors, construct of R
    by the same operations on the constructs.  Derived numbers carry their unit only in the pint quantity, so
    this catches code that reads a stale attribute of a freshly constructed number."""
    UN, convert_pbox, Pbox, Interval, pint = _mods()
    rng = ctx.rng
    vadd = lambda a, b: tuple(x + y for x, y in zip(a, b))
    vsub = lambda a, b: tuple(x - y for x, y in zip(a, b))
    vscale = lambda a, k: tuple(x * k for x in a)
    firsts = {
        "mul2": (lambda U, V: 2 * U, lambda c, cv: 2 * c, lambda du, dv: du),
        "add1": (lambda U, V: U + 1, lambda c, cv: c + 1, lambda du, dv: du),
        "sq": (lambda U, V: U ** 2, lambda c, cv: c ** 2, lambda du, dv: vscale(du, 2)),
        "rdiv3": (lambda U, V: 3 / U, lambda c, cv: 3 / c, lambda du, dv: vscale(du, -1)),
        "divV": (lambda U, V: U / V, lambda c, cv: c / cv, lambda du, dv: vsub(du, dv)),
        "mulV": (lambda U, V: U * V, lambda c, cv: c * cv, lambda du, dv: vadd(du, dv)),
    }
    seconds = {
        "neg": (lambda D, V: -D, lambda c, cv: -c, lambda dd, dv: dd),
        "rsub1": (lambda D, V: 1 - D, lambda c, cv: 1 - c, lambda dd, dv: dd),
        "mulV": (lambda D, V: D * V, lambda c, cv: c * cv, lambda dd, dv: vadd(dd, dv)),
        "addself": (lambda D, V: D + D, lambda c, cv: c + c, lambda dd, dv: dd),
        "negadd": (lambda D, V: (-D) + D, lambda c, cv: (-c) + c, lambda dd, dv: dd),
    }
    units = [u for u in ALL_UNITS if u is not None][:3] + [None]
    n = 0
    for fn, (f1, c1, d1) in firsts.items():
        for sn, (f2, c2, d2) in seconds.items():
            for _ in range(ctx.scale(1, 6)):
                ess = rng.choice(["I", "I", "P"])
                par = rng.choice([p for sg, p in PARAMS[ess] if sg == "pos"])
                u, v = rng.choice(units), rng.choice(units)
                dU = ("U", ess, par, u)
                dV = ("U", "I", [2, 3], v)
                case = {"stream": "chained", "first": fn, "second": sn, "U": describe_opd(dU), "V": describe_opd(dV)}
                ctx.count(("chained", fn, sn, ess, str(par), u, v), True, "chained")
                n += 1
                try:
                    with warnings.catch_warnings():
                        warnings.simplefilter("ignore")
                        U, V = build(dU), build(dV)
                        R = f2(f1(U, V), V)
                        cu, cv = convert_pbox(U.construct), convert_pbox(V.construct)
                        ref = c2(c1(cu, cv), cv)
                    impl = canon(R)
                    rl, rh = bounds(ref)
                except BaseException as e:  # noqa
                    ctx.fail({"op": sn, "form": "chained", "first": fn, "symptom": "raises:" + ekind(e)}, case,
                             f"{sn} applied to the result of {fn} raises {type(e).__name__}")
                    continue
                want = d2(d1(UNITS[u], UNITS[v]), UNITS[v])
                if impl[1] != "un":
                    ctx.fail({"op": sn, "form": "chained", "first": fn, "symptom": "not-un"}, case,
                             f"{sn} applied to the result of {fn} does not return an UncertainNumber")
                elif not same_dim(impl[4], tuple(float(x) for x in want)):
                    ctx.fail({"op": sn, "form": "chained", "first": fn, "symptom": "wrong-unit"}, {**case, "unit": list(impl[4]) if not isinstance(impl[4][0], str) else impl[4], "expected": list(want)},
                             f"unit of {sn}({fn}(U)) has exponents {impl[4]}, dimensional algebra gives {want}")
                elif not same_bounds(impl[2], impl[3], rl, rh, exact=False, depth=8):
                    ctx.fail({"op": sn, "form": "chained", "first": fn, "symptom": "wrong-construct"}, case,
                             f"construct of {sn}({fn}(U)) differs from the same operations on the constructs")
    return n


def describe_opd(d):
    return {"essence": d[1], "params": d[2], "unit": d[3]}


def short_exp(exp):
    if exp[0] == "ok":
        return f"{exp[4]} [{exp[1][0]:.4g}..],[..{exp[2][-1]:.4g}] dim={tuple(float(x) for x in exp[3])}"
    return list(exp)


def replay(obj):
    c = obj.get("case", {})
    if "op" not in c:
        print(core.json.dumps(obj, indent=1))
        return 0
    core.stub_moments()
    tup = lambda d: None if d is None else tuple(d)
    op, dl, dr = c["op"], tup(c["l"]), tup(c["r"])
    Lobj, Robj = build(dl), (build(dr) if dr is not None else None)
    impl = run_impl(op, Lobj, Robj)
    req = ("neg " + wire_opd(dl, Lobj)) if op == "neg" else f"bin code {op} {wire_opd(dl, Lobj)} {wire_opd(dr, Robj)}"
    rep = core.model_batch("C15", [req])[0]
    print("case  :", describe(op, dl, dr))
    print("impl  :", short(impl))
    print("model :", rep)
    ctx = core.Check("C15", "quick", 0)
    oracle(ctx, c, op, dl, dr, Lobj, Robj, impl)
    for f in ctx.failures:
        print("oracle:", f["what"])
    for k in ctx.known_hit.values():
        print("oracle: known finding", k["k"]["id"])
    return 0
