"""C15 — UncertainNumber arithmetic equals construct arithmetic; units obey unit algebra.

proof  : Pun.Props.C15 (dispatch table of the class = specified table, unit algebra laws, mirror images)
tie    : the real operators of UncertainNumber vs `Pun.UN.pyBin/pyNeg` (model answers WHICH construct-level
         call is made on which converted/raw constructs and WHICH dimension results; the harness evaluates
         that call with the real construct library and compares bounds bit-for-bit, dimensions through
         pint's dimensionality) ; p-box∘number specification `Pun.UN.PBn` vs the real reflected operators
oracle : independent of the model: exact-Fraction dimension calculus of the statement; exact quantile
         formulas for U±c, c−U, U·c, U/c, c/U, −U; the same operator applied directly to the converted
         constructs for U∘V, U**c, c**U
"""
from __future__ import annotations
import itertools, operator, math, warnings
from fractions import Fraction as F
import numpy as np
from . import core
from .core import q, ql, unq, unql, close

OPS = {"add": operator.add, "sub": operator.sub, "mul": operator.mul, "div": operator.truediv, "pow": operator.pow}
SYM = {"add": "+", "sub": "-", "mul": "*", "div": "/", "pow": "**"}

# unit strings of the small unit system and their exponent vectors (m, s, kg)
UNITS = {None: (0, 0, 0), "m": (1, 0, 0), "s": (0, 1, 0), "kg": (0, 0, 1), "m/s": (1, -1, 0),
         "m**2": (2, 0, 0), "kg*m/s**2": (1, -2, 1), "1/s": (0, -1, 0), "dimensionless": (0, 0, 0)}
BASE_UNITS = [None, "m", "s", "kg"]
ALL_UNITS = list(UNITS)

# operand parameter sets per essence: (tag, params, sign class)
PARAMS = {
    "I": [("pos", [1, 2]), ("str", [-1, 2]), ("neg", [-3, -1]), ("pos", [0.5, 4.0]), ("pos", [2, 2])],
    "D": [("pos", ["gaussian", (10, 2)]), ("str", ["gaussian", (0, 1)]), ("pos", ["uniform", (1, 3)]),
          ("neg", ["gaussian", (-10, 1)])],
    "P": [("pos", ["uniform", ([1, 2], [3, 4])]), ("str", ["gaussian", ([-1, 1], [1, 2])]),
          ("neg", ["uniform", ([-4, -3], [-2, -1])]), ("pos", ["gaussian", ([8, 12], [0.5, 1.5])])],
    "S": [("pos", ([[1, 5], [3, 6]], [0.5, 0.5])), ("str", ([[-1, 2], [0, 3]], [0.25, 0.75])),
          ("neg", ([[-5, -1], [-6, -3]], [0.5, 0.5])), ("pos", ([[2, 3], [2.5, 4]], [0.125, 0.875]))],
}


def _mods():
    from pyuncertainnumber import UncertainNumber as UN
    from pyuncertainnumber.pba.pbox_abc import convert_pbox, Pbox
    from pyuncertainnumber.pba.intervals.number import Interval
    import pint
    return UN, convert_pbox, Pbox, Interval, pint


def build(d):
    """d = ("U", ess, params, unit) | ("N", x) | ("C",) | ("X",)"""
    UN, convert_pbox, Pbox, Interval, pint = _mods()
    k = d[0]
    if k == "U" and len(d) > 4:
        # less common entry points / operand representations of the same uncertain number
        import pyuncertainnumber as pun
        from pyuncertainnumber.pba.pbox_parametric import named_pbox
        from pyuncertainnumber.pba.dss import DempsterShafer
        _, ess, par, unit, style = d
        if ess == "I":
            u = {0: lambda: pun.I(list(par)), 1: lambda: pun.I(par[0], par[1]), 2: lambda: pun.I(Interval(par[0], par[1])),
                 3: lambda: pun.I(tuple(par)), 4: lambda: UN(essence="interval", intervals=Interval(par[0], par[1]))}[style % 5]()
        elif ess == "D":
            u = pun.D(par[0], tuple(par[1])) if style % 2 == 0 else UN(essence="distribution", distribution_parameters=[par[0], list(par[1])])
        elif ess == "P":
            u = UN.fromConstruct(named_pbox[par[0]](*[list(x) for x in par[1]])) if style % 2 == 0 else \
                UN(essence="pbox", pbox_parameters=[par[0], [tuple(x) for x in par[1]]])
        else:
            u = pun.DSS([list(x) for x in par[0]], list(par[1])) if style % 2 == 0 else \
                UN.fromConstruct(DempsterShafer([list(x) for x in par[0]], list(par[1])))
        u.unit = unit
        return u
    if k == "U":
        _, ess, par, unit = d[:4]
        if ess == "I":
            return UN(essence="interval", intervals=list(par), unit=unit)
        if ess == "D":
            return UN(essence="distribution", distribution_parameters=[par[0], tuple(par[1])], unit=unit)
        if ess == "P":
            return UN(essence="pbox", pbox_parameters=[par[0], tuple(list(x) for x in par[1])], unit=unit)
        if ess == "S":
            return UN(essence="dempster_shafer", intervals=[list(x) for x in par[0]], masses=list(par[1]), unit=unit)
    if k == "N":
        return d[1]
    if k == "C":
        return Interval(1, 2)
    if k == "X":
        return None
    raise ValueError(d)


def ekind(e):
    UN, convert_pbox, Pbox, Interval, pint = _mods()
    if isinstance(e, pint.DimensionalityError):
        return "Dimensionality"
    if isinstance(e, ZeroDivisionError):
        return "ZeroDivision"
    if isinstance(e, UnboundLocalError):
        return "Unbound"
    if isinstance(e, TypeError):
        return "Type"
    if isinstance(e, ValueError):
        return "Value"
    if isinstance(e, NotImplementedError):
        return "NotImplemented"
    if isinstance(e, AttributeError):
        return "Attribute"
    return "Other:" + type(e).__name__


def bounds(c):
    """canonical p-box view of a construct: (left list, right list) of floats"""
    UN, convert_pbox, Pbox, Interval, pint = _mods()
    p = convert_pbox(c)
    return [float(x) for x in np.asarray(p.left).ravel()], [float(x) for x in np.asarray(p.right).ravel()]


def dim_of(qty):
    d = dict(qty.dimensionality)
    extra = set(d) - {"[length]", "[time]", "[mass]"}
    if extra:
        return ("other", sorted(extra))
    return tuple(float(d.get(k, 0)) for k in ("[length]", "[time]", "[mass]"))


def canon(r):
    UN, convert_pbox, Pbox, Interval, pint = _mods()
    if isinstance(r, UN):
        l, h = bounds(r.construct)
        try:
            mag = float(r.physical_quantity.magnitude)
        except Exception:
            mag = None
        return ("ok", "un", l, h, dim_of(r.physical_quantity), "I" if isinstance(r.construct, Interval) else "P", mag)
    try:
        l, h = bounds(r)
        return ("ok", "raw:" + type(r).__name__, l, h, None)
    except Exception:
        return ("ok", "raw:" + type(r).__name__, [], [], None)


def run_impl(op, L, R):
    try:
        with warnings.catch_warnings():
            warnings.simplefilter("ignore")
            if op == "neg":
                return canon(-L)
            return canon(OPS[op](L, R))
    except BaseException as e:  # noqa
        return ("err", ekind(e))


# ---- the model's answer: a term over the constructs + a dimension ------------------------------
def wire_opd(d, obj):
    if d[0] == "U":
        dm = UNITS[d[3]]
        return f"U {d[1]} {q(float(obj.physical_quantity.magnitude))} {dm[0]} {dm[1]} {dm[2]}"
    if d[0] == "N":
        return f"N {q(d[1])}"
    return d[0]


class _P:
    def __init__(self, s):
        self.s, self.i = s, 0

    def term(self):
        j = self.i
        while self.i < len(self.s) and self.s[self.i] not in "(),":
            self.i += 1
        head = self.s[j:self.i]
        if self.i < len(self.s) and self.s[self.i] == "(":
            self.i += 1
            args = [self.term()]
            while self.s[self.i] == ",":
                self.i += 1
                args.append(self.term())
            assert self.s[self.i] == ")"
            self.i += 1
            return (head, args)
        return (head, [])


def eval_term(t, A, B, cL, cR):
    """evaluate the model's term with the REAL construct library. cL/cR: the plain-number python objects"""
    UN, convert_pbox, Pbox, Interval, pint = _mods()
    head, a = t
    if head == "A":
        return A
    if head == "B":
        return B
    if head == "conv":
        return convert_pbox(eval_term(a[0], A, B, cL, cR))
    if head == "neg":
        return -eval_term(a[0], A, B, cL, cR)
    op = OPS[a[0][0]]
    if head == "cc":
        return op(eval_term(a[1], A, B, cL, cR), eval_term(a[2], A, B, cL, cR))
    if head == "cn":
        return op(eval_term(a[1], A, B, cL, cR), cR if cR is not None else cL)
    if head == "nc":
        return op(cL if cL is not None else cR, eval_term(a[2], A, B, cL, cR))
    raise ValueError(head)


def model_expect(rep, Lobj, Robj, dl, dr):
    """('ok', left, right, dim) | ('err', kind) | ('nomodel',) | ('bad', rep)"""
    t = rep.split()
    if t[0] == "nomodel":
        return ("nomodel",)
    if t[0] == "err":
        return ("err", t[1])
    if t[0] != "ok":
        return ("bad", rep)
    term = _P(t[1]).term()
    A = Lobj.construct if dl[0] == "U" else None
    B = Robj.construct if (dr is not None and dr[0] == "U") else None
    cL = dl[1] if dl[0] == "N" else None
    cR = dr[1] if (dr is not None and dr[0] == "N") else None
    try:
        with warnings.catch_warnings():
            warnings.simplefilter("ignore")
            c = eval_term(term, A, B, cL, cR)
            l, h = bounds(c)
    except BaseException as e:  # noqa
        return ("err", ekind(e))
    return ("ok", l, h, tuple(unq(x) for x in t[2:5]), t[1], t[5] if len(t) > 5 else None, unq(t[6]) if len(t) > 6 else None)


def same_bounds(l1, h1, l2, h2, exact=True, depth=3):
    if len(l1) != len(l2) or len(h1) != len(h2):
        return False
    for a, b in zip(list(l1) + list(h1), list(l2) + list(h2)):
        if isinstance(a, float) and (math.isnan(a) or math.isinf(a)):
            if isinstance(b, float) and (a == b or (math.isnan(a) and math.isnan(b))):
                continue
            return False
        if isinstance(b, float) and (math.isnan(b) or math.isinf(b)):
            return False
        if exact:
            if F(a) != F(b):
                return False
        elif not close(a, F(b), depth):
            return False
    return True


def same_dim(d_impl, d_model):
    if d_impl is None or d_impl[0] == "other":
        return False
    return all(close(a, F(b), 2) for a, b in zip(d_impl, d_model))


def agrees(impl, exp):
    if exp[0] in ("nomodel", "bad"):
        return False
    if impl[0] == "err" or exp[0] == "err":
        return impl[0] == exp[0] and impl[1] == exp[1]
    if impl[1] != "un":
        return False
    if not (same_bounds(impl[2], impl[3], exp[1], exp[2], exact=True) and same_dim(impl[4], exp[3])):
        return False
    if exp[5] is not None and impl[5] != exp[5]:
        return False              # class of the new construct (Interval stays Interval, else p-box)
    if exp[6] is not None and "pow" not in exp[4] and impl[6] is not None and math.isfinite(impl[6]):
        m = max(abs(impl[6]), abs(float(exp[6])), 1e-300)
        if abs(F(impl[6]) - exp[6]) > F(m) * F(1, 10 ** 12):
            return False          # magnitude of the new pint quantity (operand order matters for c - U, c / U)
    return True


# ---- semantic oracle ---------------------------------------------------------------------------
def spec_dim(op, dl, dr, expo):
    """dimension demanded by the statement; 'dimerr' when it must be an error; None = outside the statement"""
    a = tuple(F(x) for x in UNITS[dl[3]]) if dl[0] == "U" else None
    b = tuple(F(x) for x in UNITS[dr[3]]) if (dr is not None and dr[0] == "U") else None
    zero = (F(0),) * 3
    if op == "neg":
        return a
    if op in ("add", "sub"):
        if a is not None and b is not None:
            return a if a == b else "dimerr"
        return a if a is not None else b
    if op == "mul":
        return tuple(x + y for x, y in zip(a or zero, b or zero))
    if op == "div":
        return tuple(x - y for x, y in zip(a or zero, b or zero))
    if op == "pow":
        if b is not None and b != zero:
            return "dimerr"                     # an exponent carrying a dimension
        if a is None:
            return zero                         # c ** U, U dimensionless
        if dr[0] == "N":
            return tuple(x * F(dr[1]) for x in a)
        # U ** V with V an uncertain (non-degenerate) exponent: only a dimensionless base has a meaning
        return zero if a == zero else None
    return None


def exact_num(op, side, l, h, c):
    """exact quantile lists of U∘c (side 'r': number on the right) / c∘U (side 'l'); None = not covered"""
    L = [F(x) for x in l]
    H = [F(x) for x in h]
    c = F(c)
    rev = lambda xs: list(reversed(xs))
    if op == "add":
        return [x + c for x in L], [x + c for x in H]
    if op == "sub":
        if side == "r":
            return [x - c for x in L], [x - c for x in H]
        return rev([c - x for x in H]), rev([c - x for x in L])
    if op == "mul":
        if c >= 0:
            return [x * c for x in L], [x * c for x in H]
        return rev([x * c for x in H]), rev([x * c for x in L])
    if op == "div":
        if side == "r":
            if c == 0:
                return None
            if c > 0:
                return [x / c for x in L], [x / c for x in H]
            return rev([x / c for x in H]), rev([x / c for x in L])
        if not (all(x > 0 for x in L) or all(x < 0 for x in H)):
            return None
        if c >= 0:
            return rev([c / x for x in H]), rev([c / x for x in L])
        return [c / x for x in L], [c / x for x in H]
    return None


def oracle(ctx, case, op, dl, dr, Lobj, Robj, impl):
    """the property on the real result. returns nothing; reports through ctx.fail"""
    UN, convert_pbox, Pbox, Interval, pint = _mods()
    side = "r" if dl[0] == "U" else "l"
    if dr is not None and dr[0] in ("C", "X"):
        return
    u = dl if dl[0] == "U" else dr
    feat = {"op": op, "form": ("neg" if op == "neg" else ("UU" if (dl[0] == "U" and dr[0] == "U") else ("Uc" if side == "r" else "cU"))),
            "less": dl[1] if dl[0] == "U" else "N", "ress": (dr[1] if dr[0] == "U" else "N") if dr is not None else "-",
            "symptom": ("raises:" + impl[1]) if impl[0] == "err" else ("value" if impl[1] == "un" else "not-an-UncertainNumber"),
            "call": "UncertainNumber operator"}
    expo = None
    want_dim = spec_dim(op, dl, dr, expo)
    # -- construct expected --
    want = None      # ('ok', l, h, exact?) | ('err', kind)
    try:
        with warnings.catch_warnings():
            warnings.simplefilter("ignore")
            if op == "neg":
                l, h = bounds(Lobj.construct)
                want = ("ok", [-F(x) for x in reversed(h)], [-F(x) for x in reversed(l)], False)
            elif feat["form"] == "UU":
                r = OPS[op](convert_pbox(Lobj.construct), convert_pbox(Robj.construct))
                want = ("ok",) + bounds(r) + (True,)
            else:
                U = Lobj if side == "r" else Robj
                c = dr[1] if side == "r" else dl[1]
                l, h = bounds(U.construct)
                ex = exact_num(op, side, l, h, c) if op != "pow" else None
                if ex is not None:
                    want = ("ok", ex[0], ex[1], False)
                elif op == "div":
                    return          # division by zero / by a zero-straddling operand: not judged
                else:
                    base = U.construct if isinstance(U.construct, Interval) and side == "r" else convert_pbox(U.construct)
                    r = OPS[op](base, c) if side == "r" else OPS[op](c, base)
                    want = ("ok",) + bounds(r) + (True,)
    except BaseException as e:  # noqa
        want = ("err", ekind(e))
    cj = dict(case)
    # -- compare --
    if want[0] == "err":
        # the construct library itself rejects the operation: the UncertainNumber operator must reject it too
        if impl[0] != "err":
            ctx.fail(dict(feat, symptom="value-where-construct-raises"), cj, f"{describe(op, dl, dr)}: construct-level operation raises {want[1]} but the UncertainNumber operator returned a value")
        return
    if want_dim == "dimerr":
        if not (impl[0] == "err" and impl[1] == "Dimensionality"):
            ctx.fail(dict(feat, check="unit"), cj, f"{describe(op, dl, dr)}: incompatible dimensions must be an error, got {short(impl)}")
        return
    if impl[0] == "err":
        ctx.fail(feat, cj, f"{describe(op, dl, dr)}: raises {impl[1]}; the same operation on the constructs succeeds")
        return
    if impl[1] != "un":
        ctx.fail(feat, cj, f"{describe(op, dl, dr)}: result is a bare {impl[1]} and not an UncertainNumber")
        return
    if not same_bounds(impl[2], impl[3], want[1], want[2], exact=want[3], depth=3):
        ctx.fail(dict(feat, check="construct"), cj,
                 f"{describe(op, dl, dr)}: construct of the result [{impl[2][0]:.6g}..{impl[2][-1]:.6g}],[{impl[3][0]:.6g}..{impl[3][-1]:.6g}] differs from the operation on the constructs "
                 f"[{float(want[1][0]):.6g}..{float(want[1][-1]):.6g}],[{float(want[2][0]):.6g}..{float(want[2][-1]):.6g}]")
        return
    if want_dim is not None and not same_dim(impl[4], want_dim):
        ctx.fail(dict(feat, check="unit"), cj, f"{describe(op, dl, dr)}: dimension (m,s,kg) of the result is {impl[4]}, unit algebra gives {tuple(float(x) for x in want_dim)}")


def describe(op, dl, dr):
    def s(d):
        if d is None:
            return ""
        if d[0] == "U":
            return f"UN[{d[1]} {d[2]} unit={d[3]}]"
        if d[0] == "N":
            return repr(d[1])
        return {"C": "Interval(1,2)", "X": "None"}[d[0]]
    if op == "neg":
        return "-" + s(dl)
    return f"{s(dl)} {SYM[op]} {s(dr)}"


def short(impl):
    if impl[0] == "err":
        return "raises " + impl[1]
    return f"{impl[1]} [{impl[2][0]:.4g}..],[..{impl[3][-1]:.4g}] dim={impl[4]}"


# ---- generators -----------------------------------------------------------------------------------
def pick(rng, ess, signs=("pos", "str", "neg")):
    c = [p for p in PARAMS[ess] if p[0] in signs]
    return rng.choice(c)


def gen_cases(ctx):
    rng = ctx.rng
    cases = []
    E = "IDPS"
    # 1. grid U∘V: every essence pair x operator x base-unit pair
    for le, re_, op in itertools.product(E, E, OPS):
        for lu, ru in itertools.product(BASE_UNITS, BASE_UNITS):
            if op in ("div", "pow"):
                rs = ("pos",) if op == "pow" else ("pos", "neg")
                ls = ("pos",) if op == "pow" else ("pos", "str", "neg")
            else:
                rs = ls = ("pos", "str", "neg")
            lp, rp = pick(rng, le, ls), pick(rng, re_, rs)
            if op == "pow" and rng.random() < 0.7:
                ru = None if rng.random() < 0.8 else ru
            cases.append(("grid-UU", op, ("U", le, lp[1], lu), ("U", re_, rp[1], ru)))
    # 2. grid U∘c and c∘U: essence x unit x operator x side x numbers
    nums = [2, -3, 0.5, 2.0, 1, -1.5, 0, 3]
    for e, u, op, side in itertools.product(E, BASE_UNITS + ["m/s"], OPS, "rl"):
        for c in (rng.sample(nums, 3) if ctx.tier == "quick" else nums):
            if op == "pow":
                if side == "r":
                    c = rng.choice([2, 3, 0.5, -1, 2.0, 0, 1])
                    p = pick(rng, e, ("pos",) if c not in (2, 0, 1) else ("pos", "str", "neg"))
                else:
                    c = rng.choice([2, 3.0, 1, 2.5])
                    p = pick(rng, e, ("pos", "neg", "str"))
                    if rng.random() < 0.5:
                        u = None
            elif op == "div" and side == "l":
                p = pick(rng, e, ("pos", "neg") if e != "I" else ("pos", "neg", "str"))
            elif op == "div" and side == "r" and c == 0:
                c = 4
                p = pick(rng, e)
            else:
                p = pick(rng, e)
            U = ("U", e, p[1], u)
            cases.append(("grid-Uc" if side == "r" else "grid-cU", op, U, ("N", c)) if side == "r"
                         else ("grid-cU", op, ("N", c), U))
    # 3. unary minus
    for e, u in itertools.product(E, ALL_UNITS):
        for p in PARAMS[e]:
            cases.append(("grid-neg", "neg", ("U", e, p[1], u), None))
    # 4. random: derived units, random parameters
    def rand_un(signs=("pos", "str", "neg"), units=ALL_UNITS):
        e = rng.choice(E)
        s = rng.choice(signs)
        a = round(rng.uniform(0.5, 5), rng.choice([0, 1, 3]))
        w = round(rng.uniform(0.25, 3), rng.choice([0, 1, 3])) or 1.0
        a = a or 1.0
        lo = {"pos": a, "str": -a, "neg": -a - 2 * w - 1}[s]
        if e == "I":
            par = [lo, lo + w if s != "str" else w]
        elif e == "D":
            if s == "str":
                par = ["gaussian", (0.25 * a, w)]
            else:
                par = ["uniform", (lo, lo + w)]
        elif e == "P":
            par = ["uniform", ([lo, lo + w / 4], [lo + w / 2, lo + w])] if s != "str" else ["uniform", ([-a, -a / 2], [w / 2, w])]
        else:
            if s == "str":
                par = ([[-a, w], [-a / 2, 2 * w]], [0.25, 0.75])
            else:
                par = ([[lo, lo + w / 2], [lo + w / 4, lo + w]], [0.5, 0.5])
        return ("U", e, par, rng.choice(units))
    for _ in range(ctx.scale(500, 12000)):
        op = rng.choice(list(OPS) + ["add", "sub"])
        form = rng.random()
        if form < 0.45:
            L = rand_un(("pos",) if op == "pow" else ("pos", "str", "neg"))
            R = rand_un(("pos",) if op == "pow" else (("pos", "neg") if op == "div" else ("pos", "str", "neg")),
                        units=[None, None, "dimensionless", "m"] if op == "pow" else ALL_UNITS)
            if op in ("add", "sub") and rng.random() < 0.6:
                R = R[:3] + (L[3],)
            cases.append(("random-UU", op, L, R))
        else:
            c = rng.choice([rng.randint(-5, 5), round(rng.uniform(-4, 4), 2), float(rng.randint(1, 4))])
            side = "r" if form < 0.7 else "l"
            if op == "pow":
                c = rng.choice([2, 3, -1, 0.5, 1.5, -2]) if side == "r" else rng.choice([2, 1.5, 3.0, 10])
                U = rand_un(("pos",), units=ALL_UNITS if side == "r" else [None, None, "dimensionless", "m", "s"])
            elif op == "div":
                if side == "r" and c == 0:
                    c = 1.25
                U = rand_un(("pos", "neg"))
            else:
                U = rand_un()
            cases.append(("random-Uc", op, U, ("N", c)) if side == "r" else ("random-cU", op, ("N", c), U))
    # 4b. extreme constants (below machine epsilon, above 1e15) and thin-but-not-degenerate operands
    thin = [("I", [1.0, 1.0 + 1e-9]), ("I", [2e-9, 8e-9]), ("I", [5.0, 5.00001]), ("D", ["uniform", (3.0, 3.0 + 1e-7)]),
            ("P", ["uniform", ([1.0, 1.0 + 1e-8], [2.0, 2.0 + 1e-8])]), ("S", ([[1.0, 1.0 + 1e-9], [1.0 + 2e-9, 1.0 + 3e-9]], [0.5, 0.5]))]
    for e, op, side in itertools.product(E, ["add", "sub", "mul", "div"], "rl"):
        for c in rng.sample([1e-20, 2.0 ** -60, 1.380649e-23, 1e18, -1e-20, 3e15], 2 if ctx.tier == "quick" else 6):
            p = pick(rng, e, ("pos", "neg"))
            U = ("U", e, p[1], rng.choice(BASE_UNITS))
            cases.append(("extreme-Uc", op, U, ("N", c)) if side == "r" else ("extreme-cU", op, ("N", c), U))
    for (e, par), op in itertools.product(thin, ["add", "sub", "mul", "div"]):
        u = rng.choice(BASE_UNITS)
        U = ("U", e, par, u)
        c = rng.choice([2, -3, 0.5, 1e-20, 1e18])
        cases.append(("thin-Uc", op, U, ("N", c)))
        cases.append(("thin-cU", op, ("N", c), U))
        e2, par2 = rng.choice(thin)
        cases.append(("thin-UU", op, U, ("U", e2, par2, u if op in ("add", "sub") else rng.choice(BASE_UNITS))))
        cases.append(("grid-neg", "neg", U, None))
    # 4c. the same uncertain numbers through the shortcuts / other operand representations (pun.I(list|2 args|Interval|tuple),
    #     ndarray bounds, pun.D, list parameters, fromConstruct(named p-box), pun.DSS, fromConstruct(DempsterShafer)); unit set afterwards
    for e, op in itertools.product(E, OPS):
        for style in range(5 if e == "I" else 2):
            p = pick(rng, e, ("pos",))
            U = ("U", e, p[1], rng.choice(["m", "s", None]), style)
            e2 = rng.choice(E)
            V = ("U", e2, pick(rng, e2, ("pos",))[1], (U[3] if op in ("add", "sub") else (None if op == "pow" else rng.choice(BASE_UNITS))), rng.randrange(10))
            c = rng.choice([2, 3, 0.5]) if op != "pow" else 2
            cases.append(("entry-UU", op, U, V))
            cases.append(("entry-Uc", op, U, ("N", c)))
            if op != "pow":
                cases.append(("entry-cU", op, ("N", c), U))
        cases.append(("grid-neg", "neg", ("U", e, pick(rng, e)[1], "m", rng.randrange(10)), None))
    # 4d. magnitudes for the non-interval essences: tiny and huge scales; in particular operands whose NOMINAL value (mean
    #     midpoint rounded to 3 decimals) is exactly 0.0 while the construct lies strictly on one side of zero
    def scaled(e, k, sgn=1):
        if e == "D":
            return ["uniform", (sgn * 1 * k, sgn * 3 * k) if sgn > 0 else (-3 * k, -1 * k)]
        if e == "P":
            return ["uniform", ([1 * k, 2 * k], [3 * k, 4 * k])] if sgn > 0 else ["uniform", ([-4 * k, -3 * k], [-2 * k, -1 * k])]
        if e == "S":
            return ([[1 * k, 3 * k], [2 * k, 4 * k]], [0.5, 0.5]) if sgn > 0 else ([[-4 * k, -2 * k], [-3 * k, -1 * k]], [0.5, 0.5])
        return [1 * k, 2 * k] if sgn > 0 else [-2 * k, -1 * k]
    for e in E:
        for k in ([1e-4, 2.0 ** -30, 1e-9, 2.0 ** 36] if ctx.tier == "quick" else [1e-4, 3e-5, 2.0 ** -30, 2.0 ** -50, 1e-9, 1e-19, 2.0 ** 36, 1e12]):
            for sgn in (1, -1):
                U = ("U", e, scaled(e, k, sgn), rng.choice(["s", "m", None]))
                V = ("U", rng.choice(E), pick(rng, rng.choice(E), ("pos",))[1], rng.choice(BASE_UNITS))
                V = ("U", "I", [1, 2], rng.choice(BASE_UNITS)) if rng.random() < 0.5 else V
                c = rng.choice([3, 2.5, -2])
                cases.append(("scale-cU", "div", ("N", c), U))
                cases.append(("scale-UU", "div", (V[0], V[1], pick(rng, V[1], ("pos",))[1], V[3]), U))
                cases.append(("scale-Uc", "div", U, ("N", c)))
                cases.append(("scale-cU", "sub", ("N", c), U))
                cases.append(("scale-UU", "mul", U, ("U", "I", [1, 2], rng.choice(BASE_UNITS))))
                if sgn > 0:
                    cases.append(("scale-Uc", "pow", U, ("N", rng.choice([-1, -2, 2]))))
                cases.append(("grid-neg", "neg", U, None))
    # 5. operands that are not numbers / uncertain numbers (compared on the error kind only)
    for e, op in itertools.product(E, OPS):
        p = pick(rng, e, ("pos",))
        cases.append(("malformed", op, ("U", e, p[1], "m"), ("C",)))
        cases.append(("malformed", op, ("U", e, p[1], "m"), ("X",)))
    return cases


def key_of(c):
    return repr(c[1:])


def run(ctx: core.Check, cases=None):
    ctx.rule = ("streams: grid U∘V over 4x4 essences x 5 operators x 4x4 base units (m,s,kg,none) with operand sign classes; "
                "grid U∘c / c∘U over essence x unit x operator x side x numbers (int and float, negative, zero, one); unary minus over "
                "essence x 9 unit strings x all parameter sets; random parameters with derived units (m/s, m**2, kg*m/s**2, 1/s); "
                "bare constructs and None as right operand. Non-trivial unless the plain number is the neutral element of the operator; "
                "distinct on (operator, operands, units). Plus a 'chained' history stream: a second operation (-D, 1-D, D*V, D+D, (-D)+D) applied to the "
                "result D of a first one (2*U, U+1, U**2, 3/U, U/V, U*V). Plus a 'dependency' stream (U op V inside pba.dependency(d), d in f,p,o,i, against the same operator "
                "on the converted constructs in that context) and a 'history' stream (fixed and random sequences of 3-6 operations over a pool of operands: "
                "use-then-negate-then-reuse, exponents built by reflected subtraction; every object is shadowed by the construct library on separately built "
                "operands, re-read at the end of the history and, for the last 40 histories, at the end of the stream). Plus extreme constants (1e-20, 2**-60, k_B, 1e18, 3e15), "
                "thin-but-not-degenerate operands (relative width 1e-9..1e-5, [2e-9,8e-9]), the same numbers through the shortcuts pun.I/pun.D/pun.DSS/fromConstruct "
                "with list/tuple/Interval arguments, and a 'hist-tie' stream: chains acc op c / c op acc / acc op acc / -acc against Pun.UN.runHist.")
    ctx.assumptions = [
        "arithmetic of the constructs themselves (interval, Frechet p-box, p-box∘number) is a parameter of the model (C01/C02/C06 prove it); "
        "the tie evaluates the model's construct-level call with the real library",
        "magnitudes of the pint quantities are compared only in the history stream and only for numbers derived linearly from intervals (c - U, -U, U + V ...), where they decide the unit of a later power; elsewhere only pint dimensionality of base units m, s, kg (no prefixes, no offsets)",
        "U ** V with a dimensional base and an uncertain exponent has no meaning in the statement: only the error/dimensionless cases are judged",
        "division by / reflected division of non-interval constructs straddling zero is not generated (the construct library only warns there)",
        "numpy scalars, bool and complex operands are not generated",
    ]
    ctx.lean_stage(["Pun.Props.C15"])
    core.stub_moments()
    if cases is None:
        cases = gen_cases(ctx)
        chained_stream(ctx)
        dependency_stream(ctx)
        history_stream(ctx)
        hist_tie_stream(ctx)
        numtype_stream(ctx)
        global_state_stream(ctx)
    UN, convert_pbox, Pbox, Interval, pint = _mods()
    built = []
    reqs = []
    for (stream, op, dl, dr) in cases:
        Lobj = build(dl)
        Robj = build(dr) if dr is not None else None
        built.append((Lobj, Robj))
        if op == "neg":
            reqs.append("neg " + wire_opd(dl, Lobj))
        else:
            reqs.append(f"bin code {op} {wire_opd(dl, Lobj)} {wire_opd(dr, Robj)}")
    replies = core.model_batch("C15", reqs)
    # the real code evaluates the construct-level call BEFORE the units (so does the model, whose free term algebra never
    # raises): where the model answers `err Dimensionality`, ask it for the construct-level call of the same operands without
    # units and evaluate that first — if the construct library raises there, that error is what the class shows
    idx = [i for i, r in enumerate(replies) if r.startswith("err Dimensionality") and reqs[i].startswith("bin")]
    if idx:
        def nounit(d):
            return (d[:3] + (None,) + tuple(d[4:])) if d[0] == "U" else d
        req2 = [f"bin code {cases[i][1]} {wire_opd(nounit(cases[i][2]), built[i][0])} {wire_opd(nounit(cases[i][3]), built[i][1])}" for i in idx]
        for i, r2 in zip(idx, core.model_batch("C15", req2)):
            e2 = model_expect(r2, built[i][0], built[i][1], cases[i][2], cases[i][3])
            if e2[0] == "err":
                replies[i] = "err " + e2[1]
    # the specified table, executed as well (the theorem says the two agree; this ties the statement to the run)
    spec_replies = core.model_batch("C15", [r.replace("bin code", "bin spec") for r in reqs if r.startswith("bin")])
    it = iter(spec_replies)
    pb_reqs, pb_meta = [], []
    for (stream, op, dl, dr), (Lobj, Robj), rep in zip(cases, built, replies):
        neutral = (op in ("add", "sub") and ((dr and dr[0] == "N" and dr[1] == 0) or (dl[0] == "N" and dl[1] == 0))) or \
                  (op in ("mul", "div", "pow") and ((dr and dr[0] == "N" and dr[1] == 1)))
        ctx.count(key_of((stream, op, dl, dr)), not neutral, stream)
        impl = run_impl(op, Lobj, Robj)
        exp = model_expect(rep, Lobj, Robj, dl, dr)
        case = {"stream": stream, "op": op, "l": dl, "r": dr}
        if op != "neg":
            srep = next(it)
            if dr[0] in ("U", "N") and srep.split()[:1] != rep.split()[:1]:
                ctx.tie_bad(stream + ":spec-vs-code", case, rep, srep)
        if agrees(impl, exp):
            ctx.tie_ok()
        else:
            ctx.tie_bad(stream, case, short(impl), short_exp(exp))
        ctx.bump("impl:" + (impl[1] if impl[0] == "err" else "value"))
        if stream != "malformed":
            oracle(ctx, case, op, dl, dr, Lobj, Robj, impl)
        # p-box∘number specification (Lean PBn) against the real result
        if impl[0] == "ok" and impl[1] == "un" and (op == "neg" or (op in ("add", "sub", "mul", "div") and "N" in (dl[0], dr[0]))):
            if len(pb_reqs) < ctx.scale(250, 3000):
                U = Lobj if dl[0] == "U" else Robj
                l, h = bounds(U.construct)
                c = 0 if op == "neg" else (dr[1] if dl[0] == "U" else dl[1])
                name = op if (op == "neg" or dl[0] == "U" or op in ("add", "mul")) else "r" + op
                if all(map(math.isfinite, l + h)):
                    pb_reqs.append(f"pbnum {name} {ql(l)} {ql(h)} {q(c)}")
                    pb_meta.append((case, impl))
        if len(ctx.samples) < 6 and stream in ("grid-UU", "grid-cU", "random-Uc", "grid-neg") and ctx.rng.random() < 0.05:
            ctx.sample({"case": describe(op, dl, dr), "impl": short(impl), "model": rep})
    for (case, impl), rep in zip(pb_meta, core.model_batch("C15", pb_reqs)):
        t = rep.split()
        ctx.bump("pbnum")
        if t[0] == "ok" and same_bounds(impl[2], impl[3], unql(t[1]), unql(t[2]), exact=False, depth=3):
            ctx.tie_ok()
        else:
            ctx.tie_bad("pbnum", case, short(impl), rep[:200])



# ---- histories: an operation applied to the RESULT of a previous operation ---------------------------
def chained_stream(ctx):
    """U -> D = first(U) -> R = second(D): unit of R by dimensional algebra on exponent vectors, construct of R
    by the same operations on the constructs.  Derived numbers carry their unit only in the pint quantity, so
    this catches code that reads a stale attribute of a freshly constructed number."""
    UN, convert_pbox, Pbox, Interval, pint = _mods()
    rng = ctx.rng
    vadd = lambda a, b: tuple(x + y for x, y in zip(a, b))
    vsub = lambda a, b: tuple(x - y for x, y in zip(a, b))
    vscale = lambda a, k: tuple(x * k for x in a)
    firsts = {
        "mul2": (lambda U, V: 2 * U, lambda c, cv: 2 * c, lambda du, dv: du),
        "add1": (lambda U, V: U + 1, lambda c, cv: c + 1, lambda du, dv: du),
        "sq": (lambda U, V: U ** 2, lambda c, cv: c ** 2, lambda du, dv: vscale(du, 2)),
        "rdiv3": (lambda U, V: 3 / U, lambda c, cv: 3 / c, lambda du, dv: vscale(du, -1)),
        "divV": (lambda U, V: U / V, lambda c, cv: c / cv, lambda du, dv: vsub(du, dv)),
        "mulV": (lambda U, V: U * V, lambda c, cv: c * cv, lambda du, dv: vadd(du, dv)),
    }
    seconds = {
        "neg": (lambda D, V: -D, lambda c, cv: -c, lambda dd, dv: dd),
        "rsub1": (lambda D, V: 1 - D, lambda c, cv: 1 - c, lambda dd, dv: dd),
        "mulV": (lambda D, V: D * V, lambda c, cv: c * cv, lambda dd, dv: vadd(dd, dv)),
        "addself": (lambda D, V: D + D, lambda c, cv: c + c, lambda dd, dv: dd),
        "negadd": (lambda D, V: (-D) + D, lambda c, cv: (-c) + c, lambda dd, dv: dd),
    }
    units = [u for u in ALL_UNITS if u is not None][:3] + [None]
    n = 0
    for fn, (f1, c1, d1) in firsts.items():
        for sn, (f2, c2, d2) in seconds.items():
            for _ in range(ctx.scale(1, 6)):
                ess = rng.choice(["I", "I", "P"])
                par = rng.choice([p for sg, p in PARAMS[ess] if sg == "pos"])
                u, v = rng.choice(units), rng.choice(units)
                dU = ("U", ess, par, u)
                dV = ("U", "I", [2, 3], v)
                case = {"stream": "chained", "first": fn, "second": sn, "U": describe_opd(dU), "V": describe_opd(dV)}
                ctx.count(("chained", fn, sn, ess, str(par), u, v), True, "chained")
                n += 1
                try:
                    with warnings.catch_warnings():
                        warnings.simplefilter("ignore")
                        U, V = build(dU), build(dV)
                        R = f2(f1(U, V), V)
                        cu, cv = convert_pbox(U.construct), convert_pbox(V.construct)
                        ref = c2(c1(cu, cv), cv)
                    impl = canon(R)
                    rl, rh = bounds(ref)
                except BaseException as e:  # noqa
                    ctx.fail({"op": sn, "form": "chained", "first": fn, "symptom": "raises:" + ekind(e)}, case,
                             f"{sn} applied to the result of {fn} raises {type(e).__name__}")
                    continue
                want = d2(d1(UNITS[u], UNITS[v]), UNITS[v])
                if impl[1] != "un":
                    ctx.fail({"op": sn, "form": "chained", "first": fn, "symptom": "not-un"}, case,
                             f"{sn} applied to the result of {fn} does not return an UncertainNumber")
                elif not same_dim(impl[4], tuple(float(x) for x in want)):
                    ctx.fail({"op": sn, "form": "chained", "first": fn, "symptom": "wrong-unit"}, {**case, "unit": list(impl[4]) if not isinstance(impl[4][0], str) else impl[4], "expected": list(want)},
                             f"unit of {sn}({fn}(U)) has exponents {impl[4]}, dimensional algebra gives {want}")
                elif not same_bounds(impl[2], impl[3], rl, rh, exact=False, depth=8):
                    ctx.fail({"op": sn, "form": "chained", "first": fn, "symptom": "wrong-construct"}, case,
                             f"construct of {sn}({fn}(U)) differs from the same operations on the constructs")
    return n


# ---- operators inside `with pba.dependency(d)` --------------------------------------------------------
def dependency_stream(ctx):
    """U op V evaluated inside `with pba.dependency(d)` for d in f,p,o,i must be the same operator applied to the
    converted constructs INSIDE THE SAME CONTEXT (construct of the result = same operation on the constructs)."""
    UN, convert_pbox, Pbox, Interval, pint = _mods()
    import pyuncertainnumber.pba as pba
    rng = ctx.rng
    pairs = [("D", "D"), ("D", "P"), ("P", "S"), ("S", "D"), ("P", "P"), ("D", "I"), ("I", "S")]
    differs = 0
    for d in "fpoi":
        for (le, re_) in pairs:
            for op in OPS:
                if ctx.tier == "quick" and rng.random() < 0.35 and (le, re_) != ("D", "D"):
                    continue
                lp, rp = pick(rng, le, ("pos",)), pick(rng, re_, ("pos",))
                u = rng.choice(BASE_UNITS)
                v = u if op in ("add", "sub") else (None if op == "pow" else rng.choice(BASE_UNITS))
                dl, dr = ("U", le, lp[1], u), ("U", re_, rp[1], v)
                case = {"stream": "dependency", "dependency": d, "op": op, "l": dl, "r": dr}
                ctx.count(("dep", d, op, dl, dr), True, "dependency:" + d)
                L, R = build(dl), build(dr)
                L2, R2 = build(dl), build(dr)           # separately built operands for the reference
                with warnings.catch_warnings():
                    warnings.simplefilter("ignore")
                    with pba.dependency(d):
                        impl = run_impl(op, L, R)
                        try:
                            ref = ("ok",) + bounds(OPS[op](convert_pbox(L2.construct), convert_pbox(R2.construct)))
                        except BaseException as e:  # noqa
                            ref = ("err", ekind(e))
                    try:
                        free = bounds(OPS[op](convert_pbox(L2.construct), convert_pbox(R2.construct)))
                    except BaseException:  # noqa
                        free = None
                feat = {"op": op, "form": "UU", "less": le, "ress": re_, "dependency": d, "call": "UncertainNumber operator inside pba.dependency",
                        "symptom": ("raises:" + impl[1]) if impl[0] == "err" else "value"}
                if ref[0] == "err":
                    if impl[0] != "err":
                        ctx.fail(dict(feat, symptom="value-where-construct-raises"), case, f"dependency({d!r}): {describe(op, dl, dr)}: the constructs raise {ref[1]} but the operator returns a value")
                    continue
                if free is not None and not same_bounds(ref[1], ref[2], free[0], free[1]):
                    differs += 1
                if impl[0] == "err":
                    ctx.fail(feat, case, f"dependency({d!r}): {describe(op, dl, dr)} raises {impl[1]}; the same operation on the constructs succeeds")
                elif impl[1] != "un" or not same_bounds(impl[2], impl[3], ref[1], ref[2], exact=True):
                    ctx.fail(dict(feat, check="construct"), case,
                             f"inside pba.dependency({d!r}): {describe(op, dl, dr)} has construct [{impl[2][0]:.6g}..{impl[2][-1]:.6g}],[{impl[3][0]:.6g}..{impl[3][-1]:.6g}] but the same "
                             f"operator on the converted constructs in that context gives [{ref[1][0]:.6g}..{ref[1][-1]:.6g}],[{ref[2][0]:.6g}..{ref[2][-1]:.6g}]")
                else:
                    wd = spec_dim(op, dl, dr, None)
                    if wd not in (None, "dimerr") and not same_dim(impl[4], wd):
                        ctx.fail(dict(feat, check="unit"), case, f"dependency({d!r}): {describe(op, dl, dr)}: dimension {impl[4]}, unit algebra gives {tuple(float(x) for x in wd)}")
    ctx.bump("dependency:context-changes-result", differs)
    if differs == 0:
        ctx.notes.append("dependency stream: no case where the context changed the construct-level result (stream would be vacuous)")


# ---- histories: operands reused, negated, results kept alive -------------------------------------------
class _Node:
    """one uncertain number of a history: the real object + an independent shadow (construct computed by the
    construct library from SEPARATELY built operands), its expected dimension and pint magnitude"""
    __slots__ = ("obj", "shadow", "dim", "mag", "linear", "text", "canon")

    def __init__(self, obj, shadow, dim, mag, linear, text):
        self.obj, self.shadow, self.dim, self.mag, self.linear, self.text = obj, shadow, dim, mag, linear, text
        self.canon = None


def _buffers(c):
    """the ndarray buffers a construct holds (bounds of an interval / p-box, focal elements of a DS structure)"""
    out = []
    for name in ("_left", "_right", "left", "right", "_lo", "_hi", "lo", "hi"):
        try:
            a = getattr(c, name, None)
        except Exception:
            a = None
        if isinstance(a, np.ndarray) and a.ndim >= 1 and not any(a is b for b in out):
            out.append(a)
    return out


def _sign(shadow):
    l, h = bounds(shadow)
    if min(l) > 0:
        return "pos"
    if max(h) < 0:
        return "neg"
    return "str"


def _verify(ctx, node, case, when, check_mag=True):
    """real object against its shadow: construct, dimension, magnitude. returns True if fine"""
    impl = canon(node.obj)
    sl, sh = bounds(node.shadow)
    feat = {"form": "history", "when": when, "call": "UncertainNumber operators in sequence", "symptom": "value"}
    if impl[1] != "un":
        ctx.fail(dict(feat, symptom="not-an-UncertainNumber"), case, f"{node.text}: not an UncertainNumber ({when})")
        return False
    if not same_bounds(impl[2], impl[3], sl, sh, exact=True):
        ctx.fail(dict(feat, check="construct"), case,
                 f"{node.text} ({when}): construct [{impl[2][0]:.6g}..{impl[2][-1]:.6g}],[{impl[3][0]:.6g}..{impl[3][-1]:.6g}] differs from the same operations on the constructs "
                 f"[{sl[0]:.6g}..{sl[-1]:.6g}],[{sh[0]:.6g}..{sh[-1]:.6g}]")
        return False
    if node.dim is not None and not same_dim(impl[4], node.dim):
        ctx.fail(dict(feat, check="unit"), case, f"{node.text} ({when}): dimension (m,s,kg) {impl[4]}, unit algebra gives {tuple(float(x) for x in node.dim)}")
        return False
    if check_mag and node.linear and node.mag is not None:
        m = float(node.obj.physical_quantity.magnitude)
        if not close(m, F(node.mag), 8) and abs(m - node.mag) > 1e-9 * max(1.0, abs(node.mag)):
            ctx.fail(dict(feat, check="magnitude"), case, f"{node.text} ({when}): the physical quantity has magnitude {m!r}; the same operation on the operands' quantities gives {node.mag!r}")
    node.canon = impl
    return True


def _apply(step, pool):
    """returns (real thunk, shadow thunk, dim | 'dimerr' | None, mag, linear, text)"""
    UN, convert_pbox, Pbox, Interval, pint = _mods()
    kind = step[0]
    zero = (F(0),) * 3
    if kind == "neg":
        a = pool[step[1]]
        return (lambda: -a.obj), (lambda: -a.shadow), a.dim, -a.mag, a.linear, f"-({a.text})"
    op = step[1]
    f = OPS[op]
    if kind == "UU":
        a, b = pool[step[2]], pool[step[3]]
        if op in ("add", "sub"):
            dim = a.dim if a.dim == b.dim else "dimerr"
        elif op == "mul":
            dim = tuple(x + y for x, y in zip(a.dim, b.dim))
        elif op == "div":
            dim = tuple(x - y for x, y in zip(a.dim, b.dim))
        else:
            dim = "dimerr" if b.dim != zero else (zero if a.dim == zero else (tuple(x * F(b.mag) for x in a.dim) if b.linear else None))
        try:
            mag = f(a.mag, b.mag)
        except Exception:
            mag = None
        return (lambda: f(a.obj, b.obj)), (lambda: f(convert_pbox(a.shadow), convert_pbox(b.shadow))), dim, mag, \
            (a.linear and b.linear and op in ("add", "sub")), f"({a.text}) {SYM[op]} ({b.text})"
    if kind == "Uc":
        a, c = pool[step[2]], step[3]
        dim = a.dim if op in ("add", "sub", "mul", "div") else tuple(x * F(c) for x in a.dim)
        try:
            mag = f(a.mag, c)
        except Exception:
            mag = None
        return (lambda: f(a.obj, c)), (lambda: f(a.shadow, c)), dim, mag, (a.linear and op in ("add", "sub", "mul", "div")), f"({a.text}) {SYM[op]} {c!r}"
    if kind == "cU":
        c, a = step[2], pool[step[3]]
        if op in ("add", "sub", "mul"):
            dim = a.dim
        elif op == "div":
            dim = tuple(-x for x in a.dim)
        else:
            dim = zero if a.dim == zero else "dimerr"
        try:
            mag = f(c, a.mag)
        except Exception:
            mag = None

        def sh():
            if op in ("add", "mul"):
                return f(a.shadow, c)            # c + U := U + c, c * U := U * c
            base = a.shadow if (isinstance(a.shadow, Interval) and op != "pow") else convert_pbox(a.shadow)
            return f(c, base)
        return (lambda: f(c, a.obj)), sh, dim, mag, (a.linear and op in ("add", "sub", "mul")), f"{c!r} {SYM[op]} ({a.text})"
    raise ValueError(step)


def _random_step(rng, pool):
    zero = (F(0),) * 3
    for _ in range(30):
        r = rng.random()
        i = rng.randrange(len(pool))
        a = pool[i]
        sa = _sign(a.shadow)
        if r < 0.22:
            return ("neg", i)
        if r < 0.5:
            j = rng.randrange(len(pool))
            b = pool[j]
            sb = _sign(b.shadow)
            op = rng.choice(["add", "sub", "add", "sub", "mul", "div", "pow"])
            if op in ("add", "sub") and a.dim != b.dim and rng.random() < 0.8:
                continue
            if op == "mul" and "str" in (sa, sb) and not (isinstance(a.shadow, _mods()[3]) and isinstance(b.shadow, _mods()[3])):
                continue
            if op == "div" and (sb == "str" or sa == "str"):
                continue
            if op == "pow":
                bl, bh = bounds(b.shadow)
                al, ah = bounds(a.shadow)
                if sa != "pos" or sb != "pos" or max(bh) > 3 or max(ah) > 50 or min(al) < 0.05 or b.dim != zero:
                    continue
                if a.dim != zero and not b.linear:
                    continue
            return ("UU", op, i, j)
        c = rng.choice([2, 3, -1, 0.5, 10, -2.5, 4.0, 1])
        if r < 0.75:
            op = rng.choice(["add", "sub", "mul", "div", "pow"])
            if op == "div" and c == 0:
                continue
            if op == "pow":
                c = rng.choice([2, 3, -1, 0.5])
                al, ah = bounds(a.shadow)
                if sa != "pos" or max(ah) > 50 or min(al) < 0.05:
                    continue
                if isinstance(a.shadow, _mods()[3]) and not isinstance(c, int):
                    continue
            return ("Uc", op, i, c)
        op = rng.choice(["add", "sub", "sub", "mul", "div", "div", "pow"])
        if op == "div" and sa == "str":
            continue
        if op == "pow":
            c = rng.choice([2, 3.0, 1.5])
            al, ah = bounds(a.shadow)
            if a.dim != zero or max(ah) > 8 or min(al) < -8:
                continue
        return ("cU", op, c, i)
    return ("neg", 0)


FIXED_HISTORIES = [
    # (operands, steps) ; pool indices: 0..k-1 the operands, then the results in order
    ("neg-after-use", [("I", [1, 2], "m"), ("I", [10, 20], "m")], [("UU", "add", 0, 1), ("neg", 0), ("UU", "add", 3, 1), ("UU", "sub", 1, 3), ("cU", "sub", 10, 3), ("UU", "mul", 3, 1)]),
    ("neg-after-use", [("D", ["uniform", (2, 4)], "s"), ("D", ["uniform", (1, 3)], "s")], [("UU", "add", 0, 1), ("neg", 0), ("cU", "sub", 10, 3), ("UU", "add", 3, 1), ("cU", "div", 2, 3)]),
    ("neg-after-use", [("P", ["uniform", ([1, 2], [3, 4])], None), ("S", ([[1, 5], [3, 6]], [0.5, 0.5]), None)], [("cU", "sub", 7, 0), ("neg", 0), ("UU", "add", 3, 1), ("cU", "sub", 1, 3), ("UU", "sub", 1, 3)]),
    ("neg-after-use", [("S", ([[1, 5], [3, 6]], [0.5, 0.5]), "kg"), ("I", [2, 3], "kg")], [("UU", "mul", 0, 1), ("cU", "div", 2, 0), ("neg", 0), ("UU", "add", 4, 1), ("neg", 4), ("UU", "sub", 6, 0)]),
    ("exponent-by-reflected-sub", [("I", [2, 3], "m"), ("I", [0.5, 1.5], None)], [("cU", "sub", 3, 1), ("UU", "pow", 0, 2), ("Uc", "sub", 1, 3), ("neg", 4), ("UU", "pow", 0, 5)]),
    ("exponent-by-reflected-sub", [("P", ["uniform", ([1, 2], [3, 4])], "s"), ("I", [0.25, 0.75], "dimensionless")], [("cU", "sub", 2, 1), ("UU", "pow", 0, 2), ("cU", "sub", 1, 1), ("UU", "pow", 0, 4)]),
    ("exponent-by-reflected-sub", [("I", [1, 2], "kg*m/s**2"), ("I", [1, 2], None)], [("cU", "sub", 4, 1), ("Uc", "mul", 2, 0.5), ("UU", "pow", 0, 3)]),
]


def history_stream(ctx):
    """theme A: an operand takes part in one operation and is then negated / reused in another; every real object is
    compared with an independent shadow when produced, all of them are re-read at the end of the history (operands
    unchanged, results unchanged) and the objects of the last histories are kept alive and re-read at the end of the
    stream.  A third of the histories run inside `with pba.dependency(d)`."""
    UN, convert_pbox, Pbox, Interval, pint = _mods()
    import pyuncertainnumber.pba as pba
    rng = ctx.rng
    alive = []
    scripts = [(name, [("U",) + o for o in opds], steps, "f") for name, opds, steps in FIXED_HISTORIES]
    for name, opds, steps in FIXED_HISTORIES[:4]:
        scripts.append((name, [("U",) + o for o in opds], steps, rng.choice("poi")))
    for _ in range(ctx.scale(70, 900)):
        k = rng.choice([2, 2, 3])
        opds = []
        for _ in range(k):
            e = rng.choice("IIDPS")
            sg = rng.choice(["pos", "pos", "pos", "neg", "str"]) if e == "I" else rng.choice(["pos", "pos", "neg"])
            u = rng.choice([None, None, "m", "m", "s", "kg", "m/s", "dimensionless"])
            opds.append(("U", e, pick(rng, e, (sg,))[1], u))
        if rng.random() < 0.5:
            opds[1] = opds[1][:3] + (opds[0][3],)
        scripts.append(("random", opds, None, rng.choice("fffpoi")))
    for name, opds, steps, dep in scripts:
        case = {"stream": "history", "name": name, "dependency": dep, "operands": [describe_opd(o) for o in opds], "steps": []}
        with warnings.catch_warnings():
            warnings.simplefilter("ignore")
            with pba.dependency(dep):
                pool = []
                for n_, o in enumerate(opds):
                    obj, ref = build(o), build(o)
                    nd = _Node(obj, ref.construct, tuple(F(x) for x in UNITS[o[3]]), float(ref.physical_quantity.magnitude),
                               o[1] == "I", f"{'UVW'[n_]}[{o[1]} {o[2]} {o[3]}]")
                    pool.append(nd)
                    _verify(ctx, nd, case, "operand as built", check_mag=False)
                nsteps = len(steps) if steps is not None else rng.randint(3, 6)
                ok = True
                for t in range(nsteps):
                    step = steps[t] if steps is not None else _random_step(rng, pool)
                    case["steps"].append(list(step))
                    real, shadow, dim, mag, linear, text = _apply(step, pool)
                    ctx.count(("history", name, dep, repr(opds), repr(case["steps"])), True, "history")
                    try:
                        S = shadow()
                        bounds(S)
                        serr = None
                    except BaseException as e:  # noqa
                        serr = ekind(e)
                    try:
                        R = real()
                        rerr = None
                    except BaseException as e:  # noqa
                        rerr = ekind(e)
                    feat = {"form": "history", "when": "produced", "call": "UncertainNumber operators in sequence", "op": step[1] if step[0] != "neg" else "neg"}
                    if serr is not None:
                        if rerr is None:
                            ctx.fail(dict(feat, symptom="value-where-construct-raises"), dict(case), f"{text}: the constructs raise {serr}, the operator returns a value")
                        break
                    if dim == "dimerr":
                        if rerr != "Dimensionality":
                            ctx.fail(dict(feat, check="unit", symptom="value" if rerr is None else "raises:" + rerr), dict(case), f"{text}: incompatible dimensions must be an error, got {rerr or 'a value'}")
                        continue
                    if rerr is not None:
                        ctx.fail(dict(feat, symptom="raises:" + rerr), dict(case), f"{text}: raises {rerr}; the same operations on the constructs succeed")
                        break
                    nd = _Node(R, S, dim, mag, linear, text)
                    if not _verify(ctx, nd, dict(case), "produced"):
                        ok = False
                        break
                    pool.append(nd)
                # re-read everything: operands unchanged, earlier results unchanged
                if ok:
                    for nd in pool:
                        before = nd.canon
                        if not _verify(ctx, nd, dict(case), "re-read at the end of the history", check_mag=False):
                            break
                        if before is not None and before != nd.canon:
                            ctx.fail({"form": "history", "when": "re-read", "check": "changed"}, dict(case), f"{nd.text}: the object changed after later operations")
                            break
        alive.append((pool, case))
        if len(alive) > 40:
            alive.pop(0)
    for pool, case in alive:
        for nd in pool:
            if nd.canon is not None:
                before = nd.canon
                with warnings.catch_warnings():
                    warnings.simplefilter("ignore")
                    if not _verify(ctx, nd, dict(case), "re-read at the end of the stream", check_mag=False) or before != nd.canon:
                        break
        # caller-visible aliasing: no result is an operand object or shares memory with one; overwriting the operands'
        # buffers in place afterwards must not change any earlier result
        nb = len(case["operands"])
        bases, derived = pool[:nb], [nd for nd in pool[nb:] if nd.canon is not None]
        bad = None
        for nd in derived:
            for b in bases:
                if nd.obj is b.obj or nd.obj.construct is b.obj.construct:
                    bad = f"{nd.text}: the result is the operand object itself"
                for arr_r in _buffers(nd.obj.construct):
                    for arr_b in _buffers(b.obj.construct):
                        if np.shares_memory(arr_r, arr_b):
                            bad = f"{nd.text}: the result shares memory with the operand {b.text}"
        for b in bases:
            for arr in _buffers(b.obj.construct):
                if arr.flags.writeable and arr.dtype.kind == "f":
                    arr[...] = arr + 5.0
        for nd in derived:
            with warnings.catch_warnings():
                warnings.simplefilter("ignore")
                now = canon(nd.obj)
            if now[:5] != nd.canon[:5]:
                bad = f"{nd.text}: the result changed after the operands' arrays were overwritten in place"
        ctx.bump("history:alias-checked", len(derived))
        if bad:
            ctx.fail({"form": "history", "when": "aliasing", "check": "alias", "call": "UncertainNumber operators in sequence"}, dict(case), bad)


def hist_tie_stream(ctx):
    """tie of `Pun.UN.runHist`: a chain of operators (acc op c, c op acc, acc op acc, -acc) on one uncertain number, the real
    chain against the model's final term (evaluated by the construct library on a separately built construct), dimension,
    class and magnitude; the model is run with the coded table and with the specified table (theorem hist_spec)."""
    UN, convert_pbox, Pbox, Interval, pint = _mods()
    rng = ctx.rng
    jobs, reqs = [], []
    for _ in range(ctx.scale(120, 1500)):
        e = rng.choice("IIDPS")
        d = ("U", e, pick(rng, e, ("pos",))[1], rng.choice([None, None, "m", "s", "kg", "m/s"]))
        steps, toks = [], []
        neg = False
        for _ in range(rng.randint(2, 5)):
            r = rng.random()
            if neg:                      # bring a negated number back: c - acc
                c = rng.choice([1, 2.5, 10])
                steps.append(("L", "sub", c)); toks += ["L", "sub", q(c)]; neg = False
            elif r < 0.3:
                op = rng.choice(["add", "mul", "div", "sub"])
                c = rng.choice([2, 0.5, 3, 1.25]) if op != "sub" else rng.choice([-1, -2.5])
                steps.append(("R", op, c)); toks += ["R", op, q(c)]
            elif r < 0.55:
                op = rng.choice(["add", "mul", "div"])
                c = rng.choice([2, 0.5, 3, 10])
                steps.append(("L", op, c)); toks += ["L", op, q(c)]
            elif r < 0.7:
                op = rng.choice(["add", "mul", "div"])
                steps.append(("S", op)); toks += ["S", op]
            elif r < 0.8:
                steps.append(("R", "pow", 2)); toks += ["R", "pow", "2"]
            elif r < 0.87 and not steps:        # only on the small original operand (2 ** large overflows in the construct library)
                steps.append(("L", "pow", 2)); toks += ["L", "pow", "2"]
            else:
                steps.append(("G",)); toks += ["G"]; neg = True
        obj, ref = build(d), build(d)
        jobs.append((d, steps, obj, ref))
        reqs.append(f"hist code {wire_opd(d, obj)} " + " ".join(toks))
    code = core.model_batch("C15", reqs)
    spec = core.model_batch("C15", [r.replace("hist code", "hist spec", 1) for r in reqs])
    for (d, steps, obj, ref), rep, srep in zip(jobs, code, spec):
        case = {"stream": "hist-tie", "U": describe_opd(d), "steps": [list(s_) for s_ in steps]}
        ctx.count(("hist-tie", repr(d), repr(steps)), True, "hist-tie")
        if rep != srep:
            ctx.tie_bad("hist-tie:spec-vs-code", case, rep, srep)
        try:
            with warnings.catch_warnings():
                warnings.simplefilter("ignore")
                acc = obj
                for st in steps:
                    if st[0] == "R":
                        acc = OPS[st[1]](acc, st[2])
                    elif st[0] == "L":
                        acc = OPS[st[1]](st[2], acc)
                    elif st[0] == "S":
                        acc = OPS[st[1]](acc, acc)
                    else:
                        acc = -acc
            impl = canon(acc)
        except BaseException as e:  # noqa
            impl = ("err", ekind(e))
        t = rep.split()
        if t[0] == "err":
            exp = ("err", t[1])
        else:
            try:
                with warnings.catch_warnings():
                    warnings.simplefilter("ignore")
                    l, h = bounds(_eval_hist_term(_P(t[1]).term(), ref.construct))
                exp = ("ok", l, h, tuple(unq(x) for x in t[2:5]), t[1], t[5], unq(t[6]))
            except BaseException as e:  # noqa
                exp = ("err", ekind(e))
        if agrees(impl, exp):
            ctx.tie_ok()
        else:
            ctx.tie_bad("hist-tie", case, short(impl), short_exp(exp))


def _eval_hist_term(t, A):
    UN, convert_pbox, Pbox, Interval, pint = _mods()
    head, a = t
    if head == "A":
        return A
    if head == "conv":
        return convert_pbox(_eval_hist_term(a[0], A))
    if head == "neg":
        return -_eval_hist_term(a[0], A)
    op = OPS[a[0][0]]
    num = lambda x: float(F(x[0])) if "/" in x[0] or "." in x[0] else int(x[0])
    if head == "cc":
        return op(_eval_hist_term(a[1], A), _eval_hist_term(a[2], A))
    if head == "cn":
        c = F(a[2][0])
        return op(_eval_hist_term(a[1], A), int(c) if c.denominator == 1 else float(c))
    if head == "nc":
        c = F(a[1][0])
        return op(int(c) if c.denominator == 1 else float(c), _eval_hist_term(a[2], A))
    raise ValueError(head)


# ---- numeric types of the plain-number operand (kind S) -------------------------------------------------
NUMPY_PLAIN = ("float16", "float32", "float64", "int32", "int64")


def numtype_stream(ctx):
    """a plain number given as numpy scalar (float16/32/64, int32/64, longdouble), Fraction, or an int beyond 2**53 must
    give what the same VALUE as python float/int gives (float64 computation); types the library does not accept at all
    (Fraction / Decimal / longdouble with an interval) are not judged, numpy's own float/int scalars are."""
    UN, convert_pbox, Pbox, Interval, pint = _mods()
    from fractions import Fraction
    rng = ctx.rng
    consts = [np.float32(0.1), np.float16(0.3), np.float64(2.5), np.int32(3), np.int64(-2), np.longdouble(0.1), Fraction(1, 3), 2 ** 60 + 1,
              np.float64(2.0), np.float32(2.0)]
    for e in "IDPS":
        for c in consts:
            for op, side in [("add", "r"), ("mul", "r"), ("sub", "l"), ("div", "l"), ("mul", "l"), ("sub", "r"), ("div", "r"), ("pow", "r")]:
                if op == "pow" and (float(c) != 2.0 or (e == "I" and not isinstance(c, (int, np.integer)))):
                    continue            # Interval ** float is not implemented for python floats either
                kind = type(c).__name__
                if ctx.tier == "quick" and rng.random() < 0.4 and not (side == "l" and kind in NUMPY_PLAIN and op == "sub"):
                    continue
                d = ("U", e, pick(rng, e, ("pos",))[1], rng.choice(["m", "s", None]))
                plain = int(c) if isinstance(c, (int, np.integer)) else float(c)
                U1, U2 = build(d), build(d)
                f = OPS[op]
                got = run_impl(op, U1, c) if side == "r" else run_impl(op, c, U1)
                ref = run_impl(op, U2, plain) if side == "r" else run_impl(op, plain, U2)
                ctx.count(("numtype", kind, e, op, side, repr(d)), True, "numtype:" + kind)
                txt = f"{describe(op, d, ('N', c)) if side == 'r' else describe(op, ('N', c), d)} with the number given as {kind}"
                case = {"stream": "numtype", "numkind": kind, "op": op, "side": side, "U": describe_opd(d), "c": repr(c)}
                feat = {"form": "Uc" if side == "r" else "cU", "op": op, "numkind": kind, "less": e, "call": "UncertainNumber operator, typed number",
                        "symptom": ("raises:" + got[1]) if got[0] == "err" else "value"}
                if ref[0] != "ok":
                    continue
                if got[0] == "err":
                    if kind in NUMPY_PLAIN:
                        ctx.fail(feat, case, f"{txt}: raises {got[1]}; with the python number {plain!r} it works")
                    continue
                if got[1] != "un" or not same_bounds(got[2], got[3], ref[2], ref[3], exact=False, depth=4) or not same_dim(got[4], tuple(F(x) for x in ref[4])):
                    ctx.fail(dict(feat, check="value"), case, f"{txt}: {short(got)} differs from the float64 computation with {plain!r}: {short(ref)}")


# ---- process-wide state (kind P) and caller-visible aliasing (kind Q) ---------------------------------------
def global_state_stream(ctx):
    """the same operations under np.errstate(all='raise') and under warnings escalated to errors give the same value or
    raise — never another value; the dependency context, Params and the operands are unchanged afterwards."""
    UN, convert_pbox, Pbox, Interval, pint = _mods()
    import pyuncertainnumber.pba as pba
    from pyuncertainnumber.pba.params import Params
    from pyuncertainnumber.pba.context import get_current_dependency
    rng = ctx.rng
    jobs = []
    for _ in range(ctx.scale(60, 600)):
        e, e2 = rng.choice("IDPS"), rng.choice("IDPS")
        sg = rng.choice(["pos", "pos", "neg"])
        U = ("U", e, pick(rng, e, (sg,))[1], rng.choice(BASE_UNITS))
        op = rng.choice(list(OPS))
        form = rng.choice(["UU", "Uc", "cU", "neg"])
        if form == "UU":
            V = ("U", e2, pick(rng, e2, ("pos",))[1], U[3] if op in ("add", "sub") else (None if op == "pow" else rng.choice(BASE_UNITS)))
            if op == "pow":
                U = ("U", e, pick(rng, e, ("pos",))[1], U[3])
            jobs.append((op, U, V))
        elif form == "Uc":
            c = rng.choice([2, 0.5, -3]) if op != "pow" else 2
            if op == "pow":
                U = ("U", e, pick(rng, e, ("pos",))[1], U[3])
            jobs.append((op, U, ("N", c)))
        elif form == "cU":
            if op == "pow":
                U = ("U", e, pick(rng, e, ("pos",))[1], None)
            jobs.append((op, ("N", rng.choice([2, 3.0, 10])), U))
        else:
            jobs.append(("neg", U, None))
    # tiny operands with zero nominal value: inf magnitudes / RuntimeWarnings are produced here
    for e in "DPS":
        k = 1e-4
        par = {"D": ["uniform", (k, 3 * k)], "P": ["uniform", ([k, 2 * k], [3 * k, 4 * k])], "S": ([[k, 3 * k], [2 * k, 4 * k]], [0.5, 0.5])}[e]
        jobs.append(("div", ("N", 3), ("U", e, par, "s")))
        jobs.append(("div", ("U", "I", [1, 2], "m"), ("U", e, par, "s")))
    for op, dl, dr in jobs:
        case = {"stream": "global-state", "op": op, "l": dl, "r": dr}
        ctx.count(("gstate", op, repr(dl), repr(dr)), True, "global-state")
        L0, R0 = build(dl), (build(dr) if dr is not None else None)
        base = run_impl(op, L0, R0)
        snap = [canon(x) if isinstance(x, UN) else x for x in (L0, R0)]
        dep0, steps0 = get_current_dependency(), Params.steps
        for mode in ("errstate", "warnings"):
            L, R = build(dl), (build(dr) if dr is not None else None)
            before = [canon(x) if isinstance(x, UN) else x for x in (L, R)]
            try:
                if mode == "errstate":
                    with np.errstate(all="raise"):
                        got = _raw(op, L, R)
                else:
                    with warnings.catch_warnings():
                        warnings.simplefilter("error")
                        got = _raw(op, L, R)
            finally:
                pass
            feat = {"form": "global-state", "mode": mode, "op": op, "call": "UncertainNumber operator under " + mode,
                    "symptom": ("raises:" + got[1]) if got[0] == "err" else "value"}
            after = [canon(x) if isinstance(x, UN) else x for x in (L, R)]
            if after != before:
                ctx.fail(dict(feat, check="operands-changed"), case, f"{describe(op, dl, dr)} under {mode}: an operand was modified")
            if get_current_dependency() != dep0 or Params.steps != steps0:
                ctx.fail(dict(feat, check="state-leaked"), case, f"{describe(op, dl, dr)} under {mode}: ambient dependency / Params changed")
            if got[0] == "err":
                continue                      # an escalated warning / FloatingPointError propagating is acceptable
            if base[0] != "ok" or got[:5] != base[:5]:
                ctx.fail(dict(feat, check="value"), case, f"{describe(op, dl, dr)}: under {mode} the result is {short(got)}, under the default settings {short(base)}")


def _raw(op, L, R):
    try:
        return canon(-L) if op == "neg" else canon(OPS[op](L, R))
    except BaseException as e:  # noqa
        return ("err", ekind(e))


def describe_opd(d):
    return {"essence": d[1], "params": d[2], "unit": d[3]}


def short_exp(exp):
    if exp[0] == "ok":
        return f"{exp[4]} [{exp[1][0]:.4g}..],[..{exp[2][-1]:.4g}] dim={tuple(float(x) for x in exp[3])}"
    return list(exp)


def replay(obj):
    c = obj.get("case", {})
    if "op" not in c:
        print(core.json.dumps(obj, indent=1))
        return 0
    core.stub_moments()
    tup = lambda d: None if d is None else tuple(d)
    op, dl, dr = c["op"], tup(c["l"]), tup(c["r"])
    Lobj, Robj = build(dl), (build(dr) if dr is not None else None)
    impl = run_impl(op, Lobj, Robj)
    req = ("neg " + wire_opd(dl, Lobj)) if op == "neg" else f"bin code {op} {wire_opd(dl, Lobj)} {wire_opd(dr, Robj)}"
    rep = core.model_batch("C15", [req])[0]
    print("case  :", describe(op, dl, dr))
    print("impl  :", short(impl))
    print("model :", rep)
    ctx = core.Check("C15", "quick", 0)
    oracle(ctx, c, op, dl, dr, Lobj, Robj, impl)
    for f in ctx.failures:
        print("oracle:", f["what"])
    for k in ctx.known_hit.values():
        print("oracle: known finding", k["k"]["id"])
    return 0
