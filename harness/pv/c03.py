"""C03 — perfect / opposite / independent p-box arithmetic match their random-set meaning.

oracle : build the random set explicitly with exact interval arithmetic on the focal steps:
         perfect  : focal pairs (X_k, Y_k)      -> sorted lower / upper endpoints == result bounds
         opposite : focal pairs (X_k, Y_{n-1-k})
         sub/div  : same pairing of the *original* second operand (the p<->o swap undoes the mirroring of -Y, 1/Y)
         independent : all n*n pairs; result step k must lie in the k-th block of n sorted endpoints
"""
from __future__ import annotations
import itertools
from fractions import Fraction as F
from . import core, pbx
from .pbx import fr
from .c02 import impl_public, recheck_kept, strict_mode_check


def impl_raw(rule, op, x, y):
    from pyuncertainnumber.pba import operation as O
    fn = {"perfect": O.perfect_op, "opposite": O.opposite_op, "independent": O.independent_op}[rule]
    try:
        return pbx.canon_pair(fn(pbx.duck(*x), pbx.duck(*y), pbx.PYOPS[op]))
    except BaseException as e:  # noqa
        return ("err", core.err_kind(e))


def focal_pairs(dep, n):
    if dep in ("p", "perfect"):
        return [(k, k) for k in range(n)]
    if dep in ("o", "opposite"):
        return [(k, n - 1 - k) for k in range(n)]
    return [(j, k) for j in range(n) for k in range(n)]


def random_set(dep, op, x, y):
    """sorted lower and upper endpoints of the combined focal intervals (exact); None if a divisor holds 0"""
    l1, r1, l2, r2 = fr(x[0]), fr(x[1]), fr(y[0]), fr(y[1])
    lo, hi = [], []
    for j, k in focal_pairs(dep, len(l1)):
        h = pbx.ivl_hull(op, l1[j], r1[j], l2[k], r2[k])
        if h is None:
            return None
        lo.append(h[0]); hi.append(h[1])
    return sorted(lo), sorted(hi)


def check(dep, op, x, y, res):
    rs = random_set(dep, op, x, y)
    if rs is None:
        return None
    L, U = rs
    resL, resR = fr(res[1]), fr(res[2])
    n = len(x[0])
    scale = max([abs(v) for v in L + U] + [1])
    eq = lambda a, b: pbx.tol_le(a, b, scale) and pbx.tol_le(b, a, scale)
    if len(resL) != n or len(resR) != n:
        return {"why": "length", "len": len(resL)}
    if dep in ("p", "o", "perfect", "opposite"):
        for k in range(n):
            if not eq(resL[k], L[k]):
                return {"why": "left", "step": k, "reported": float(resL[k]), "random_set": float(L[k])}
            if not eq(resR[k], U[k]):
                return {"why": "right", "step": k, "reported": float(resR[k]), "random_set": float(U[k])}
    else:
        for k in range(n):
            if not (pbx.tol_le(L[k * n], resL[k], scale) and pbx.tol_le(resL[k], L[k * n + n - 1], scale)):
                return {"why": "left-block", "step": k, "reported": float(resL[k]), "block": [float(L[k * n]), float(L[k * n + n - 1])]}
            if not (pbx.tol_le(U[k * n], resR[k], scale) and pbx.tol_le(resR[k], U[k * n + n - 1], scale)):
                return {"why": "right-block", "step": k, "reported": float(resR[k]), "block": [float(U[k * n]), float(U[k * n + n - 1])]}
    return None


def gen_cases(ctx):
    rng = ctx.rng
    cases = []
    signs = ["pos", "neg", "str", None, "pos0", "neg0"]
    for n in (1, 2):
        bs = pbx.small_boxes(n)
        pairs = list(itertools.product(bs, bs))
        rng.shuffle(pairs)
        for x, y in pairs[: ctx.scale(400, 6000)]:
            for rule in ("perfect", "opposite", "independent"):
                cases.append(("raw-small", rule, rng.choice(["add", "mul"]), x, y))
    for _ in range(ctx.scale(900, 30000)):
        n = rng.choice([3, 3, 4, 5, 6])
        rule = rng.choice(["perfect", "opposite", "independent"])
        op = rng.choice(["add", "mul"])
        cases.append(("raw-small", rule, op, pbx.rand_small_box(rng, n, sign=rng.choice(signs)),
                      pbx.rand_small_box(rng, n, sign=rng.choice(signs))))
    for _ in range(ctx.scale(45, 1500)):
        op = rng.choice(["add", "sub", "mul", "div"])
        dep = rng.choice(["p", "o", "i"])
        sx, sy = rng.choice(signs), rng.choice(signs)
        if op == "div" and sy in ("str", None, "pos0", "neg0"):
            sy = rng.choice(["pos", "neg"])
        cases.append(("public-int", dep, op, pbx.int_box200(rng, sx), pbx.int_box200(rng, sy)))
    # second operand handed over as an Interval OBJECT (every sign class, incl. straddling x straddling)
    for _ in range(ctx.scale(36, 600)):
        op = rng.choice(["add", "sub", "mul", "mul", "mul", "div"])
        dep = rng.choice(["p", "o", "i"])
        lo = rng.choice([-3, -2, -1, 0, 1, 2]); hi = lo + rng.choice([0, 1, 2, 3])
        if op == "div" and lo <= 0 <= hi:
            lo, hi = 1, 1 + (hi - lo)
        cases.append(("public-ivlobj", dep, op, pbx.int_box200(rng, rng.choice(signs)), ([lo] * 200, [hi] * 200)))
    # the same integer step boxes at other magnitudes (powers of two: still exact): products of order 1e-14, 1e-30,
    # 1e+20 — an absolute tolerance / "snap to zero" anywhere in the pipeline is wrong there
    for _ in range(ctx.scale(36, 600)):
        op = rng.choice(["add", "sub", "mul", "mul", "div"])
        dep = rng.choice(["p", "o", "i"])
        sx, sy = rng.choice(signs), rng.choice(signs)
        if op == "div" and sy in ("str", None, "pos0", "neg0"):
            sy = rng.choice(["pos", "neg"])
        s1, s2 = (rng.choice([2.0 ** -30, 2.0 ** -24, 2.0 ** -60, 2.0 ** 36]) for _ in range(2))
        if op in ("add", "sub"):
            s2 = s1
        x, y = pbx.int_box200(rng, sx), pbx.int_box200(rng, sy)
        cases.append(("public-scaled", dep, op, ([v * s1 for v in x[0]], [v * s1 for v in x[1]]),
                      ([v * s2 for v in y[0]], [v * s2 for v in y[1]])))
    # integer-dtype bounds (Staircase(left=[ints], …), pba.min_max(2, 5)): integer reciprocals / truncation
    for _ in range(ctx.scale(18, 400)):
        op = rng.choice(["div", "div", "mul", "add", "sub"])
        dep = rng.choice(["p", "o", "i"])
        sx, sy = rng.choice(signs), rng.choice(["pos", "neg"])
        cases.append(("public-intdtype", dep, op, pbx.int_box200(rng, sx), pbx.int_box200(rng, sy)))
    for _ in range(ctx.scale(20, 500)):
        op = rng.choice(["add", "sub", "mul", "div"])
        dep = rng.choice(["p", "o", "i"])
        sx, sy = rng.choice(signs), rng.choice(signs)
        if op == "div" and sy in ("str", None, "pos0", "neg0"):
            sy = rng.choice(["pos", "neg"])
        l1, r1, k1 = pbx.lib_box200(rng, sx)
        l2, r2, k2 = pbx.lib_box200(rng, sy)
        cases.append(("public-lib", dep, op, (l1, r1), (l2, r2)))
    return cases


def reuse_stream(ctx):
    """A SEQUENCE: one long-lived dividend, divisors that are built, used once and dropped (so a later divisor is
    allocated where an earlier one lived).  Every division must be the random-set result of ITS OWN operands —
    catches memoisation keyed by id(obj) and other state carried from one call to the next."""
    import gc, warnings
    rng = ctx.rng
    X = pbx.stair(*pbx.int_box200(rng, "pos"))
    x = ([float(v) for v in X.left], [float(v) for v in X.right])
    for it in range(ctx.scale(60, 300)):
        dep = rng.choice(["p", "o"])
        op = rng.choice(["div", "div", "mul"])
        y = pbx.int_box200(rng, rng.choice(["pos", "neg"]))
        ctx.count(("reuse", it, dep, op, y), True, "public-reuse")
        try:
            with warnings.catch_warnings():
                warnings.simplefilter("ignore")
                Y = pbx.stair(*y)
                r = getattr(X, op)(Y, dependency=dep)
            impl = pbx.canon_pb(r)
            del Y, r
        except BaseException as e:  # noqa
            impl = ("err", core.err_kind(e))
        gc.collect()
        feat = {"op": op, "dep": dep, "sx": "pos", "sy": pbx.sign_class(*y)[:3], "public": True, "n": 200}
        case = {"stream": "public-reuse", "iteration": it, "op": op, "dep": dep, "y": [y[0][0], y[0][-1], y[1][0], y[1][-1]], "impl": pbx.js(impl)}
        if impl[0] == "err":
            ctx.fail({**feat, "check": "raises", "symptom": "raises:" + impl[1]}, case, f"{op} under {dep} raised {impl[1]} in a sequence of calls")
            return
        w = check(dep, op, x, y, impl)
        if w is not None:
            ctx.fail({**feat, "check": "sequence-" + w["why"], "symptom": "random-set-mismatch"}, {**case, "witness": w},
                     f"call {it} of a sequence: {op} under {dep} is not the random-set result of its own operands (step {w.get('step')})")
            return


def isum_stream(ctx):
    """`isum([p1 … pk])` (independent sum of k operands, k = 2…7) is the left fold of the binary independent sum —
    every operand takes part, whatever k — and its support is the sum of the supports."""
    import warnings
    from pyuncertainnumber.pba.operation import isum
    rng = ctx.rng
    for it in range(ctx.scale(10, 80)):
        k = rng.choice([2, 3, 3, 4, 5, 6, 7])
        boxes = [pbx.int_box200(rng, rng.choice(["pos", "neg", "str", None])) for _ in range(k)]
        ctx.count(("isum", it, k, tuple(b[0][0] for b in boxes)), True, "public-isum")
        feat = {"op": "isum", "dep": "i", "sx": "-", "sy": "-", "public": True, "n": 200}
        case = {"stream": "public-isum", "k": k, "operands": [[b[0][0], b[0][-1], b[1][0], b[1][-1]] for b in boxes]}
        try:
            with warnings.catch_warnings():
                warnings.simplefilter("ignore")
                ps = [pbx.stair(*b) for b in boxes]
                got = pbx.canon_pb(isum(ps))
                ref = ps[0]
                for p in ps[1:]:
                    ref = ref.add(p, dependency="i")
                ref = pbx.canon_pb(ref)
        except BaseException as e:  # noqa
            ctx.fail({**feat, "check": "raises", "symptom": "raises:" + core.err_kind(e)}, case, f"isum of {k} p-boxes raised {core.err_kind(e)}")
            return
        lo, hi = sum(b[0][0] for b in boxes), sum(b[1][-1] for b in boxes)
        if got[0] != "ok" or got != ref or got[1][0] != lo or got[2][-1] != hi:
            ctx.fail({**feat, "check": "isum-fold", "symptom": "random-set-mismatch"},
                     {**case, "support": [got[1][0], got[2][-1]] if got[0] == "ok" else pbx.js(got), "expected_support": [lo, hi]},
                     f"isum of {k} p-boxes is not the fold of the binary independent sum (support {got[1][0] if got[0]=='ok' else got}…, expected [{lo}, {hi}])")
            return


def wire(c):
    stream, rule, op, x, y = c
    if stream.startswith("public"):
        return f"bin {len(x[0])} {op} {rule} {pbx.wire_pb(*x)} {pbx.wire_pb(*y)}"
    return f"raw {rule} {op} {pbx.wire_pb(*x)} {pbx.wire_pb(*y)}"


def _gen_frechet():
    from .translator import frechet
    return frechet.generate(core.REPO, core.LEAN / "Pun/Gen/FrechetGen.lean")


def _gen_dispatch():
    from .translator import dispatch
    dispatch.generate(core.REPO, core.LEAN / "Pun/Gen/DispatchGen.lean")
    return "ok: dispatch tables and swap chains"


def _gen_corners():
    from .translator import frechet
    return frechet.generate_corners(core.REPO, core.LEAN / "Pun/Gen/CornersGen.lean")


def run(ctx: core.Check):
    core.stub_moments()
    ctx.rule = ("raw perfect/opposite/independent rules on duck-typed operands (5-value grid boxes n=1,2; random n=3..6, every sign class) "
                "and public add/sub/mul/div under p/o/i at n=200 (integer step boxes exact; library-constructor boxes). "
                "Non-trivial = not both operands degenerate points; distinct on (rule,op,operands).")
    ctx.assumptions = ["order of equal keys in numpy.sort is irrelevant to the sorted values",
                       "binary64 rounding not modelled (exact agreement on integer streams for + - *)"]
    ctx.lean_stage(["Pun.Lemmas.PBoxFrechet2", "Pun.Lemmas.PBoxRecip", "Pun.Props.C03", "Pun.Props.C02Gen", "Pun.Props.C03Gen", "Pun.Props.C16Gen"],
                   generators=[("operation.frechet_op loop", _gen_frechet), ("operation.perfect/opposite/independent_op corner rules", _gen_corners),
                               ("pbox_abc.py dependency dispatch and the p<->o swap of sub/div", _gen_dispatch)])
    cases = gen_cases(ctx)
    replies = core.model_batch("C03", [wire(c) for c in cases])
    for c, rep in zip(cases, replies):
        stream, rule, op, x, y = c
        n = len(x[0])
        triv = (n == 1 and x[0] == x[1] and y[0] == y[1])
        ctx.count((rule, op, x, y), not triv, stream)
        ctx.bump(f"dep:{rule[0]}")
        ctx.bump("signs:" + pbx.sign_class(*x)[:3] + "x" + pbx.sign_class(*y)[:3])
        public = stream.startswith("public")
        exact = (not public) or (stream in ("public-int", "public-intdtype", "public-ivlobj", "public-scaled") and op != "div")
        impl = impl_public(op, rule, x, y, bare=False, int_dtype=(stream == "public-intdtype"),
                           y_interval=(stream == "public-ivlobj")) if public else impl_raw(rule, op, x, y)
        if public:
            strict_mode_check(ctx, "C03", stream, op, rule, x, y, impl,
                              lambda: impl_public(op, rule, x, y, bare=False, int_dtype=(stream == "public-intdtype"), keep=False,
                                                  y_interval=(stream == "public-ivlobj"), wmode="error"))
        model = pbx.parse_reply(rep)
        if pbx.same(impl, model, exact):
            ctx.tie_ok()
        else:
            ctx.tie_bad(stream, {"rule": rule, "op": op, "x": x, "y": y}, pbx.js(impl), pbx.js(model))
        feat = {"op": op, "dep": rule[0], "sx": pbx.sign_class(*x)[:3], "sy": pbx.sign_class(*y)[:3], "public": public, "n": n}
        case = {"rule": rule, "op": op, "x": x if n <= 8 else [x[0][0], x[0][-1], x[1][0], x[1][-1]],
                "y": y if n <= 8 else [y[0][0], y[0][-1], y[1][0], y[1][-1]], "n": n, "impl": pbx.js(impl), "stream": stream}
        ctx.sample({"stream": stream, "rule": rule, "op": op, "n": n, "impl": pbx.js(impl)})
        if impl[0] == "err":
            if op == "div" and not (min(y[0]) > 0 or max(y[1]) < 0):
                continue
            ctx.fail({**feat, "check": "raises", "symptom": "raises:" + impl[1]}, case,
                     f"{op} under {rule} raised {impl[1]} on well-formed operands")
            continue
        if not public and rule == "independent":
            # the raw rule returns n*n sorted endpoints; the constructor condenses them
            rs = random_set("i", op, x, y)
            if rs is not None:
                L, U = rs
                if [F(v) for v in impl[1]] != L or [F(v) for v in impl[2]] != U:
                    ctx.fail({**feat, "check": "independent-raw", "symptom": "wrong-endpoints"}, case,
                             "raw independent rule does not return the sorted endpoints of the n*n interval combinations")
            continue
        w = check(rule, op, x, y, impl)
        if w is not None:
            ctx.fail({**feat, "check": w["why"], "symptom": "random-set-mismatch"}, {**case, "witness": w},
                     f"{op} under {rule}: result step {w.get('step')} ({w['why']}) is {w.get('reported')}, random-set value {w.get('random_set', w.get('block'))}")
    reuse_stream(ctx)
    isum_stream(ctx)
    recheck_kept(ctx, "C03")
