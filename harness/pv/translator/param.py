"""Translator: pba/pbox_parametric.py (+ pba/params.py via grid.py)  ->  lean/Pun/Gen/ParamGen.lean     (property C09)

Re-extracted from the source on every run and proved equal to the hand model in Props/C09Gen.lean:
  cornersGen      how the corner set of the parameter box is enumerated
  paramBoundsGen  which reduction over the corner quantile functions gives the left / the right bound
  levelsGen       the probability levels the quantile functions are evaluated at
  callGen         how a corner is split into positional and keyword arguments for scipy
  momentsGen      the mean / variance intervals handed to the constructor and the guard in front of them
  leafWiring      which of the four results goes to which keyword of `Leaf(...)`; wrapperPassesAll

ONE recognised form (local variable names are free, they are resolved by what they are assigned from; comments,
docstrings, imports and blank lines are ignored).  `_parametric_bounds_array(dist_family, *args, **kwargs)`:

    P  = [wc_scalar_interval(b) for b in args]
    N  = list(kwargs.keys())
    K  = [wc_scalar_interval(v) for v in kwargs.values()]
    n  = len(P)
    C  = itertools.product|zip(*[i.to_numpy() | i.to_numpy()[:1] | i.to_numpy()[1:]  for i in  P + K | K + P | P | K])
    def kwf(a): return dict(zip(N, a[n:]))   |   return {k: v for k, v in zip(N, a[n:]) if v}
    D  = named_dists[dist_family]
    g1, g2 = itertools.tee(C, 2)                                   (optional; C itself may be used)
    B  = [D.ppf(<levels>, *a[:n], **kwf(a)) for a in g1]            <levels> = Params.p_values | np.linspace(c, c, Params.steps)
    S  = [D.stats(*a[:n], **kwf(a), moments="mv") for a in g2]
    M, V = zip(*S)
    L  = np.min|max|nanmin|nanmax(B, axis=0) ;  R = likewise
    lo, hi = <L|R>[0|-1], <L|R>[0|-1]
    mom = np.array([*M, *V], dtype=float)
    if np.all(np.isfinite(mom)) and <cmp> and <cmp> and ... :       <cmp> over lo, hi, min(M), max(M), min(V), max(V), + - * / ** 2, constants
        mean = I(min|max(M), min|max(M)) ; var = I(min|max(V), min|max(V))
    else:
        mean, var = None, None
    return L, R, mean, var

`_bound_pcdf`:  `a, b, c, d = _parametric_bounds_array(dist_family, *args, **kwargs)` ; `return Leaf(left=.., right=.., mean=.., var=.., ...)`;
`makePbox.wrapper_decorator`: `return _bound_pcdf(family_str, *args, **kwargs)`.
Anything else raises Unavailable (recorded in the evidence, no alarm by itself; the tie and the oracle still run).
"""
import ast, pathlib
from fractions import Fraction


class Unavailable(Exception):
    pass


def _u(e):
    return ast.unparse(e).replace(" ", "")


def _is_call(e, name):
    """name like 'itertools.product' / 'len' / 'np.min'"""
    return isinstance(e, ast.Call) and _u(e.func) in ((name,) if isinstance(name, str) else name)


def _fn(tree, name, inside=None):
    body = tree.body
    if inside:
        outer = next((n for n in body if isinstance(n, ast.FunctionDef) and n.name == inside), None)
        if outer is None:
            raise Unavailable(f"{inside} not found")
        body = outer.body
    f = next((n for n in body if isinstance(n, ast.FunctionDef) and n.name == name), None)
    if f is None:
        raise Unavailable(f"{name} not found")
    return f


def _wc_comp(e, over):
    """[wc_scalar_interval(x) for x in <over>]"""
    return (isinstance(e, ast.ListComp) and len(e.generators) == 1 and not e.generators[0].ifs
            and isinstance(e.generators[0].target, ast.Name) and _u(e.generators[0].iter) == over
            and _is_call(e.elt, "wc_scalar_interval") and len(e.elt.args) == 1 and not e.elt.keywords
            and _u(e.elt.args[0]) == e.generators[0].target.id)


class Ex:
    """extraction of `_parametric_bounds_array`"""

    def __init__(self, fn):
        a = fn.args
        if [x.arg for x in a.args] != ["dist_family"] or a.vararg is None or a.vararg.arg != "args" \
                or a.kwarg is None or a.kwarg.arg != "kwargs" or a.kwonlyargs or a.defaults:
            raise Unavailable("signature is not (dist_family, *args, **kwargs)")
        self.role = {}          # local name -> role
        self.out = {}
        for st in fn.body:
            self.stmt(st)
        need = ["corners", "kwfn", "levels", "ppf_pos", "stats", "left", "right", "support", "guard", "mean", "var", "ret"]
        miss = [k for k in need if k not in self.out]
        if miss:
            raise Unavailable("not found: " + ", ".join(miss))

    def name_of(self, role):
        return [k for k, v in self.role.items() if v == role]

    def r(self, e):
        return self.role.get(e.id) if isinstance(e, ast.Name) else None

    # ---- statements ------------------------------------------------------------------------------------
    def stmt(self, st):
        if isinstance(st, ast.Expr) and isinstance(st.value, ast.Constant) and isinstance(st.value.value, str):
            return
        if isinstance(st, (ast.Import, ast.ImportFrom)):
            return
        if isinstance(st, ast.FunctionDef):
            return self.kwfn(st)
        if isinstance(st, ast.If):
            return self.guard(st)
        if isinstance(st, ast.Return):
            v = st.value
            if not (isinstance(v, ast.Tuple) and len(v.elts) == 4 and all(isinstance(x, ast.Name) for x in v.elts)):
                raise Unavailable("return is not a 4-tuple of names")
            self.out["ret"] = [self.role.get(x.id) for x in v.elts]
            if None in self.out["ret"]:
                raise Unavailable("return of an unknown name")
            return
        if not (isinstance(st, ast.Assign) and len(st.targets) == 1):
            raise Unavailable("unexpected statement: " + ast.unparse(st)[:70])
        tgt, v = st.targets[0], st.value
        if isinstance(tgt, ast.Tuple):
            return self.tuple_assign(tgt, v)
        if not isinstance(tgt, ast.Name):
            raise Unavailable("unexpected target: " + ast.unparse(st)[:70])
        x = tgt.id
        if _wc_comp(v, "args"):
            self.role[x] = "pos"
        elif _wc_comp(v, "kwargs.values()"):
            self.role[x] = "kw"
        elif _u(v) == "list(kwargs.keys())":
            self.role[x] = "kwnames"
        elif _is_call(v, "len") and len(v.args) == 1 and self.r(v.args[0]) == "pos":
            self.role[x] = "npos"
        elif _is_call(v, ("itertools.product", "zip")):
            self.corners(x, v)
        elif _u(v) == "named_dists[dist_family]":
            self.role[x] = "dist"
        elif isinstance(v, ast.ListComp):
            self.comp(x, v)
        elif _is_call(v, ("np.min", "np.max", "np.nanmin", "np.nanmax")):
            if not (len(v.args) == 1 and self.r(v.args[0]) == "bounds" and [(k.arg, _u(k.value)) for k in v.keywords] == [("axis", "0")]):
                raise Unavailable("reduction is not np.<min|max>(bounds, axis=0)")
            side = "left" if "left" not in self.out else "right"
            self.out[side] = _u(v.func).split(".")[1]
            self.role[x] = side
        elif _is_call(v, "np.array") and _u(v) == "np.array([*%s,*%s],dtype=float)" % (self.one("means"), self.one("vars")):
            self.role[x] = "moments"
        else:
            raise Unavailable("unexpected assignment: " + ast.unparse(st)[:70])

    def one(self, role):
        n = self.name_of(role)
        if len(n) != 1:
            raise Unavailable(f"no unique name for {role}")
        return n[0]

    def tuple_assign(self, tgt, v):
        names = [e.id if isinstance(e, ast.Name) else None for e in tgt.elts]
        if None in names:
            raise Unavailable("tuple target")
        if _is_call(v, "itertools.tee") and len(v.args) == 2 and self.r(v.args[0]) == "corners" and _u(v.args[1]) == "2" and len(names) == 2:
            for n in names:
                self.role[n] = "corners"
        elif _is_call(v, "zip") and len(v.args) == 1 and isinstance(v.args[0], ast.Starred) and self.r(v.args[0].value) == "stats" and len(names) == 2:
            self.role[names[0]], self.role[names[1]] = "means", "vars"
        elif isinstance(v, ast.Tuple) and len(v.elts) == 2 and len(names) == 2 and all(isinstance(e, ast.Subscript) for e in v.elts):
            sup = []
            for e in v.elts:
                side, idx = self.r(e.value), _u(e.slice)
                if side not in ("left", "right") or idx not in ("0", "-1"):
                    raise Unavailable("support endpoint " + _u(e))
                sup.append((side, idx))
            self.out["support"] = sup
            self.role[names[0]], self.role[names[1]] = "lo", "hi"
        else:
            raise Unavailable("unexpected tuple assignment: " + _u(v)[:70])

    def corners(self, x, v):
        mode = "product" if _u(v.func) == "itertools.product" else "zip"
        if not (len(v.args) == 1 and isinstance(v.args[0], ast.Starred) and isinstance(v.args[0].value, ast.ListComp) and not v.keywords):
            raise Unavailable("corner enumeration is not f(*[... for i in ...])")
        c = v.args[0].value
        g = c.generators
        if not (len(g) == 1 and not g[0].ifs and isinstance(g[0].target, ast.Name)):
            raise Unavailable("corner comprehension")
        i = g[0].target.id
        elt = {f"{i}.to_numpy()": "endpoints", f"{i}.to_numpy()[:1]": "loOnly", f"{i}.to_numpy()[1:]": "hiOnly"}.get(_u(c.elt))
        if elt is None:
            raise Unavailable("endpoint expression " + _u(c.elt))
        it = g[0].iter
        if isinstance(it, ast.Name) and self.r(it) in ("pos", "kw"):
            plist = [self.r(it)]
        elif isinstance(it, ast.BinOp) and isinstance(it.op, ast.Add) and {self.r(it.left), self.r(it.right)} == {"pos", "kw"}:
            plist = [self.r(it.left), self.r(it.right)]
        else:
            raise Unavailable("parameter list " + _u(it))
        self.out["corners"] = (mode, elt, plist)
        self.role[x] = "corners"

    def kwfn(self, fn):
        if not (len(fn.args.args) == 1 and len(fn.body) == 1 and isinstance(fn.body[0], ast.Return)):
            raise Unavailable("helper " + fn.name)
        a = fn.args.args[0].arg
        v = fn.body[0].value
        pair = "zip(%s,%s[%s:])" % (self.one("kwnames"), a, self.one("npos"))
        if _u(v) == f"dict({pair})":
            self.out["kwfn"] = "all"
        elif isinstance(v, ast.DictComp) and len(v.generators) == 1 and _u(v.generators[0].iter) == pair \
                and _u(v.generators[0].target) == f"({_u(v.key)},{_u(v.value)})" and len(v.generators[0].ifs) == 1 \
                and _u(v.generators[0].ifs[0]) == _u(v.value):
            self.out["kwfn"] = "truthy"
        else:
            raise Unavailable("keyword helper body " + _u(v)[:60])
        self.role[fn.name] = "kwfn"

    def comp(self, x, v):
        g = v.generators
        if not (len(g) == 1 and not g[0].ifs and isinstance(g[0].target, ast.Name) and self.r(g[0].iter) == "corners"):
            raise Unavailable("comprehension over something else than the corners: " + _u(v)[:60])
        a = g[0].target.id
        c = v.elt
        if not (isinstance(c, ast.Call) and isinstance(c.func, ast.Attribute) and self.r(c.func.value) == "dist"):
            raise Unavailable("comprehension element " + _u(c)[:60])
        star = f"*{a}[:{self.one('npos')}]"
        kws = [(k.arg, _u(k.value)) for k in c.keywords]
        kwcall = (None, f"{self.one('kwfn')}({a})")
        if c.func.attr == "ppf":
            if not (len(c.args) == 2 and _u(c.args[1]) == star and kws == [kwcall]):
                raise Unavailable("ppf call " + _u(c)[:80])
            lv = c.args[0]
            if _u(lv) == "Params.p_values":
                self.out["levels"] = ("p_values",)
            elif _is_call(lv, "np.linspace") and len(lv.args) == 3 and _u(lv.args[2]) == "Params.steps" and not lv.keywords \
                    and all(isinstance(z, ast.Constant) and isinstance(z.value, (int, float)) for z in lv.args[:2]):
                self.out["levels"] = ("linspace", lv.args[0].value, lv.args[1].value)
            else:
                raise Unavailable("levels " + _u(lv))
            self.out["ppf_pos"] = "take"
            self.role[x] = "bounds"
        elif c.func.attr == "stats":
            if not (len(c.args) == 1 and _u(c.args[0]) == star and kws == [kwcall, ("moments", "'mv'")]):
                raise Unavailable("stats call " + _u(c)[:80])
            self.out["stats"] = "mv"
            self.role[x] = "stats"
        else:
            raise Unavailable("method " + c.func.attr)

    # ---- guard and moments ---------------------------------------------------------------------------------
    def scalar(self, e):
        if isinstance(e, ast.Name) and self.r(e) in ("lo", "hi"):
            return self.r(e)
        if _is_call(e, ("min", "max")) and len(e.args) == 1 and self.r(e.args[0]) in ("means", "vars"):
            return f"({e.func.id}L 0 {self.r(e.args[0])})"
        if isinstance(e, ast.Constant) and isinstance(e.value, (int, float)) and not isinstance(e.value, bool):
            f = Fraction(e.value)
            return f"(({f.numerator} : Rat) / {f.denominator})" if f.denominator != 1 else f"({f.numerator} : Rat)"
        if isinstance(e, ast.BinOp):
            if isinstance(e.op, ast.Pow) and isinstance(e.right, ast.Constant) and e.right.value == 2:
                s = self.scalar(e.left)
                return f"({s} * {s})"
            op = {ast.Add: "+", ast.Sub: "-", ast.Mult: "*", ast.Div: "/"}.get(type(e.op))
            if op:
                return f"({self.scalar(e.left)} {op} {self.scalar(e.right)})"
        raise Unavailable("guard expression " + _u(e)[:60])

    def guard(self, st):
        t = st.test
        if not (isinstance(t, ast.BoolOp) and isinstance(t.op, ast.And) and len(t.values) >= 1
                and _u(t.values[0]) == "np.all(np.isfinite(%s))" % self.one("moments")):
            raise Unavailable("guard does not start with np.all(np.isfinite(moments))")
        conds = []
        for c in t.values[1:]:
            if not (isinstance(c, ast.Compare) and len(c.ops) == 1 and type(c.ops[0]) in (ast.LtE, ast.Lt, ast.GtE, ast.Gt)):
                raise Unavailable("guard condition " + _u(c)[:60])
            op = {ast.LtE: "≤", ast.Lt: "<", ast.GtE: "≥", ast.Gt: ">"}[type(c.ops[0])]
            conds.append(f"decide ({self.scalar(c.left)} {op} {self.scalar(c.comparators[0])})")
        self.out["guard"] = conds
        if len(st.body) != 2 or len(st.orelse) != 1 or _u(st.orelse[0]) not in ("(mean,var)=(None,None)", "mean,var=(None,None)", "mean,var=None,None"):
            raise Unavailable("branches of the moment guard")
        for b, which in zip(st.body, ("mean", "var")):
            if not (isinstance(b, ast.Assign) and _u(b.targets[0]) == which and _is_call(b.value, "I") and len(b.value.args) == 2):
                raise Unavailable("moment interval " + _u(b)[:60])
            self.out[which] = [self.scalar(z) for z in b.value.args]
            self.role[which] = which


def extract(repo):
    src = pathlib.Path(repo) / "src/pyuncertainnumber/pba/pbox_parametric.py"
    tree = ast.parse(src.read_text())
    out = Ex(_fn(tree, "_parametric_bounds_array")).out
    # _bound_pcdf: unpacking + Leaf keywords
    bp = _fn(tree, "_bound_pcdf")
    unpack, wiring = None, None
    for st in bp.body:
        if isinstance(st, ast.Assign) and isinstance(st.targets[0], ast.Tuple) \
                and _u(st.value) == "_parametric_bounds_array(dist_family,*args,**kwargs)":
            unpack = [_u(e) for e in st.targets[0].elts]
        if isinstance(st, ast.Return) and _is_call(st.value, "Leaf") and not st.value.args:
            wiring = {k.arg: _u(k.value) for k in st.value.keywords}
    if unpack is None or wiring is None or len(unpack) != 4:
        raise Unavailable("_bound_pcdf is not `a,b,c,d = _parametric_bounds_array(dist_family, *args, **kwargs); return Leaf(...)`")
    back = dict(zip(unpack, out["ret"]))
    try:
        out["wiring"] = [(k, back[wiring[k]]) for k in ("left", "right", "mean", "var")]
    except KeyError as e:
        raise Unavailable(f"Leaf keyword {e} missing or not one of the unpacked results")
    w = _fn(tree, "wrapper_decorator", inside="makePbox")
    rets = [st for st in w.body if isinstance(st, ast.Return)]
    fam = [st for st in w.body if isinstance(st, ast.Assign) and _u(st.value) == "func(*args,**kwargs)"]
    if len(rets) != 1 or len(fam) != 1 or len(w.body) != 2:
        raise Unavailable("wrapper_decorator body")
    out["wrapper"] = _u(rets[0].value) == "_bound_pcdf(%s,*args,**kwargs)" % _u(fam[0].targets[0])
    return out


def render(o) -> str:
    mode, elt, plist = o["corners"]
    fn = {"product": "cartesian", "zip": "zipStar"}[mode]
    plist_l = " ++ ".join(plist)
    red = {"min": "colMin", "max": "colMax", "nanmin": "colMin", "nanmax": "colMax"}
    nan = [o[s] for s in ("left", "right") if o[s].startswith("nan")]
    if o["levels"][0] == "p_values":
        levels = "Pun.Gen.pValues"
    else:
        f = lambda v: (lambda q: f"(({q.numerator} : Rat) / {q.denominator})")(Fraction(v))
        levels = f"linspace {f(o['levels'][1])} {f(o['levels'][2])} Pun.Gen.steps"
    sel = {("left", "0"): "L.head?", ("left", "-1"): "L.getLast?", ("right", "0"): "R.head?", ("right", "-1"): "R.getLast?"}
    guard = " && ".join(o["guard"]) if o["guard"] else "true"
    call = {"all": "splitCall", "truthy": "splitCallTruthy"}[o["kwfn"]]
    wiring = ", ".join(f'("{k}", "{v}")' for k, v in o["wiring"])
    return f"""import Pun.Model.Param
import Pun.Gen.GridGen
/-! GENERATED by harness/pv/translator/param.py from src/pyuncertainnumber/pba/pbox_parametric.py
(`_parametric_bounds_array`, `_bound_pcdf`, `makePbox.wrapper_decorator`) — do not edit -/
namespace Pun.Gen.Param
open Pun Pun.Param

/-- the corner set: `{'itertools.product' if mode == 'product' else 'zip'}(*[<{elt}> for i in {plist_l}])` -/
def cornersGen (pos kw : List (Rat × Rat)) : List (List Rat) := {fn} (({plist_l}).map {elt})

/-- the levels the corner quantile functions are evaluated at -/
def levelsGen : List Rat := {levels}

/-- reductions in the source: left = `np.{o['left']}(bounds, axis=0)`, right = `np.{o['right']}(bounds, axis=0)` -/
def nanIgnoringReductions : List String := [{", ".join('"' + n + '"' for n in nan)}]

/-- `(Left, Right)` for a family with quantile function `Q corner level` -/
def paramBoundsGen (Q : List Rat → Rat → Rat) (pos kw : List (Rat × Rat)) : List Rat × List Rat :=
  let bounds := (cornersGen pos kw).map (fun a => levelsGen.map (fun p => Q a p))
  ({red[o['left']]} bounds, {red[o['right']]} bounds)

/-- positional / keyword arguments scipy receives at corner `a` -/
def callGen (nPos : Nat) (kwNames : List String) (a : List Rat) : List Rat × List (String × Rat) := {call} nPos kwNames a

/-- the moment intervals handed to the constructor (outer `none`: `Left[0]` / `Right[-1]` of an empty array) -/
def momentsGen (L R means vars : List Rat) : Option (Option Mom) :=
  match {sel[tuple(o['support'][0])]}, {sel[tuple(o['support'][1])]} with
  | some lo, some hi =>
    some (if {guard}
          then some ⟨{o['mean'][0]}, {o['mean'][1]}, {o['var'][0]}, {o['var'][1]}⟩ else none)
  | _, _ => none

/-- `Leaf(<keyword> = <which result of _parametric_bounds_array>)` -/
def leafWiring : List (String × String) := [{wiring}]

/-- the decorator hands every positional and keyword argument on -/
def wrapperPassesAll : Bool := {"true" if o["wrapper"] else "false"}

end Pun.Gen.Param
"""


def generate(repo, out):
    from . import grid
    try:
        grid.extract(pathlib.Path(repo) / "src/pyuncertainnumber/pba/params.py")
    except grid.Unavailable as e:
        raise Unavailable(str(e))
    res = extract(repo)
    txt = render(res)
    out = pathlib.Path(out)
    if not out.exists() or out.read_text() != txt:
        out.parent.mkdir(parents=True, exist_ok=True)
        out.write_text(txt)
    return ("ok: corners=%s(%s over %s), left=np.%s, right=np.%s, levels=%s, kw=%s" %
            (res["corners"][0], res["corners"][1], "+".join(res["corners"][2]), res["left"], res["right"], res["levels"][0], res["kwfn"]))


if __name__ == "__main__":
    import sys
    print(render(extract(sys.argv[1])))
