"""Translator: pba/pbox_free.py (+ pba/params.py)  ->  lean/Pun/Gen/FreeGen.lean      (property C10)

What is regenerated from the source on every run (and proved equal to the hand model in Props/C10Gen.lean):
  min_mean       : the level list `jjj`, the list `right`
  mean_std       : the level lists `iii`, `jjj`, the lists `left`, `right`  (np.sqrt -> an abstract `sq`)
  min_max_mean   : `mid`, the level lists `ii`, `jj`, the lists `left`, `right`  (conditional expressions, min/max)
  min_max_median : the two `np.where(Params.p_values <cmp> c, x, y)` masks, evaluated on the p-values of params.py
  max_mean       : the arguments of the inner `min_mean(...)` call of `min_mean(..).__neg__()`
  Params.steps

Recognised forms only; anything else raises Unavailable (the check then relies on the tie, no alarm by itself):
  scalars : names (parameters / earlier assignments), int/float constants, + - * /, unary -, `a if x <cmp> y else b`,
            max(a,b), min(a,b), np.sqrt(e), `steps`
  lists   : [e for v in <list>], [e for v in range(..)], [e, ...], <list> + <list>, np.array(<list>)

`facts(repo)` reads two facts of `min_max_mean_std` the harness needs to compute the supplied roots the way the
source does: which formula gives the maximal std, and the rounding allowance on `std <= smax` (0 in the pinned code).
"""
import ast, pathlib, re
from fractions import Fraction

class Unavailable(Exception):
    pass


CMP = {ast.LtE: "≤", ast.Lt: "<", ast.GtE: "≥", ast.Gt: ">"}


def _src(repo):
    return pathlib.Path(repo) / "src/pyuncertainnumber/pba"


def _funcs(tree):
    return {n.name: n for n in tree.body if isinstance(n, ast.FunctionDef)}


def params_constants(repo):
    """steps, p_lboundary, p_hboundary of class Params (literal assignments)"""
    tree = ast.parse((_src(repo) / "params.py").read_text())
    out = {}
    for n in tree.body:
        if isinstance(n, ast.ClassDef) and n.name == "Params":
            for st in n.body:
                if isinstance(st, ast.Assign) and len(st.targets) == 1 and isinstance(st.targets[0], ast.Name):
                    if isinstance(st.value, ast.Constant) and isinstance(st.value.value, (int, float)):
                        out[st.targets[0].id] = st.value.value
                    elif st.targets[0].id == "p_values":
                        v = st.value
                        ok = (isinstance(v, ast.Call) and isinstance(v.func, ast.Attribute) and v.func.attr == "linspace"
                              and [getattr(a, "id", None) for a in v.args] == ["p_lboundary", "p_hboundary", "steps"])
                        if not ok:
                            raise Unavailable("Params.p_values is not np.linspace(p_lboundary, p_hboundary, steps)")
                        out["p_values"] = "linspace"
    for k in ("steps", "p_lboundary", "p_hboundary", "p_values"):
        if k not in out:
            raise Unavailable(f"Params.{k} not found")
    return out


def _rat(v):
    f = Fraction(str(v)) if isinstance(v, float) else Fraction(v)      # 0.5 -> 1/2 (decimal literal as written)
    return f"({f.numerator} : Rat)" if f.denominator == 1 else f"(({f.numerator} : Rat) / {f.denominator})"


class Tr:
    """one function body -> Lean definitions"""

    def __init__(self, fn: ast.FunctionDef, steps: int, prefix: str):
        self.fn, self.steps, self.prefix = fn, steps, prefix
        self.params = [a.arg for a in fn.args.args if a.arg != "steps"]
        for a, d in zip(fn.args.args[::-1], fn.args.defaults[::-1]):
            if a.arg == "steps":
                late = isinstance(d, ast.Constant) and d.value is None and any(
                    isinstance(st, ast.If) and "steps is None" in ast.unparse(st.test) and "Params.steps" in ast.unparse(st)
                    for st in fn.body)                      # `steps=None` resolved to Params.steps in the body
                if not ((isinstance(d, ast.Attribute) and d.attr == "steps") or late):
                    raise Unavailable("steps default is not Params.steps")
        self.kind = {}       # assigned name -> 'scalar' | 'list'
        self.uses_sq = False
        self.defs = []       # (name, kind, body)

    # -- integers known at translation time (range bounds)
    def intval(self, e):
        if isinstance(e, ast.Constant) and isinstance(e.value, int):
            return e.value
        if isinstance(e, ast.Name) and e.id == "steps":
            return self.steps
        if isinstance(e, ast.BinOp) and isinstance(e.op, (ast.Add, ast.Sub)):
            a, b = self.intval(e.left), self.intval(e.right)
            return a + b if isinstance(e.op, ast.Add) else a - b
        raise Unavailable("range bound " + ast.dump(e)[:60])

    def ref(self, name):
        args = " ".join((["sq"] if self.uses_sq_of.get(name) else []) + self.params)
        return f"({self.prefix}_{name} {args})".replace("  ", " ")

    def scalar(self, e, bound=()):
        if isinstance(e, ast.Name):
            if e.id in bound or e.id in self.params:
                return e.id
            if e.id == "steps":
                return _rat(self.steps)
            if self.kind.get(e.id) == "scalar":
                return self.ref(e.id)
            raise Unavailable("name " + e.id)
        if isinstance(e, ast.Constant) and isinstance(e.value, (int, float)) and not isinstance(e.value, bool):
            return _rat(e.value)
        if isinstance(e, ast.UnaryOp) and isinstance(e.op, ast.USub):
            return f"(-{self.scalar(e.operand, bound)})"
        if isinstance(e, ast.BinOp) and type(e.op) in (ast.Add, ast.Sub, ast.Mult, ast.Div):
            op = {ast.Add: "+", ast.Sub: "-", ast.Mult: "*", ast.Div: "/"}[type(e.op)]
            return f"({self.scalar(e.left, bound)} {op} {self.scalar(e.right, bound)})"
        if isinstance(e, ast.IfExp):
            t = e.test
            if not (isinstance(t, ast.Compare) and len(t.ops) == 1 and type(t.ops[0]) in CMP):
                raise Unavailable("condition " + ast.dump(t)[:60])
            c = f"{self.scalar(t.left, bound)} {CMP[type(t.ops[0])]} {self.scalar(t.comparators[0], bound)}"
            return f"(if {c} then {self.scalar(e.body, bound)} else {self.scalar(e.orelse, bound)})"
        if isinstance(e, ast.Call):
            f = e.func
            if isinstance(f, ast.Name) and f.id in ("max", "min") and len(e.args) == 2:
                return f"({f.id} {self.scalar(e.args[0], bound)} {self.scalar(e.args[1], bound)})"
            if isinstance(f, ast.Attribute) and f.attr == "sqrt" and len(e.args) == 1:
                self.cur_sq = True
                return f"(sq {self.scalar(e.args[0], bound)})"
        raise Unavailable("scalar " + ast.dump(e)[:80])

    def lst(self, e):
        if isinstance(e, ast.Name) and self.kind.get(e.id) == "list":
            return self.ref(e.id)
        if isinstance(e, ast.Call) and isinstance(e.func, ast.Attribute) and e.func.attr == "array" and len(e.args) == 1:
            return self.lst(e.args[0])
        if isinstance(e, ast.List):
            return "[" + ", ".join(self.scalar(x) for x in e.elts) + "]"
        if isinstance(e, ast.BinOp) and isinstance(e.op, ast.Add):
            return f"({self.lst(e.left)} ++ {self.lst(e.right)})"
        if isinstance(e, ast.ListComp) and len(e.generators) == 1 and not e.generators[0].ifs:
            g = e.generators[0]
            if not isinstance(g.target, ast.Name):
                raise Unavailable("comprehension target")
            v = g.target.id
            it = g.iter
            if isinstance(it, ast.Call) and isinstance(it.func, ast.Name) and it.func.id == "range":
                if len(it.args) == 1:
                    lo, hi = 0, self.intval(it.args[0])
                elif len(it.args) == 2:
                    lo, hi = self.intval(it.args[0]), self.intval(it.args[1])
                else:
                    raise Unavailable("range with step")
                src = f"((List.range' {lo} {max(hi - lo, 0)}).map (fun n : Nat => (n : Rat)))"
            else:
                src = self.lst(it)
            return f"({src}.map (fun {v} => {self.scalar(e.elt, (v,))}))"
        raise Unavailable("list " + ast.dump(e)[:80])

    def run(self, wanted):
        self.uses_sq_of = {}
        for st in self.fn.body:
            if not (isinstance(st, ast.Assign) and len(st.targets) == 1 and isinstance(st.targets[0], ast.Name)):
                continue
            name = st.targets[0].id
            if name not in wanted:
                continue
            self.cur_sq = False
            try:
                body, kind = self.lst(st.value), "list"
            except Unavailable as e_list:
                self.cur_sq = False
                try:
                    body, kind = self.scalar(st.value), "scalar"
                except Unavailable:
                    raise Unavailable(f"{self.fn.name}.{name}: {e_list}")
            # a definition needs `sq` if it uses it directly or through an earlier definition
            needs = self.cur_sq or any(self.uses_sq_of.get(n) and f"{self.prefix}_{n} sq" in body for n in self.kind)
            self.uses_sq_of[name] = needs
            self.kind[name] = kind
            self.defs.append((name, kind, body, needs))
        missing = [w for w in wanted if w not in self.kind]
        if missing:
            raise Unavailable(f"{self.fn.name}: assignments not found: {missing}")
        out = []
        for name, kind, body, needs in self.defs:
            ps = " ".join(self.params)
            sqp = "(sq : Rat → Rat) " if needs else ""
            ty = "List Rat" if kind == "list" else "Rat"
            out.append(f"def {self.prefix}_{name} {sqp}({ps} : Rat) : {ty} :=\n  {body}\n")
        return "\n".join(out)


def _where_mask(fn, target, pc):
    """`target = np.where(<x>.p_values <cmp> c, a, b)` -> run-length encoding of the chosen names"""
    import numpy as np
    for st in fn.body:
        if isinstance(st, ast.Assign) and isinstance(st.targets[0], ast.Name) and st.targets[0].id == target:
            v = st.value
            if not (isinstance(v, ast.Call) and isinstance(v.func, ast.Attribute) and v.func.attr == "where" and len(v.args) == 3):
                break
            c, a, b = v.args
            if not (isinstance(c, ast.Compare) and len(c.ops) == 1 and isinstance(c.left, ast.Attribute)
                    and c.left.attr == "p_values" and isinstance(c.comparators[0], ast.Constant)
                    and isinstance(a, ast.Name) and isinstance(b, ast.Name)):
                break
            pv = np.linspace(pc["p_lboundary"], pc["p_hboundary"], pc["steps"])
            thr = c.comparators[0].value
            op = type(c.ops[0])
            mask = {ast.Lt: pv < thr, ast.LtE: pv <= thr, ast.Gt: pv > thr, ast.GtE: pv >= thr}.get(op)
            if mask is None:
                break
            runs = []
            for m in mask:
                nm = a.id if m else b.id
                if runs and runs[-1][0] == nm:
                    runs[-1][1] += 1
                else:
                    runs.append([nm, 1])
            return runs
    raise Unavailable(f"{fn.name}: {target} is not np.where(p_values <cmp> c, x, y)")


def generate(repo, out):
    pc = params_constants(repo)
    steps = pc["steps"]
    tree = ast.parse((_src(repo) / "pbox_free.py").read_text())
    F = _funcs(tree)
    for need in ("min_mean", "max_mean", "mean_std", "min_max_mean", "min_max_median"):
        if need not in F:
            raise Unavailable(need + " not found")
    parts = []
    parts.append(Tr(F["min_mean"], steps, "min_mean").run(["jjj", "right"]))
    parts.append(Tr(F["mean_std"], steps, "mean_std").run(["iii", "jjj", "left", "right"]))
    parts.append(Tr(F["min_max_mean"], steps, "min_max_mean").run(["mid", "ii", "left", "jj", "right"]))
    # min_max_median
    med = []
    for tgt, nm in (("l_quantile", "left"), ("r_quantile", "right")):
        runs = _where_mask(F["min_max_median"], tgt, pc)
        body = " ++ ".join(f"List.replicate {n} {v}" for v, n in runs)
        med.append(f"def min_max_median_{nm} (minimum maximum median : Rat) : List Rat :=\n  {body}\n")
    parts.append("\n".join(med))
    # max_mean
    ret = [s for s in F["max_mean"].body if isinstance(s, ast.Return)]
    ok = False
    if ret:
        v = ret[-1].value
        if (isinstance(v, ast.Call) and isinstance(v.func, ast.Attribute) and v.func.attr == "__neg__" and not v.args
                and isinstance(v.func.value, ast.Call) and isinstance(v.func.value.func, ast.Name)
                and v.func.value.func.id == "min_mean" and len(v.func.value.args) == 2 and not v.func.value.keywords):
            t = Tr(F["max_mean"], steps, "max_mean")
            a0, a1 = (t.scalar(x) for x in v.func.value.args)
            parts.append(f"/-- arguments of the inner `min_mean(...)` of `min_mean(...).__neg__()` -/\n"
                         f"def max_mean_inner (maximum mean : Rat) : Rat × Rat :=\n  ({a0}, {a1})\n")
            ok = True
    if not ok:
        raise Unavailable("max_mean is not min_mean(x, y).__neg__()")
    text = ("/-! GENERATED by harness/pv/translator/free.py from pba/pbox_free.py and pba/params.py — do not edit -/\n"
            "set_option linter.unusedVariables false\nnamespace Pun.Gen.Free\n\n"
            f"def steps : Nat := {steps}\n\n" + "\n".join(parts) + "\nend Pun.Gen.Free\n")
    out = pathlib.Path(out)
    out.parent.mkdir(parents=True, exist_ok=True)
    if not out.exists() or out.read_text() != text:
        out.write_text(text)
    return f"ok: {text.count('def ')} definitions regenerated"


def facts(repo):
    """{'smax_form': 'centred' | 'product', 'slack': Fraction}: how `min_max_mean_std` computes the maximal std and the
    rounding allowance it grants on `std <= smax` (pinned code: centred form, no allowance)"""
    src = (_src(repo) / "pbox_free.py").read_text()
    m = re.search(r"def min_max_mean_std\(.*?\n(?=def )", src, flags=re.S)
    body = m.group(0) if m else ""
    body = re.sub(r'""".*?"""', "", body, flags=re.S)
    body = re.sub(r"#.*", "", body)
    flat = re.sub(r"\s+", "", body)
    if "(abs((mean-minimum)*(maximum-mean)))**0.5" in flat:
        form = "product"
    elif "(abs(ran*ran/4.0-(maximum-mean-ran/2.0)**2))**0.5" in flat:
        form = "centred"
    else:
        raise Unavailable("maximal std formula not recognised")
    slack = Fraction(0)
    k = re.search(r"std<=smax\*\(1(?:\.0)?\+(\d+)\*np\.finfo\(float\)\.eps\)", flat)
    if k:
        slack = Fraction(int(k.group(1))) * Fraction(2) ** -52
    elif "std<=smax*" in flat:
        raise Unavailable("rounding allowance not recognised")
    return {"smax_form": form, "slack": slack}
