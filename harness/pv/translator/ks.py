"""Translator: pba/pbox_free.py d_alpha  ->  lean/Pun/Gen/KSGen.lean

Recognised form only (anything else raises Unavailable -> the check falls back
to the correspondence, no alarm by itself):

    A = {<num>: <num>, ...}                       # the constant table
    [if alpha not in A: raise ...]                # optional guard
    return ( np.sqrt(np.log(1 / alpha) / (2 * n))
             - <C1> * (1 / n)
             - <A.get(alpha, <DEF>) | A[alpha]> * (n ** (-3 / 2)) )

Extracted: the table (keys as the exact value of the double, because dict
lookup compares doubles; values as the decimal literal written), C1, and what
an alpha outside the table gets (`some DEF` for `A.get(alpha, DEF)`, `none`
when the lookup is `A[alpha]` behind a `not in A -> raise` guard).  For every
key the translator also brackets c_alpha = sqrt(log(1/alpha)/2) numerically
(+-1e-4) - these brackets are the "checked numerically" hypotheses of
`D_pos_mono` that `Props/C17Gen.lean` discharges against the constants.
"""
import ast, math, pathlib
from fractions import Fraction


class Unavailable(Exception):
    pass


def _num(e):
    if isinstance(e, ast.Constant) and isinstance(e.value, (int, float)) and not isinstance(e.value, bool):
        return e.value
    if isinstance(e, ast.UnaryOp) and isinstance(e.op, ast.USub):
        return -_num(e.operand)
    raise Unavailable(f"not a numeric literal: {ast.dump(e)[:60]}")


def _dec(v):
    """the decimal literal as written (shortest round-trip repr)"""
    return Fraction(repr(v)) if isinstance(v, float) else Fraction(v)


def _norm(e):
    return ast.unparse(e).replace(" ", "").replace("numpy.", "np.")


def extract(path):
    tree = ast.parse(pathlib.Path(path).read_text())
    fn = next((f for f in tree.body if isinstance(f, ast.FunctionDef) and f.name == "d_alpha"), None)
    if fn is None:
        raise Unavailable("d_alpha not found")
    args = [a.arg for a in fn.args.args]
    if args != ["n", "alpha"]:
        raise Unavailable(f"d_alpha signature {args}")
    table, tname, guard, ret = None, None, False, None
    for st in fn.body:
        if isinstance(st, ast.Expr) and isinstance(st.value, ast.Constant) and isinstance(st.value.value, str):
            continue
        if isinstance(st, ast.Assign) and len(st.targets) == 1 and isinstance(st.targets[0], ast.Name) \
                and isinstance(st.value, ast.Dict):
            tname = st.targets[0].id
            keys = [_num(k) for k in st.value.keys]
            if len(set(keys)) != len(keys):
                raise Unavailable("duplicate keys in the table")
            table = [(k, _num(v)) for k, v in zip(keys, st.value.values)]
            continue
        if isinstance(st, ast.If) and tname and _norm(st.test) == f"alphanotin{tname}" and not st.orelse \
                and len(st.body) == 1 and isinstance(st.body[0], ast.Raise):
            exc = st.body[0].exc
            nm = exc.func.id if isinstance(exc, ast.Call) and isinstance(exc.func, ast.Name) else \
                (exc.id if isinstance(exc, ast.Name) else None)
            if nm != "ValueError":
                raise Unavailable(f"guard raises {nm}")
            guard = True
            continue
        if isinstance(st, ast.Return):
            ret = st.value
            continue
        raise Unavailable(f"unexpected statement: {ast.unparse(st)[:60]}")
    if table is None or ret is None:
        raise Unavailable("table or return not found")
    # ret = (T1 - C1*(1/n)) - ATERM * n**(-3/2)
    if not (isinstance(ret, ast.BinOp) and isinstance(ret.op, ast.Sub) and isinstance(ret.left, ast.BinOp)
            and isinstance(ret.left.op, ast.Sub)):
        raise Unavailable("return is not  a - b - c")
    t1, t2, t3 = ret.left.left, ret.left.right, ret.right
    if _norm(t1) != "np.sqrt(np.log(1/alpha)/(2*n))":
        raise Unavailable(f"first term {_norm(t1)}")
    if not (isinstance(t2, ast.BinOp) and isinstance(t2.op, ast.Mult) and _norm(t2.right) == "1/n"):
        raise Unavailable(f"second term {_norm(t2)}")
    c1 = _num(t2.left)
    if not (isinstance(t3, ast.BinOp) and isinstance(t3.op, ast.Mult) and _norm(t3.right) == "n**(-3/2)"):
        raise Unavailable(f"third term {_norm(t3)}")
    at = t3.left
    if isinstance(at, ast.Call) and _norm(at.func) == f"{tname}.get" and len(at.args) == 2 and not at.keywords \
            and _norm(at.args[0]) == "alpha":
        dflt = _num(at.args[1])
        if guard:
            dflt = None       # the guard makes the default unreachable
    elif isinstance(at, ast.Subscript) and _norm(at) == f"{tname}[alpha]":
        if not guard:
            raise Unavailable("A[alpha] without a `not in A` guard")
        dflt = None
    else:
        raise Unavailable(f"table access {_norm(at)}")
    bounds = []
    for k, _ in table:
        if not (0 < k < 1):
            raise Unavailable(f"table key {k} outside (0,1)")
        c = math.sqrt(math.log(1 / k) / 2)
        lo = Fraction(math.floor(c * 10000) - 1, 10000)
        hi = Fraction(math.floor(c * 10000) + 2, 10000)
        assert lo < Fraction(c) < hi
        bounds.append((k, lo, hi))
    return {"table": table, "c1": c1, "dflt": dflt, "bounds": bounds}


def _r(f: Fraction) -> str:
    f = Fraction(f)
    if f.denominator == 1:
        return f"({f.numerator} : Rat)"
    return f"(({f.numerator} : Rat) / {f.denominator})"


def render(res):
    L = ["import Pun.Model.Proto",
         "/-! GENERATED by harness/pv/translator/ks.py from src/pyuncertainnumber/pba/pbox_free.py (d_alpha) — do not edit -/",
         "namespace Pun.Gen.KS", ""]
    L.append(f"def c1 : Rat := {_r(_dec(res['c1']))}")
    ents = ", ".join(f"({_r(Fraction(k))}, {_r(_dec(v))})" for k, v in res["table"])
    L.append(f"def table : List (Rat × Rat) := [{ents}]")
    d = res["dflt"]
    L.append("def dflt : Option Rat := " + ("none" if d is None else f"some {_r(_dec(d))}"))
    bs = ", ".join(f"({_r(Fraction(k))}, {_r(lo)}, {_r(hi)})" for k, lo, hi in res["bounds"])
    L.append("/-- numeric brackets (key, lo, hi) with lo < sqrt(log(1/key)/2) < hi, computed by the translator -/")
    L.append(f"def cBounds : List (Rat × Rat × Rat) := [{bs}]")
    L += ["", "end Pun.Gen.KS"]
    return "\n".join(L) + "\n"


def generate(repo, out):
    res = extract(pathlib.Path(repo) / "src/pyuncertainnumber/pba/pbox_free.py")
    txt = render(res)
    out = pathlib.Path(out)
    if not out.exists() or out.read_text() != txt:
        out.parent.mkdir(parents=True, exist_ok=True)
        out.write_text(txt)
    return res


if __name__ == "__main__":
    import sys
    print(render(extract(sys.argv[1])))
