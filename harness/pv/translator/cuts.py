"""Translator: the p-box queries of pba/pbox_abc.py (class Staircase)  ->  lean/Pun/Gen/CutsGen.lean

Recognised forms only (anything else raises Unavailable -> the check falls back to the correspondence, no alarm
by itself).  Local imports and docstrings are skipped.

  alpha_cut(self, alpha=...):
        ind = find_nearest(Params.p_values, alpha)
        return I(lo=self.<S1>[ind], hi=self.<S2>[ind])
    extracted: the grid the index is looked up on, the argument looked up, S1, S2

  cdf(self, x):
        last = len(Params.p_values) - 1
        lo_ind = np.clip(np.searchsorted(self.<S1>, x, side="right") - 1, 0, last)
        hi_ind = np.clip(np.searchsorted(self.<S2>, x, side="right") - 1, 0, last)
        return I(lo=Params.p_values[lo_ind], hi=Params.p_values[hi_ind])
    extracted: S1, S2 (which bound array gives the lower / upper probability), the side of searchsorted, the
    offset subtracted, the clip limits

  discretise(self, n=None):
        if (n is None) or (n == Params.steps): return I(lo=self.<S1>, hi=self.<S2>)
        else: p_values = np.linspace(Params.p_lboundary, Params.p_hboundary, n); return self.alpha_cut(p_values)
    extracted: the native test, S1, S2, the level expression

  outer_discretisation(self, n=None):
        if n is not None: p_values = np.linspace(Params.p_lboundary, Params.p_hboundary, n)
        else: p_values = self._pvalues
        <A> = p_values[<slice>]; <B> = p_values[<slice>]
        <ql> = self.alpha_cut(<A|B>).<left|right>; <qr> = self.alpha_cut(<A|B>).<left|right>
        <v> = lwI(lo=<ql|qr>, hi=<ql|qr>); return <v>
    extracted: per result endpoint the slice of the levels (`dropLast` = [0:-1], `tail` = [1:]) and the end of the cut

  condensation(self, n):   itvls = self.outer_discretisation(n); return stacking(itvls)
    extracted: the method and the aggregation called

  get_PI(self, alpha=..., style="narrowest"):
        lo_cut_level = <expr in alpha>;  hi_cut_level = <expr in alpha, lo_cut_level>
        if style == "narrowest":  hi = self.alpha_cut(<lvl>).<end>; lo = self.alpha_cut(<lvl>).<end>
                                  try: return Interval(lo=lo, hi=hi)
                                  except Exception: [logging...]; hi = ...; lo = ...; return Interval(lo=lo, hi=hi)
        elif style == "widest":   hi = ...; lo = ...; return Interval(lo=lo, hi=hi)
    extracted: the two level expressions (as rational functions of alpha), per style and for the fall-back which
    level and which end of its cut feeds which endpoint, the default style
"""
import ast, pathlib


class Unavailable(Exception):
    pass


SRC = "src/pyuncertainnumber/pba/pbox_abc.py"


def _body(fn):
    out = []
    for i, st in enumerate(fn.body):
        if i == 0 and isinstance(st, ast.Expr) and isinstance(st.value, ast.Constant) and isinstance(st.value.value, str):
            continue
        if isinstance(st, (ast.Import, ast.ImportFrom)):
            continue
        out.append(st)
    return out


def _method(tree, name):
    for c in tree.body:
        if isinstance(c, ast.ClassDef) and c.name == "Staircase":
            fs = [f for f in c.body if isinstance(f, ast.FunctionDef) and f.name == name]
            if len(fs) == 1:
                return fs[0]
            raise Unavailable(f"Staircase.{name}: {len(fs)} definitions")
    raise Unavailable("class Staircase not found")


def _n(e):
    return ast.unparse(e).replace(" ", "").replace("'", '"')


def _assign(st):
    if isinstance(st, ast.Assign) and len(st.targets) == 1 and isinstance(st.targets[0], ast.Name):
        return st.targets[0].id, st.value
    raise Unavailable(f"not a simple assignment: {ast.unparse(st)[:60]}")


def _self_side(e):
    if isinstance(e, ast.Attribute) and isinstance(e.value, ast.Name) and e.value.id == "self" and e.attr in ("left", "right"):
        return e.attr
    raise Unavailable(f"not self.left / self.right: {ast.unparse(e)[:50]}")


def _ivl_call(e, ctors=("I", "Interval", "lwI")):
    if not (isinstance(e, ast.Call) and isinstance(e.func, ast.Name) and e.func.id in ctors and not e.args):
        raise Unavailable(f"not an interval constructor with keywords: {ast.unparse(e)[:60]}")
    kws = {k.arg: k.value for k in e.keywords}
    if set(kws) != {"lo", "hi"}:
        raise Unavailable(f"interval keywords {sorted(kws)}")
    return kws


def extract_alpha_cut(tree):
    fn = _method(tree, "alpha_cut")
    if [a.arg for a in fn.args.args] != ["self", "alpha"]:
        raise Unavailable("alpha_cut signature")
    b = _body(fn)
    if len(b) != 2 or not isinstance(b[1], ast.Return):
        raise Unavailable("alpha_cut body shape")
    ind, v = _assign(b[0])
    if _n(v) != "find_nearest(Params.p_values,alpha)":
        raise Unavailable(f"index lookup: {_n(v)}")
    kws = _ivl_call(b[1].value)
    res = {}
    for k in ("lo", "hi"):
        e = kws[k]
        if not (isinstance(e, ast.Subscript) and isinstance(e.slice, ast.Name) and e.slice.id == ind):
            raise Unavailable(f"endpoint {k}: {ast.unparse(e)[:50]}")
        res[k] = _self_side(e.value)
    return res


def extract_cdf(tree):
    fn = _method(tree, "cdf")
    if [a.arg for a in fn.args.args] != ["self", "x"]:
        raise Unavailable("cdf signature")
    b = _body(fn)
    if len(b) != 4 or not isinstance(b[3], ast.Return):
        raise Unavailable("cdf body shape")
    last, v = _assign(b[0])
    if _n(v) != "len(Params.p_values)-1":
        raise Unavailable(f"cdf last index: {_n(v)}")
    idx = {}
    for st in b[1:3]:
        nm, v = _assign(st)
        # np.clip(np.searchsorted(self.S, x, side="right") - 1, 0, last)
        if not (isinstance(v, ast.Call) and _n(v.func) == "np.clip" and len(v.args) == 3 and not v.keywords
                and _n(v.args[1]) == "0" and _n(v.args[2]) == last):
            raise Unavailable(f"cdf clip: {_n(v)[:70]}")
        inner = v.args[0]
        if not (isinstance(inner, ast.BinOp) and isinstance(inner.op, ast.Sub) and _n(inner.right) == "1"):
            raise Unavailable(f"cdf offset: {_n(inner)[:70]}")
        ss = inner.left
        if not (isinstance(ss, ast.Call) and _n(ss.func) == "np.searchsorted" and len(ss.args) == 2
                and _n(ss.args[1]) == "x" and [(k.arg, _n(k.value)) for k in ss.keywords] == [("side", '"right"')]):
            raise Unavailable(f"cdf searchsorted: {_n(ss)[:70]}")
        idx[nm] = _self_side(ss.args[0])
    kws = _ivl_call(b[3].value)
    res = {}
    for k in ("lo", "hi"):
        e = kws[k]
        if not (isinstance(e, ast.Subscript) and _n(e.value) == "Params.p_values" and isinstance(e.slice, ast.Name)
                and e.slice.id in idx):
            raise Unavailable(f"cdf endpoint {k}: {ast.unparse(e)[:50]}")
        res[k] = idx[e.slice.id]
    return res


LINSPACE = "np.linspace(Params.p_lboundary,Params.p_hboundary,n)"


def extract_discretise(tree):
    fn = _method(tree, "discretise")
    b = _body(fn)
    if len(b) != 1 or not isinstance(b[0], ast.If):
        raise Unavailable("discretise body shape")
    st = b[0]
    if _n(st.test) not in ("nisNoneorn==Params.steps", "(nisNone)or(n==Params.steps)"):
        raise Unavailable(f"discretise native test: {_n(st.test)}")
    if len(st.body) != 1 or not isinstance(st.body[0], ast.Return):
        raise Unavailable("discretise native branch")
    kws = _ivl_call(st.body[0].value)
    res = {k: _self_side(kws[k]) for k in ("lo", "hi")}
    if len(st.orelse) != 2 or not isinstance(st.orelse[1], ast.Return):
        raise Unavailable("discretise else branch")
    nm, v = _assign(st.orelse[0])
    if _n(v) != LINSPACE or _n(st.orelse[1].value) != f"self.alpha_cut({nm})":
        raise Unavailable("discretise levels")
    return res


def _slice(e, base):
    if not (isinstance(e, ast.Subscript) and isinstance(e.value, ast.Name) and e.value.id == base
            and isinstance(e.slice, ast.Slice) and e.slice.step is None):
        raise Unavailable(f"not a slice of {base}: {ast.unparse(e)[:50]}")
    lo = None if e.slice.lower is None else _n(e.slice.lower)
    hi = None if e.slice.upper is None else _n(e.slice.upper)
    if lo in (None, "0") and hi == "-1":
        return "dropLast"
    if lo == "1" and hi is None:
        return "tail"
    if lo in (None, "0") and hi is None:
        return "all"
    raise Unavailable(f"slice [{lo}:{hi}]")


def _cut_end(e, levels):
    """self.alpha_cut(<name>).<attr>  ->  (levels[name], attr)"""
    if not (isinstance(e, ast.Attribute) and isinstance(e.value, ast.Call) and _n(e.value.func) == "self.alpha_cut"
            and len(e.value.args) == 1 and not e.value.keywords and isinstance(e.value.args[0], ast.Name)
            and e.value.args[0].id in levels):
        raise Unavailable(f"not an end of an alpha-cut: {ast.unparse(e)[:60]}")
    end = {"left": "lo", "lo": "lo", "right": "hi", "hi": "hi"}.get(e.attr)
    if end is None:
        raise Unavailable(f"cut attribute .{e.attr}")
    return levels[e.value.args[0].id], end


def extract_outer(tree):
    fn = _method(tree, "outer_discretisation")
    b = _body(fn)
    if len(b) != 7 or not isinstance(b[0], ast.If) or not isinstance(b[6], ast.Return):
        raise Unavailable("outer_discretisation body shape")
    st = b[0]
    if _n(st.test) != "nisnotNone" or len(st.body) != 1 or len(st.orelse) != 1:
        raise Unavailable("outer_discretisation level choice")
    n1, v1 = _assign(st.body[0])
    n2, v2 = _assign(st.orelse[0])
    if n1 != n2 or _n(v1) != LINSPACE or _n(v2) != "self._pvalues":
        raise Unavailable("outer_discretisation levels")
    levels = {}
    for s in b[1:3]:
        nm, v = _assign(s)
        levels[nm] = _slice(v, n1)
    ends = {}
    for s in b[3:5]:
        nm, v = _assign(s)
        ends[nm] = _cut_end(v, levels)
    out, v = _assign(b[5])
    kws = _ivl_call(v, ctors=("lwI",))
    if _n(b[6].value) != out:
        raise Unavailable("outer_discretisation return")
    res = {}
    for k in ("lo", "hi"):
        e = kws[k]
        if not (isinstance(e, ast.Name) and e.id in ends):
            raise Unavailable(f"outer endpoint {k}")
        res[k] = ends[e.id]
    return res


def extract_condensation(tree):
    fn = _method(tree, "condensation")
    b = _body(fn)
    if len(b) != 2 or not isinstance(b[1], ast.Return):
        raise Unavailable("condensation body shape")
    nm, v = _assign(b[0])
    if _n(v) != "self.outer_discretisation(n)" or _n(b[1].value) != f"stacking({nm})":
        raise Unavailable(f"condensation: {_n(v)} / {_n(b[1].value)}")
    return {"via": "outer_discretisation", "agg": "stacking"}


def _rat(e, env):
    """a rational expression of `alpha` and earlier names, rendered in Lean"""
    if isinstance(e, ast.Constant) and isinstance(e.value, int) and not isinstance(e.value, bool):
        return f"({e.value} : Rat)"
    if isinstance(e, ast.Name) and e.id in env:
        return env[e.id]
    if isinstance(e, ast.BinOp) and type(e.op) in (ast.Add, ast.Sub, ast.Mult, ast.Div):
        op = {ast.Add: "+", ast.Sub: "-", ast.Mult: "*", ast.Div: "/"}[type(e.op)]
        return f"({_rat(e.left, env)} {op} {_rat(e.right, env)})"
    if isinstance(e, ast.UnaryOp) and isinstance(e.op, ast.USub):
        return f"(-{_rat(e.operand, env)})"
    raise Unavailable(f"level expression: {ast.unparse(e)[:50]}")


def _pair(stmts, levels):
    """hi = cut(..).x ; lo = cut(..).y ; return Interval(lo=lo, hi=hi)   (the two assignments in either order)"""
    if len(stmts) != 3 or not isinstance(stmts[2], ast.Return):
        raise Unavailable("get_PI branch shape")
    ends = {}
    for s in stmts[:2]:
        nm, v = _assign(s)
        ends[nm] = _cut_end(v, levels)
    kws = _ivl_call(stmts[2].value, ctors=("Interval", "I"))
    res = {}
    for k in ("lo", "hi"):
        e = kws[k]
        if not (isinstance(e, ast.Name) and e.id in ends):
            raise Unavailable(f"get_PI endpoint {k}")
        res[k] = ends[e.id]
    return res


def extract_pi(tree):
    fn = _method(tree, "get_PI")
    if [a.arg for a in fn.args.args] != ["self", "alpha", "style"]:
        raise Unavailable("get_PI signature")
    default_style = fn.args.defaults[-1]
    if not (isinstance(default_style, ast.Constant) and isinstance(default_style.value, str)):
        raise Unavailable("get_PI default style")
    b = _body(fn)
    if len(b) != 3 or not isinstance(b[2], ast.If):
        raise Unavailable("get_PI body shape")
    env = {"alpha": "alpha"}
    names = []
    exprs = []
    for s in b[:2]:
        nm, v = _assign(s)
        r = _rat(v, env)
        env[nm] = r
        names.append(nm)
        exprs.append(r)
    levels = {names[0]: "first", names[1]: "second"}
    st = b[2]
    styles = {}

    def style_of(test):
        if isinstance(test, ast.Compare) and isinstance(test.left, ast.Name) and test.left.id == "style" \
                and len(test.ops) == 1 and isinstance(test.ops[0], ast.Eq) and isinstance(test.comparators[0], ast.Constant):
            return test.comparators[0].value
        raise Unavailable(f"get_PI style test: {_n(test)}")

    s1 = style_of(st.test)
    if len(st.orelse) != 1 or not isinstance(st.orelse[0], ast.If) or st.orelse[0].orelse:
        raise Unavailable("get_PI elif shape")
    s2 = style_of(st.orelse[0].test)
    fallback = None
    for name, body in ((s1, st.body), (s2, st.orelse[0].body)):
        if len(body) == 3 and isinstance(body[2], ast.Try):
            t = body[2]
            if len(t.body) != 1 or len(t.handlers) != 1 or t.orelse or t.finalbody:
                raise Unavailable("get_PI try shape")
            h = t.handlers[0]
            if not (isinstance(h.type, ast.Name) and h.type.id == "Exception"):
                raise Unavailable("get_PI handler type")
            styles[name] = _pair(body[:2] + t.body, levels)
            hb = [s for s in h.body if not (isinstance(s, ast.Expr) and isinstance(s.value, ast.Call)
                                            and _n(s.value.func) in ("logging.warning", "warnings.warn"))]
            if fallback is not None:
                raise Unavailable("two fall-backs")
            fallback = (name, _pair(hb, levels))
        else:
            styles[name] = _pair(body, levels)
    if set(styles) != {"narrowest", "widest"} or fallback is None or fallback[0] != "narrowest":
        raise Unavailable(f"get_PI styles {sorted(styles)} fallback {fallback and fallback[0]}")
    return {"first": exprs[0], "second": exprs[1], "default": default_style.value,
            "narrowest": styles["narrowest"], "widest": styles["widest"], "fallback": fallback[1]}


def extract(repo):
    tree = ast.parse((pathlib.Path(repo) / SRC).read_text())
    return {"alpha_cut": extract_alpha_cut(tree), "cdf": extract_cdf(tree), "discretise": extract_discretise(tree),
            "outer": extract_outer(tree), "condensation": extract_condensation(tree), "get_PI": extract_pi(tree)}


def _pe(p):
    """(level, end) -> Lean"""
    return f"⟨.{p[0]}, .{p[1]}⟩"


def render(r):
    pi = r["get_PI"]
    L = ["import Pun.Model.Query",
         "/-! GENERATED by harness/pv/translator/cuts.py from src/pyuncertainnumber/pba/pbox_abc.py (Staircase.alpha_cut, cdf, "
         "discretise, outer_discretisation, condensation, get_PI) — do not edit -/",
         "namespace Pun.Gen.Cuts",
         "open Pun",
         "",
         "inductive Side where | left | right deriving DecidableEq, Repr",
         "inductive Slice where | dropLast | tail | all deriving DecidableEq, Repr",
         "inductive End where | lo | hi deriving DecidableEq, Repr",
         "inductive Lvl where | first | second deriving DecidableEq, Repr",
         "/-- one end of the alpha-cut at one of the two levels -/",
         "structure Pick where",
         "  lvl : Lvl",
         "  e : End",
         "  deriving DecidableEq, Repr",
         "/-- one end of the alpha-cuts at a slice of the level array -/",
         "structure BandPick where",
         "  s : Slice",
         "  e : End",
         "  deriving DecidableEq, Repr",
         "",
         "/-! ## extracted from the source -/",
         "",
         f"def cutLo : Side := .{r['alpha_cut']['lo']}",
         f"def cutHi : Side := .{r['alpha_cut']['hi']}",
         f"def cdfLo : Side := .{r['cdf']['lo']}",
         f"def cdfHi : Side := .{r['cdf']['hi']}",
         f"def nativeLo : Side := .{r['discretise']['lo']}",
         f"def nativeHi : Side := .{r['discretise']['hi']}",
         f"def outerLo : BandPick := ⟨.{r['outer']['lo'][0]}, .{r['outer']['lo'][1]}⟩",
         f"def outerHi : BandPick := ⟨.{r['outer']['hi'][0]}, .{r['outer']['hi'][1]}⟩",
         "/-- the first level assigned in `get_PI` -/",
         f"def piFirst (alpha : Rat) : Rat := {pi['first']}",
         "/-- the second level (may refer to the first) -/",
         f"def piSecond (alpha : Rat) : Rat := {pi['second']}",
         f"def narrowLo : Pick := {_pe(pi['narrowest']['lo'])}",
         f"def narrowHi : Pick := {_pe(pi['narrowest']['hi'])}",
         f"def widestLo : Pick := {_pe(pi['widest']['lo'])}",
         f"def widestHi : Pick := {_pe(pi['widest']['hi'])}",
         f"def fallbackLo : Pick := {_pe(pi['fallback']['lo'])}",
         f"def fallbackHi : Pick := {_pe(pi['fallback']['hi'])}",
         f"def defaultNarrow : Bool := {'true' if pi['default'] == 'narrowest' else 'false'}",
         "",
         "end Pun.Gen.Cuts"]
    return "\n".join(L) + "\n"


def generate(repo, out):
    res = extract(repo)
    txt = render(res)
    out = pathlib.Path(out)
    if not out.exists() or out.read_text() != txt:
        out.parent.mkdir(parents=True, exist_ok=True)
        out.write_text(txt)
    return res


if __name__ == "__main__":
    import sys, json
    print(json.dumps(extract(sys.argv[1] if len(sys.argv) > 1 else "/repo"), indent=1))
