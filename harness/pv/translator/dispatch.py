"""Translator: pba/pbox_abc.py (class Staircase), pba/context.py, pba/distributions.py (Distribution.__pow__)
   ->  lean/Pun/Gen/DispatchGen.lean

What is extracted (finite tables over the enums of Pun.Model.DepCtx; the proofs in Props/C16Gen.lean are
proofs over these finite tables, lifted to the unbounded theorems of Props/C16.lean by equality lemmas):

 (1) `add`, `mul`, `pow`: the ONE `match dependency:` statement of the method.
       case "<lit>":  nleft, nright = <R>(<A>, <B>, operator.<add|mul|pow>)      R in frechet_op perfect_op
                                                                                opposite_op independent_op
       case "<lit>":  return frechet_pbox_mul(<A>, <B>)                          A, B in {self, other}
       case _:        raise ValueError(...)                                      (at most once, last)
     lit in {"f","p","o","i"}; a later duplicate literal is dead code and ignored.  Without a `case _` the
     statements after the match must read `nleft` (never assigned before the match): UnboundLocalError.
 (2) `sub`, `div`: statements that do not mention `dependency`, then at most one chain
       if dependency == "<a>": dependency = "<b>"  [elif dependency == "<c>": dependency = "<d>"]…
     then `return self.add(-other, dependency)` / `return self.mul(1 / other, dependency)`
     (receiver `self`, method add|mul|pow, first argument other | -other | 1 / other, second the name
     `dependency`).  No chain at all is recognised too (identity).
 (3) the bare operators `__add__ __radd__ __sub__ __rsub__ __mul__ __truediv__ __pow__`: a single
       return <recv>.<method>(other, dependency=<D>)    recv in self | (-self);  D = get_current_dependency() | "<lit>"
     `__rmul__`: `return self.__mul__(other)`.  `Distribution.__pow__`: `p = self.to_pbox()` then
       return p.pow(other, dependency=<D>).
 (4) context.py: `VAR = ContextVar(<name>, default="<lit>")`; `dependency(<param>)` decorated with
     `contextmanager`, body (after the docstring)
       token = VAR.set(<param> | "<lit>")
       try: yield  finally: <R>          or (no try)   yield ; <R>
     with <R> = VAR.reset(token) | VAR.set("<lit>");  `get_current_dependency`: `return VAR.get()`.

Anything else raises Unavailable (recorded in the evidence, not an alarm).
"""
import ast, pathlib


class Unavailable(Exception):
    pass


LIT = {"f": ".f", "p": ".p", "o": ".o", "i": ".i"}
ROUT = {"frechet_op": ".frechet", "perfect_op": ".perfect", "opposite_op": ".opposite", "independent_op": ".independent"}
FAM = {"add": ".add", "mul": ".mul", "pow": ".pow"}


def _is_name(e, n):
    return isinstance(e, ast.Name) and e.id == n


def _lit(e):
    if isinstance(e, ast.Constant) and isinstance(e.value, str) and e.value in LIT:
        return LIT[e.value]
    raise Unavailable("dependency literal " + ast.unparse(e)[:60])


def _operand(e):
    if _is_name(e, "self"):
        return ".x"
    if _is_name(e, "other"):
        return ".y"
    raise Unavailable("routine operand " + ast.unparse(e)[:60])


def _mentions(node, name):
    return any(isinstance(n, ast.Name) and n.id == name for n in ast.walk(node))


def _routine_call(e):
    """<R>(<A>, <B>, operator.<op>) | frechet_pbox_mul(<A>, <B>)  ->  Lean Call"""
    if not (isinstance(e, ast.Call) and isinstance(e.func, ast.Name) and not e.keywords):
        raise Unavailable("routine call " + ast.unparse(e)[:60])
    fn = e.func.id
    if fn == "frechet_pbox_mul" and len(e.args) == 2:
        return f"⟨.mul, {_operand(e.args[0])}, {_operand(e.args[1])}, .frechet⟩"
    if fn in ROUT and len(e.args) == 3:
        o = e.args[2]
        if not (isinstance(o, ast.Attribute) and _is_name(o.value, "operator") and o.attr in FAM):
            raise Unavailable("operator argument " + ast.unparse(o)[:60])
        return f"⟨{FAM[o.attr]}, {_operand(e.args[0])}, {_operand(e.args[1])}, {ROUT[fn]}⟩"
    raise Unavailable("routine " + fn)


def _match_table(fn):
    ms = [st for st in fn.body if isinstance(st, ast.Match)]
    if len(ms) != 1 or any(isinstance(n, ast.Match) for st in fn.body if st is not ms[0] for n in ast.walk(st)):
        raise Unavailable(f"{fn.name}: expected exactly one match statement")
    m = ms[0]
    if not _is_name(m.subject, "dependency"):
        raise Unavailable(f"{fn.name}: match subject")
    k = fn.body.index(m)
    for st in fn.body[:k]:
        for n in ast.walk(st):
            if isinstance(n, ast.Name) and n.id in ("nleft", "nright") and isinstance(n.ctx, ast.Store):
                raise Unavailable(f"{fn.name}: nleft assigned before the match")
    rows, default, seen = [], None, set()
    for j, c in enumerate(m.cases):
        if c.guard is not None:
            raise Unavailable(f"{fn.name}: guarded case")
        pat = c.pattern
        if isinstance(pat, ast.MatchAs) and pat.pattern is None and pat.name is None:
            if j != len(m.cases) - 1:
                raise Unavailable(f"{fn.name}: wildcard is not last")
            if not (len(c.body) == 1 and isinstance(c.body[0], ast.Raise) and isinstance(c.body[0].exc, ast.Call)
                    and _is_name(c.body[0].exc.func, "ValueError")):
                raise Unavailable(f"{fn.name}: wildcard body")
            default = ".Value"
            continue
        if not isinstance(pat, ast.MatchValue):
            raise Unavailable(f"{fn.name}: case pattern")
        code = _lit(pat.value)
        if len(c.body) != 1:
            raise Unavailable(f"{fn.name}: case body")
        b = c.body[0]
        if isinstance(b, ast.Return):
            call = _routine_call(b.value)
        elif (isinstance(b, ast.Assign) and len(b.targets) == 1 and isinstance(b.targets[0], ast.Tuple)
              and [getattr(x, "id", None) for x in b.targets[0].elts] == ["nleft", "nright"]):
            call = _routine_call(b.value)
        else:
            raise Unavailable(f"{fn.name}: case statement")
        if code not in seen:
            seen.add(code)
            rows.append((code, call))
    if default is None:
        rest = fn.body[k + 1:]
        if not rest or not _mentions(rest[0], "nleft"):
            raise Unavailable(f"{fn.name}: no default case and nleft is not read after the match")
        default = ".Unbound"
    return rows, default


def _swap_and_delegate(fn):
    body = [st for st in fn.body if not (isinstance(st, ast.Expr) and isinstance(st.value, ast.Constant))]
    dep = [st for st in body if _mentions(st, "dependency")]
    if not dep or dep[-1] is not body[-1] or not isinstance(body[-1], ast.Return):
        raise Unavailable(f"{fn.name}: last statement is not the delegating return")
    if len(dep) > 2:
        raise Unavailable(f"{fn.name}: more than one statement rewrites `dependency`")
    chain = []
    if len(dep) == 2:
        node = dep[0]
        while True:
            if not (isinstance(node, ast.If) and isinstance(node.test, ast.Compare) and len(node.test.ops) == 1
                    and isinstance(node.test.ops[0], ast.Eq) and _is_name(node.test.left, "dependency")
                    and len(node.body) == 1 and isinstance(node.body[0], ast.Assign)
                    and len(node.body[0].targets) == 1 and _is_name(node.body[0].targets[0], "dependency")):
                raise Unavailable(f"{fn.name}: swap chain form")
            chain.append((_lit(node.test.comparators[0]), _lit(node.body[0].value)))
            if not node.orelse:
                break
            if len(node.orelse) != 1:
                raise Unavailable(f"{fn.name}: swap chain else")
            node = node.orelse[0]
    r = body[-1].value
    if not (isinstance(r, ast.Call) and isinstance(r.func, ast.Attribute) and _is_name(r.func.value, "self")
            and r.func.attr in ("add", "mul", "pow") and len(r.args) == 2 and not r.keywords
            and _is_name(r.args[1], "dependency")):
        raise Unavailable(f"{fn.name}: delegation")
    a = r.args[0]
    if _is_name(a, "other"):
        arg = ".y"
    elif isinstance(a, ast.UnaryOp) and isinstance(a.op, ast.USub) and _is_name(a.operand, "other"):
        arg = ".negY"
    elif (isinstance(a, ast.BinOp) and isinstance(a.op, ast.Div) and isinstance(a.left, ast.Constant)
          and a.left.value == 1 and type(a.left.value) is int and _is_name(a.right, "other")):
        arg = ".recY"
    else:
        raise Unavailable(f"{fn.name}: delegated operand " + ast.unparse(a)[:40])
    return chain, r.func.attr, arg


def _dep_arg(call):
    kw = [k for k in call.keywords if k.arg == "dependency"]
    if len(kw) != 1 or len(call.keywords) != 1:
        raise Unavailable("dependency keyword")
    v = kw[0].value
    if isinstance(v, ast.Call) and _is_name(v.func, "get_current_dependency") and not v.args and not v.keywords:
        return "get c"
    return _lit(v)


def _operator(fn):
    """return <recv>.<method>(other, dependency=<D>)  ->  (recv, method, D)"""
    body = [st for st in fn.body if not (isinstance(st, ast.Expr) and isinstance(st.value, ast.Constant))]
    if len(body) != 1 or not isinstance(body[0], ast.Return):
        raise Unavailable(f"{fn.name}: body")
    r = body[0].value
    if not (isinstance(r, ast.Call) and isinstance(r.func, ast.Attribute) and len(r.args) == 1 and _is_name(r.args[0], "other")):
        raise Unavailable(f"{fn.name}: call")
    recv = r.func.value
    if _is_name(recv, "self"):
        rv = "self"
    elif isinstance(recv, ast.UnaryOp) and isinstance(recv.op, ast.USub) and _is_name(recv.operand, "self"):
        rv = "neg"
    else:
        raise Unavailable(f"{fn.name}: receiver")
    if r.func.attr == "__mul__" and not r.keywords and rv == "self":
        return rv, "__mul__", None
    if r.func.attr not in ("add", "sub", "mul", "div", "pow"):
        raise Unavailable(f"{fn.name}: method {r.func.attr}")
    return rv, r.func.attr, _dep_arg(r)


def _context(path):
    tree = ast.parse(pathlib.Path(path).read_text())
    var = default = None
    for st in tree.body:
        if (isinstance(st, ast.Assign) and len(st.targets) == 1 and isinstance(st.targets[0], ast.Name)
                and isinstance(st.value, ast.Call) and _is_name(st.value.func, "ContextVar")):
            var = st.targets[0].id
            kw = [k for k in st.value.keywords if k.arg == "default"]
            if len(kw) != 1:
                raise Unavailable("ContextVar default")
            default = _lit(kw[0].value)
    if var is None:
        raise Unavailable("ContextVar not found")
    fns = {f.name: f for f in tree.body if isinstance(f, ast.FunctionDef)}
    if "dependency" not in fns or "get_current_dependency" not in fns:
        raise Unavailable("context functions")
    f = fns["dependency"]
    if [ast.unparse(d) for d in f.decorator_list] != ["contextmanager"] or len(f.args.args) != 1:
        raise Unavailable("dependency(): decorator / parameters")
    param = f.args.args[0].arg
    body = [st for st in f.body if not (isinstance(st, ast.Expr) and isinstance(st.value, ast.Constant))]

    def var_call(e, meth):
        return (isinstance(e, ast.Call) and isinstance(e.func, ast.Attribute) and _is_name(e.func.value, var)
                and e.func.attr == meth and len(e.args) == 1 and not e.keywords)
    if not (body and isinstance(body[0], ast.Assign) and len(body[0].targets) == 1 and _is_name(body[0].targets[0], "token")
            and var_call(body[0].value, "set")):
        raise Unavailable("dependency(): token = VAR.set(...)")
    a = body[0].value.args[0]
    entered = "d" if _is_name(a, param) else _lit(a)

    def is_yield(st):
        return isinstance(st, ast.Expr) and isinstance(st.value, ast.Yield) and st.value.value is None

    def restore(st):
        if not isinstance(st, ast.Expr):
            raise Unavailable("dependency(): restore statement")
        e = st.value
        if var_call(e, "reset") and _is_name(e.args[0], "token"):
            return "token"
        if var_call(e, "set"):
            return _lit(e.args[0])
        raise Unavailable("dependency(): restore statement " + ast.unparse(e)[:60])
    rest = body[1:]
    if (len(rest) == 1 and isinstance(rest[0], ast.Try) and not rest[0].handlers and not rest[0].orelse
            and len(rest[0].body) == 1 and is_yield(rest[0].body[0]) and len(rest[0].finalbody) == 1):
        in_finally, rst = True, restore(rest[0].finalbody[0])
    elif len(rest) == 2 and is_yield(rest[0]):
        in_finally, rst = False, restore(rest[1])
    else:
        raise Unavailable("dependency(): try/yield/finally form")
    g = fns["get_current_dependency"]
    gb = [st for st in g.body if not (isinstance(st, ast.Expr) and isinstance(st.value, ast.Constant))]
    if not (len(gb) == 1 and isinstance(gb[0], ast.Return) and isinstance(gb[0].value, ast.Call)
            and isinstance(gb[0].value.func, ast.Attribute) and _is_name(gb[0].value.func.value, var)
            and gb[0].value.func.attr == "get" and not gb[0].value.args and not gb[0].value.keywords):
        raise Unavailable("get_current_dependency()")
    return {"default": default, "entered": entered, "in_finally": in_finally, "restore": rst}


def extract(repo):
    src = pathlib.Path(repo) / "src/pyuncertainnumber/pba"
    tree = ast.parse((src / "pbox_abc.py").read_text())
    cls = [c for c in tree.body if isinstance(c, ast.ClassDef) and c.name == "Staircase"]
    if len(cls) != 1:
        raise Unavailable("class Staircase")
    fns = {}
    for f in cls[0].body:
        if isinstance(f, ast.FunctionDef):
            if f.name in fns:
                raise Unavailable(f"{f.name} defined twice")
            fns[f.name] = f
    need = ["add", "mul", "pow", "sub", "div", "__add__", "__radd__", "__sub__", "__rsub__", "__mul__", "__rmul__",
            "__truediv__", "__pow__"]
    for n in need:
        if n not in fns:
            raise Unavailable(f"Staircase.{n} not found")
    res = {"tables": {n: _match_table(fns[n]) for n in ("add", "mul", "pow")},
           "delegate": {n: _swap_and_delegate(fns[n]) for n in ("sub", "div")},
           "operators": {n: _operator(fns[n]) for n in need[5:]}}
    dtree = ast.parse((src / "distributions.py").read_text())
    dcls = [c for c in dtree.body if isinstance(c, ast.ClassDef) and c.name == "Distribution"]
    dp = [f for c in dcls for f in c.body if isinstance(f, ast.FunctionDef) and f.name == "__pow__"]
    if len(dp) != 1:
        raise Unavailable("Distribution.__pow__")
    b = dp[0].body
    if not (len(b) == 2 and isinstance(b[0], ast.Assign) and ast.unparse(b[0]) == "p = self.to_pbox()"
            and isinstance(b[1], ast.Return) and isinstance(b[1].value, ast.Call)
            and ast.unparse(b[1].value.func) == "p.pow" and len(b[1].value.args) == 1 and _is_name(b[1].value.args[0], "other")):
        raise Unavailable("Distribution.__pow__ form")
    res["dist_pow"] = _dep_arg(b[1].value)
    res["context"] = _context(src / "context.py")
    return res


def _swap_fn(name, ty, chain, unk):
    lines = [f"def {name} : {ty} → {ty}"]
    seen = set()
    for a, b in chain:
        if a not in seen:
            seen.add(a)
            lines.append(f"  | {a} => {b}")
    lines.append("  | d => d")
    return "\n".join(lines)


def render(res):
    o = ["import Pun.Model.DepCtx", "import Pun.Model.PBox",
         "/-! GENERATED by harness/pv/translator/dispatch.py from src/pyuncertainnumber/pba/{pbox_abc,context,distributions}.py — do not edit -/",
         "namespace Pun.Gen.Dispatch", "open Pun Pun.DepCtx", ""]
    for n in ("add", "mul", "pow"):
        rows, default = res["tables"][n]
        o.append(f"/-- the `match dependency:` of `Staircase.{n}` -/")
        o.append(f"def {n}Gen : Code → Except Err Call")
        for code, call in rows:
            o.append(f"  | {code} => .ok {call}")
        o.append(f"  | _ => .error {default}")
        o.append("")
    o.append("/-- the second operand of the delegating call replaces `other` -/")
    o.append("def substY (r : Arg) (c : Call) : Call :=")
    o.append("  { c with a := (if c.a = .y then r else c.a), b := (if c.b = .y then r else c.b) }")
    o.append("")
    for n in ("sub", "div"):
        chain, target, arg = res["delegate"][n]
        o.append(f"/-- the `if dependency == …: dependency = …` chain of `Staircase.{n}` -/")
        o.append(_swap_fn(f"{n}SwapGen", "Code", chain, None))
        o.append("")
        dchain = [(a.replace(".", "Pun.PBox.Dep."), b.replace(".", "Pun.PBox.Dep.")) for a, b in chain]
        o.append(_swap_fn(f"{n}SwapDepGen", "Pun.PBox.Dep", dchain, None))
        o.append("")
        o.append(f"/-- `Staircase.{n}`: delegates to `self.{target}(…, dependency)` -/")
        o.append(f"def {n}Gen (d : Code) : Except Err Call := ({target}Gen ({n}SwapGen d)).map (substY {arg})")
        o.append("")
    o.append("/-- the reflected operators are methods of the RIGHT operand: `self` is `y`, `other` is `x` -/")
    o.append("def reflect (recv : Arg) (c : Call) : Call :=")
    o.append("  let f : Arg → Arg := fun a => match a with | .x => recv | .y => .x | a => a")
    o.append("  { c with a := f c.a, b := f c.b }")
    o.append("")
    ops = res["operators"]
    OPNAME = {"__add__": ".add", "__sub__": ".sub", "__mul__": ".mul", "__truediv__": ".div", "__pow__": ".pow",
              "__radd__": ".radd", "__rsub__": ".rsub", "__rmul__": ".rmul"}
    o.append("/-- what each bare operator computes once its dependency argument has the value `δ` -/")
    o.append("def bodyGen (op : Op) (δ : Code) : Except Err Call :=")
    o.append("  match op with")
    deps = {}
    for py, lean in OPNAME.items():
        rv, meth, dep = ops[py]
        if meth == "__mul__":
            rv2, meth2, dep2 = ops["__mul__"]
            if rv2 != "self":
                raise Unavailable("__mul__ receiver")
            expr, dep = f"({meth2}Gen δ).map (reflect .y)", dep2
        elif py.startswith("__r"):
            expr = f"({meth}Gen δ).map (reflect {'.negY' if rv == 'neg' else '.y'})"
        else:
            if rv != "self":
                raise Unavailable(f"{py}: receiver")
            expr = f"{meth}Gen δ"
        deps[lean] = dep
        o.append(f"  | {lean} => {expr}")
    o.append("  | .powD => powGen δ")
    deps[".powD"] = res["dist_pow"]
    o.append("")
    o.append("/-- the value each bare operator passes as `dependency=` -/")
    o.append("def depArgGen (op : Op) (c : Ctx) : Code :=")
    o.append("  match op with")
    for lean, dep in deps.items():
        o.append(f"  | {lean} => {dep}")
    o.append("")
    o.append("def operatorGen (op : Op) (c : Ctx) : Except Err Call := bodyGen op (depArgGen op c)")
    o.append("")
    cx = res["context"]
    o.append("/-- the default of the ContextVar -/")
    o.append(f"def defaultGen : Code := {cx['default']}")
    o.append("")
    o.append("/-- `token = VAR.set(…)` on entering the block -/")
    o.append(f"def enterGen (c : Ctx) (d : Code) : Ctx := ⟨{cx['entered']}, c.cur :: c.toks⟩")
    o.append("")
    restored = "some ⟨t, ts⟩" if cx["restore"] == "token" else f"some ⟨{cx['restore']}, ts⟩"
    o.append("/-- the statement that runs when the block is left with its restoring statement executed -/")
    o.append("def restoreGen (c : Ctx) : Option Ctx :=")
    o.append("  match c.toks with")
    o.append("  | [] => none")
    o.append(f"  | t :: ts => {restored}")
    o.append("")
    o.append("/-- the block is left without the restoring statement being executed: the token is dropped -/")
    o.append("def skipGen (c : Ctx) : Option Ctx :=")
    o.append("  match c.toks with")
    o.append("  | [] => none")
    o.append("  | _ :: ts => some ⟨c.cur, ts⟩")
    o.append("")
    exc = "restoreGen c" if cx["in_finally"] else "skipGen c"
    o.append("/-- normal exit / exception / generator close, as the source places the restoring statement -/")
    o.append("def stepGen (c : Ctx) : Ev → Option Ctx")
    o.append("  | .enter d => some (enterGen c d)")
    o.append("  | .exit => restoreGen c")
    o.append(f"  | .raise => {exc}")
    o.append(f"  | .genClose => {exc}")
    o.append("  | e => stepCtx c e")
    o.append("")
    o.append("def runGen (c : Ctx) : List Ev → Option Ctx")
    o.append("  | [] => some c")
    o.append("  | e :: es => (stepGen c e).bind (fun c' => runGen c' es)")
    o.append("")
    o.append("end Pun.Gen.Dispatch")
    return "\n".join(o) + "\n"


def generate(repo, out):
    res = extract(repo)
    pathlib.Path(out).write_text(render(res))
    return res
