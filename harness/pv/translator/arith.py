"""Translator: pba/intervals/arithmetic.py  ->  lean/Pun/Gen/ArithGen.lean

Recognised forms only (anything else raises Unavailable -> the check falls
back to the correspondence, no alarm by itself):
  scalar branch :  if <guard>: l, h = e1, e2      |  if <guard>: l = e1 ; h = e2
  masked branch :  m = <guard> ; l[m] = e1 ; h[m] = e2
guards  : & | on comparisons (>= > <= <) of s_lo s_hi o_lo o_hi against 0
exprs   : * / of those names (subscripts by the mask are dropped),
          numpy.min/max((e..), axis=0)
The result is eight Lean functions  Gen.{mul,div}_{ss,aa,sa,as} a b c d  as a
fold of `step guard value` in source order (later overwrites earlier).
"""
import ast, pathlib

class Unavailable(Exception):
    pass

VAR = {"s_lo": "a", "s_hi": "b", "o_lo": "c", "o_hi": "d"}
CMP = {ast.GtE: "≥", ast.Gt: ">", ast.LtE: "≤", ast.Lt: "<"}


def _name(e):
    if isinstance(e, ast.Subscript):
        e = e.value
    if isinstance(e, ast.Name) and e.id in VAR:
        return VAR[e.id]
    raise Unavailable(f"operand {ast.dump(e)[:80]}")


def _guard(e):
    if isinstance(e, ast.BinOp) and isinstance(e.op, (ast.BitAnd, ast.BitOr)):
        op = "∧" if isinstance(e.op, ast.BitAnd) else "∨"
        return f"({_guard(e.left)} {op} {_guard(e.right)})"
    if isinstance(e, ast.Compare) and len(e.ops) == 1 and type(e.ops[0]) in CMP:
        rhs = e.comparators[0]
        if not (isinstance(rhs, ast.Constant) and rhs.value == 0):
            raise Unavailable("comparison not against 0")
        return f"{_name(e.left)} {CMP[type(e.ops[0])]} 0"
    raise Unavailable(f"guard {ast.dump(e)[:80]}")


def _expr(e):
    if isinstance(e, ast.BinOp) and isinstance(e.op, (ast.Mult, ast.Div)):
        op = "*" if isinstance(e.op, ast.Mult) else "/"
        return f"({_expr(e.left)} {op} {_expr(e.right)})"
    if isinstance(e, (ast.Name, ast.Subscript)):
        return _name(e)
    if isinstance(e, ast.Call) and isinstance(e.func, ast.Attribute) and e.func.attr in ("min", "max"):
        if not (e.args and isinstance(e.args[0], ast.Tuple)):
            raise Unavailable("min/max argument")
        xs = [_expr(x) for x in e.args[0].elts]
        f = e.func.attr
        out = xs[0]
        if len(xs) == 4:
            return f"({f}4 {xs[0]} {xs[1]} {xs[2]} {xs[3]})"
        for x in xs[1:]:
            out = f"({f} {out} {x})"
        return out
    raise Unavailable(f"expr {ast.dump(e)[:80]}")


def _scalar_steps(body):
    steps = []
    for st in body:
        if not isinstance(st, ast.If) or st.orelse:
            raise Unavailable("scalar branch: non-if statement")
        lo = hi = None
        for a in st.body:
            if not isinstance(a, ast.Assign) or len(a.targets) != 1:
                raise Unavailable("scalar branch body")
            t = a.targets[0]
            if isinstance(t, ast.Tuple) and [x.id for x in t.elts] == ["l", "h"]:
                lo, hi = _expr(a.value.elts[0]), _expr(a.value.elts[1])
            elif isinstance(t, ast.Name) and t.id == "l":
                lo = _expr(a.value)
            elif isinstance(t, ast.Name) and t.id == "h":
                hi = _expr(a.value)
            else:
                raise Unavailable("scalar branch target")
        if lo is None or hi is None:
            raise Unavailable("scalar branch: missing l/h")
        steps.append((_guard(st.test), lo, hi))
    return steps


def _masked_steps(body):
    steps, masks, cur = [], {}, {}
    order = []
    for st in body:
        if not isinstance(st, ast.Assign) or len(st.targets) != 1:
            raise Unavailable("masked branch statement")
        t = st.targets[0]
        if isinstance(t, ast.Tuple) and [getattr(x, "id", None) for x in t.elts] == ["l", "h"]:
            continue  # l, h = numpy.empty(...), numpy.empty(...)
        if isinstance(t, ast.Name):
            masks[t.id] = _guard(st.value)
            order.append(t.id)
            cur[t.id] = {}
            continue
        if isinstance(t, ast.Subscript) and isinstance(t.value, ast.Name) and t.value.id in ("l", "h"):
            m = t.slice.id if isinstance(t.slice, ast.Name) else None
            if m not in masks:
                raise Unavailable("mask used before definition")
            cur[m][t.value.id] = _expr(st.value)
            continue
        raise Unavailable("masked branch target")
    for m in order:
        if set(cur[m]) != {"l", "h"}:
            raise Unavailable(f"mask {m} does not assign both bounds")
        steps.append((masks[m], cur[m]["l"], cur[m]["h"]))
    return steps


def _branches(fn):
    """the if/elif/elif/elif chain on shapes -> {'ss','aa','sa','as'}"""
    chain = [st for st in fn.body if isinstance(st, ast.If)]
    top = None
    for st in chain:
        src = ast.unparse(st.test)
        if "scalar" in src:
            top = st
    if top is None:
        raise Unavailable("shape dispatch not found")
    out = {}
    node, names = top, ["ss", "aa", "sa", "as"]
    for i, nm in enumerate(names):
        out[nm] = _scalar_steps(node.body) if nm == "ss" else _masked_steps(node.body)
        if i < 3:
            if len(node.orelse) != 1 or not isinstance(node.orelse[0], ast.If):
                raise Unavailable("shape dispatch chain")
            node = node.orelse[0]
    return out


def extract(path):
    tree = ast.parse(pathlib.Path(path).read_text())
    fns = {f.name: f for f in tree.body if isinstance(f, ast.FunctionDef)}
    if "multiply" not in fns or "divide" not in fns:
        raise Unavailable("multiply/divide not found")
    res = {"mul": _branches(fns["multiply"]), "div": _branches(fns["divide"])}
    # zero-straddle guard of divide
    g = None
    for st in fns["divide"].body:
        if isinstance(st, ast.Assign) and isinstance(st.targets[0], ast.Name) and "straddle" in st.targets[0].id:
            call = st.value
            if isinstance(call, ast.Call) and call.args:
                src = ast.unparse(call.args[0]).replace(".flatten()", "")
                g = _guard(ast.parse(src, mode="eval").body)
    raised = any(isinstance(st, ast.If) and any(isinstance(x, ast.Raise) for x in st.body) for st in fns["divide"].body)
    if g is None or not raised:
        raise Unavailable("divide: zero-straddle guard not found")
    res["div_guard"] = g
    return res


def render(res):
    L = ["import Pun.Model.Arith",
         "/-! GENERATED by harness/pv/translator/arith.py from /repo/src/pyuncertainnumber/pba/intervals/arithmetic.py — do not edit -/",
         "namespace Pun.Gen", "open Pun.Arith", ""]
    for op in ("mul", "div"):
        for br in ("ss", "aa", "sa", "as"):
            steps = res[op][br]
            L.append(f"def {op}_{br} (a b c d : Rat) : Option (Rat × Rat) :=")
            for g, lo, hi in reversed(steps):
                L.append(f"  step ({g}) ({lo}, {hi}) <|")
            L.append("  none")
            L.append("")
    L.append(f"def div_guard (c d : Rat) : Prop := {res['div_guard']}")
    L.append("instance (c d : Rat) : Decidable (div_guard c d) := by unfold div_guard; infer_instance")
    L.append("")
    L.append("end Pun.Gen")
    return "\n".join(L) + "\n"


def generate(repo, out):
    res = extract(pathlib.Path(repo) / "src/pyuncertainnumber/pba/intervals/arithmetic.py")
    txt = render(res)
    out = pathlib.Path(out)
    if not out.exists() or out.read_text() != txt:
        out.parent.mkdir(parents=True, exist_ok=True)
        out.write_text(txt)
    return res


if __name__ == "__main__":
    import sys
    print(render(extract(sys.argv[1])))
