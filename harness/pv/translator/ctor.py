"""Translator: the validation done by the p-box constructor  ->  lean/Pun/Gen/CtorGen.lean

Sources: pba/utils.py (`is_increasing`, `left_right_switch`), pba/pbox_abc.py (`Pbox.__init__`, `Pbox.steps_check`,
`Pbox.post_init_check`, the `left` / `right` setters).  Recognised forms only (anything else raises Unavailable -> the check
falls back to the correspondence, no alarm by itself).  Docstrings and comments are skipped.

  is_increasing(arr):        return np.all(np.diff(arr) <cmp> <int>)
  left_right_switch(left, right):
        if np.<all|any>(<left|right> <cmp> <left|right>): left, right = right, left; return left, right
        else: return left, right
  Pbox.__init__:             first statement `left, right = left_right_switch(left, right)`, then
                             `self.left = np.array(left, dtype=float)`, `self.right = np.array(right, dtype=float)`,
                             last statement `self.post_init_check()`
  left / right setters:      `self._left = bound_steps_check(value)` (normalisation of the length), `self.steps = len(...)`
  Pbox.steps_check:          assert len(self.left) <cmp> len(self.right), <msg>
  Pbox.post_init_check:      self.steps_check()
                             if (not is_increasing(self.<S>)) or (not is_increasing(self.<S>)): raise <Exc>(...)
                             if np.<any|all>(self.<S> <cmp> self.<S>): raise <Exc>(...)
                             (these three first and in this order; what follows - moments, range, degenerate flag - is
                             not part of the validation and is not read)

Extracted: every comparison, quantifier, operand side, the threshold of the monotonicity test, what each branch of the switch
returns, which bound each `__init__` argument is stored in, and the exception classes.
"""
import ast, pathlib


class Unavailable(Exception):
    pass


UTILS = "src/pyuncertainnumber/pba/utils.py"
ABC = "src/pyuncertainnumber/pba/pbox_abc.py"
CMP = {ast.GtE: "ge", ast.Gt: "gt", ast.LtE: "le", ast.Lt: "lt", ast.Eq: "eq", ast.NotEq: "ne"}
ERR = {"Exception": "Other", "ValueError": "Value", "AssertionError": "Assertion", "TypeError": "Type",
       "NotIncreasingError": "Other"}


def _body(fn):
    b = list(fn.body)
    if b and isinstance(b[0], ast.Expr) and isinstance(b[0].value, ast.Constant) and isinstance(b[0].value.value, str):
        b = b[1:]
    return b


def _n(e):
    return ast.unparse(e).replace(" ", "").replace("'", '"')


def _fn(tree, name):
    fs = [f for f in tree.body if isinstance(f, ast.FunctionDef) and f.name == name]
    if len(fs) != 1:
        raise Unavailable(f"{name}: {len(fs)} definitions")
    return fs[0]


def _method(tree, cls, name, deco=None):
    for c in tree.body:
        if isinstance(c, ast.ClassDef) and c.name == cls:
            fs = [f for f in c.body if isinstance(f, ast.FunctionDef) and f.name == name
                  and (deco is None or any(_n(d) == deco for d in f.decorator_list))]
            if len(fs) == 1:
                return fs[0]
            raise Unavailable(f"{cls}.{name}: {len(fs)} definitions")
    raise Unavailable(f"class {cls} not found")


def _np_quant(e):
    """np.all(<x>) / np.any(<x>) -> (quant, x)"""
    if isinstance(e, ast.Call) and _n(e.func) in ("np.all", "np.any") and len(e.args) == 1 and not e.keywords:
        return _n(e.func)[3:], e.args[0]
    raise Unavailable(f"not np.all / np.any: {_n(e)[:60]}")


def _compare(e):
    if isinstance(e, ast.Compare) and len(e.ops) == 1 and type(e.ops[0]) in CMP:
        return CMP[type(e.ops[0])], e.left, e.comparators[0]
    raise Unavailable(f"not a single comparison: {_n(e)[:60]}")


def _raise_kind(st):
    if not isinstance(st, ast.Raise) or st.exc is None:
        raise Unavailable("not a raise")
    exc = st.exc
    nm = exc.func.id if isinstance(exc, ast.Call) and isinstance(exc.func, ast.Name) else (exc.id if isinstance(exc, ast.Name) else None)
    if nm not in ERR:
        raise Unavailable(f"raises {nm}")
    return ERR[nm]


def extract_is_increasing(tree):
    fn = _fn(tree, "is_increasing")
    b = _body(fn)
    if [a.arg for a in fn.args.args] != ["arr"] or len(b) != 1 or not isinstance(b[0], ast.Return):
        raise Unavailable("is_increasing shape")
    quant, inner = _np_quant(b[0].value)
    cmp_, l, r = _compare(inner)
    if _n(l) != "np.diff(arr)":
        raise Unavailable(f"is_increasing operand {_n(l)}")
    if not (isinstance(r, ast.Constant) and isinstance(r.value, int) and not isinstance(r.value, bool)):
        raise Unavailable(f"is_increasing threshold {_n(r)}")
    return {"quant": quant, "cmp": cmp_, "threshold": r.value}


def extract_switch(tree):
    fn = _fn(tree, "left_right_switch")
    b = _body(fn)
    if [a.arg for a in fn.args.args] != ["left", "right"] or len(b) != 1 or not isinstance(b[0], ast.If):
        raise Unavailable("left_right_switch shape")
    st = b[0]
    quant, inner = _np_quant(st.test)
    cmp_, l, r = _compare(inner)
    if not all(isinstance(x, ast.Name) and x.id in ("left", "right") for x in (l, r)):
        raise Unavailable("left_right_switch operands")

    def branch(stmts):
        """the pair returned, as (name stored first, name stored second) in terms of the ARGUMENTS"""
        env = {"left": "left", "right": "right"}
        for s in stmts:
            if isinstance(s, ast.Assign) and len(s.targets) == 1 and isinstance(s.targets[0], ast.Tuple) \
                    and isinstance(s.value, ast.Tuple) and len(s.targets[0].elts) == 2 and len(s.value.elts) == 2 \
                    and all(isinstance(x, ast.Name) and x.id in env for x in s.targets[0].elts + s.value.elts):
                new = [env[x.id] for x in s.value.elts]
                for t, v in zip(s.targets[0].elts, new):
                    env[t.id] = v
                continue
            if isinstance(s, ast.Return) and isinstance(s.value, ast.Tuple) and len(s.value.elts) == 2 \
                    and all(isinstance(x, ast.Name) and x.id in env for x in s.value.elts):
                return [env[x.id] for x in s.value.elts]
            raise Unavailable(f"left_right_switch statement: {_n(s)[:60]}")
        raise Unavailable("left_right_switch branch without return")

    t, f = branch(st.body), branch(st.orelse)
    for pr in (t, f):
        if sorted(pr) != ["left", "right"]:
            raise Unavailable(f"left_right_switch returns {pr}")
    return {"quant": quant, "cmp": cmp_, "l": l.id, "r": r.id, "true_swaps": t == ["right", "left"], "false_swaps": f == ["right", "left"]}


def extract_init(tree):
    fn = _method(tree, "Pbox", "__init__")
    b = [s for s in _body(fn)]
    if [a.arg for a in fn.args.args][:3] != ["self", "left", "right"]:
        raise Unavailable("Pbox.__init__ signature")
    if _n(b[0]) != "left,right=left_right_switch(left,right)" and _n(b[0]) != "(left,right)=left_right_switch(left,right)":
        raise Unavailable(f"Pbox.__init__ first statement: {_n(b[0])[:70]}")
    if _n(b[-1]) != "self.post_init_check()":
        raise Unavailable(f"Pbox.__init__ last statement: {_n(b[-1])[:70]}")
    stored = {}
    for s in b[1:-1]:
        if isinstance(s, ast.Assign) and len(s.targets) == 1 and _n(s.targets[0]) in ("self.left", "self.right"):
            v = s.value
            if not (isinstance(v, ast.Call) and _n(v.func) == "np.array" and len(v.args) == 1 and isinstance(v.args[0], ast.Name)
                    and v.args[0].id in ("left", "right") and [(k.arg, _n(k.value)) for k in v.keywords] == [("dtype", "float")]):
                raise Unavailable(f"bound assignment: {_n(s)[:70]}")
            if _n(s.targets[0]) in stored:
                raise Unavailable("bound assigned twice")
            stored[_n(s.targets[0])[5:]] = v.args[0].id
    if sorted(stored) != ["left", "right"] or sorted(stored.values()) != ["left", "right"]:
        raise Unavailable(f"bounds stored: {stored}")
    for side in ("left", "right"):
        st = _method(tree, "Pbox", side, deco=f"{side}.setter")
        sb = _body(st)
        if len(sb) != 2 or _n(sb[0]) != f"self._{side}=bound_steps_check(value)" or _n(sb[1]) != f"self.steps=len(self._{side})":
            raise Unavailable(f"{side} setter")
        g = _method(tree, "Pbox", side, deco="property")
        if [_n(s) for s in _body(g)] != [f"returnself._{side}"]:
            raise Unavailable(f"{side} getter")
    return {"left_from": stored["left"], "right_from": stored["right"]}


def _self_side(e):
    if isinstance(e, ast.Attribute) and isinstance(e.value, ast.Name) and e.value.id == "self" and e.attr in ("left", "right"):
        return e.attr
    raise Unavailable(f"not self.left / self.right: {_n(e)[:50]}")


def extract_steps_check(tree):
    fn = _method(tree, "Pbox", "steps_check")
    b = _body(fn)
    if len(b) != 1 or not isinstance(b[0], ast.Assert):
        raise Unavailable("steps_check shape")
    cmp_, l, r = _compare(b[0].test)
    sides = []
    for x in (l, r):
        if not (isinstance(x, ast.Call) and _n(x.func) == "len" and len(x.args) == 1):
            raise Unavailable("steps_check operands")
        sides.append(_self_side(x.args[0]))
    if sorted(sides) != ["left", "right"]:
        raise Unavailable(f"steps_check compares {sides}")
    return {"cmp": cmp_}


def extract_post(tree):
    fn = _method(tree, "Pbox", "post_init_check")
    b = _body(fn)
    if len(b) < 3 or _n(b[0]) != "self.steps_check()" or not isinstance(b[1], ast.If) or not isinstance(b[2], ast.If):
        raise Unavailable("post_init_check shape")
    inc, cross = b[1], b[2]
    for st in (inc, cross):
        if st.orelse or len(st.body) != 1:
            raise Unavailable("post_init_check branch shape")
    t = inc.test
    if not (isinstance(t, ast.BoolOp) and isinstance(t.op, ast.Or)):
        raise Unavailable(f"monotonicity test: {_n(t)[:70]}")
    sides = []
    for v in t.values:
        if not (isinstance(v, ast.UnaryOp) and isinstance(v.op, ast.Not) and isinstance(v.operand, ast.Call)
                and _n(v.operand.func) == "is_increasing" and len(v.operand.args) == 1 and not v.operand.keywords):
            raise Unavailable(f"monotonicity disjunct: {_n(v)[:60]}")
        sides.append(_self_side(v.operand.args[0]))
    quant, inner = _np_quant(cross.test)
    cmp_, l, r = _compare(inner)
    return {"inc_sides": sides, "inc_err": _raise_kind(inc.body[0]),
            "cross": {"quant": quant, "cmp": cmp_, "l": _self_side(l), "r": _self_side(r)}, "cross_err": _raise_kind(cross.body[0])}


def extract(repo):
    ut = ast.parse((pathlib.Path(repo) / UTILS).read_text())
    ab = ast.parse((pathlib.Path(repo) / ABC).read_text())
    return {"is_increasing": extract_is_increasing(ut), "switch": extract_switch(ut), "init": extract_init(ab),
            "steps_check": extract_steps_check(ab), "post": extract_post(ab)}


INTERP = r'''
/-! ## fixed interpreter of the extracted choices (not generated from the source; the constants above are) -/

/-- a comparison of two array entries; every comparison with NaN (`none`) is false except `!=` -/
def cmpN (c : Cmp) : NR → NR → Bool
  | some a, some b =>
    match c with
    | .ge => decide (a ≥ b)
    | .gt => decide (a > b)
    | .le => decide (a ≤ b)
    | .lt => decide (a < b)
    | .eq => decide (a = b)
    | .ne => decide (a ≠ b)
  | _, _ => match c with | .ne => true | _ => false

def cmpNat (c : Cmp) (a b : Nat) : Bool :=
  match c with
  | .ge => decide (a ≥ b)
  | .gt => decide (a > b)
  | .le => decide (a ≤ b)
  | .lt => decide (a < b)
  | .eq => decide (a = b)
  | .ne => decide (a ≠ b)

def quantAp {α : Type} : Quant → List α → (α → Bool) → Bool
  | .all, l, f => l.all f
  | .any, l, f => l.any f

def pick {α : Type} (s : Side) (l r : α) : α :=
  match s with
  | .left => l
  | .right => r

def subN : NR → NR → NR
  | some a, some b => some (a - b)
  | _, _ => none

/-- `np.diff(arr)` -/
def diffN : List NR → List NR
  | a :: b :: t => subN b a :: diffN (b :: t)
  | _ => []

/-- `is_increasing(arr)` as written -/
def incGen (l : List NR) : Bool := quantAp incQuant (diffN l) (fun d => cmpN incCmp d (some incThreshold))

/-- the test of `left_right_switch` on arrays (numpy broadcasting of a length-one operand as in the hand model) -/
def switchTestGen (l r : List NR) : Except Err Bool :=
  let a := pick swL l r
  let b := pick swR l r
  if a.length = b.length then .ok (quantAp swQuant (a.zip b) (fun p => cmpN swCmp p.1 p.2))
  else match a, b with
    | [x], _ => .ok (quantAp swQuant b (fun y => cmpN swCmp x y))
    | _, [y] => .ok (quantAp swQuant a (fun x => cmpN swCmp x y))
    | _, _ => .error .Value

/-- `post_init_check` on the normalised bounds -/
def postGen (l r : List NR) : Except Err PB :=
  if !(cmpNat stepsCmp l.length r.length) then .error .Assertion
  else if incSides.any (fun s => !(incGen (pick s l r))) then .error incErr
  else match unN l, unN r with
    | some l', some r' =>
      if quantAp crossQuant ((pick crossL l' r').zip (pick crossR l' r')) (fun p => cmpN crossCmp (some p.1) (some p.2))
      then .error crossErr else .ok ⟨l', r'⟩
    | _, _ => .error .Other

/-- the constructor after the switch decision: the two setters (`bound_steps_check`), then `post_init_check` -/
def mkCoreGen (c : Cfg) (l r : List NR) : Except Err PB := do
  let l ← boundStepsN c l
  let r ← boundStepsN c r
  postGen l r

/-- `Pbox.__init__`: `first, second = left_right_switch(left, right)`, `self.left = <leftFrom>`, `self.right = <rightFrom>` -/
def mkGen (c : Cfg) (lists : Bool) (l r : List NR) : Except Err PB := do
  let sw ← if lists then (.ok (lexGeN l r) : Except Err Bool) else switchTestGen l r
  let swaps := if sw then swTrueSwaps else swFalseSwaps
  let first := if swaps then r else l
  let second := if swaps then l else r
  mkCoreGen c (pick leftFrom first second) (pick rightFrom first second)
'''


def render(r):
    sw, po = r["switch"], r["post"]
    b = lambda x: "true" if x else "false"
    L = ["import Pun.Model.WellFormed",
         "/-! GENERATED by harness/pv/translator/ctor.py from src/pyuncertainnumber/pba/utils.py (is_increasing, left_right_switch) "
         "and pba/pbox_abc.py (Pbox.__init__, steps_check, post_init_check, bound setters) — do not edit -/",
         "namespace Pun.Gen.Ctor",
         "open Pun Pun.PBox Pun.WF",
         "",
         "inductive Cmp where | ge | gt | le | lt | eq | ne deriving DecidableEq, Repr",
         "inductive Quant where | all | any deriving DecidableEq, Repr",
         "inductive Side where | left | right deriving DecidableEq, Repr",
         "",
         "/-! ## extracted from the source -/",
         "",
         f"def incQuant : Quant := .{r['is_increasing']['quant']}",
         f"def incCmp : Cmp := .{r['is_increasing']['cmp']}",
         f"def incThreshold : Rat := {r['is_increasing']['threshold']}",
         f"def swQuant : Quant := .{sw['quant']}",
         f"def swCmp : Cmp := .{sw['cmp']}",
         f"def swL : Side := .{sw['l']}",
         f"def swR : Side := .{sw['r']}",
         f"def swTrueSwaps : Bool := {b(sw['true_swaps'])}",
         f"def swFalseSwaps : Bool := {b(sw['false_swaps'])}",
         f"def leftFrom : Side := .{r['init']['left_from']}",
         f"def rightFrom : Side := .{r['init']['right_from']}",
         f"def stepsCmp : Cmp := .{r['steps_check']['cmp']}",
         f"def incSides : List Side := [{', '.join('.' + s for s in po['inc_sides'])}]",
         f"def incErr : Err := .{po['inc_err']}",
         f"def crossQuant : Quant := .{po['cross']['quant']}",
         f"def crossCmp : Cmp := .{po['cross']['cmp']}",
         f"def crossL : Side := .{po['cross']['l']}",
         f"def crossR : Side := .{po['cross']['r']}",
         f"def crossErr : Err := .{po['cross_err']}",
         INTERP.rstrip("\n"),
         "",
         "end Pun.Gen.Ctor"]
    return "\n".join(L) + "\n"


def generate(repo, out):
    res = extract(repo)
    txt = render(res)
    out = pathlib.Path(out)
    if not out.exists() or out.read_text() != txt:
        out.parent.mkdir(parents=True, exist_ok=True)
        out.write_text(txt)
    return res


if __name__ == "__main__":
    import sys, json
    print(json.dumps(extract(sys.argv[1] if len(sys.argv) > 1 else "/repo"), indent=1))
