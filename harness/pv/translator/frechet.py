"""Translator: pba/operation.py  frechet_op  ->  lean/Pun/Gen/FrechetGen.lean            (properties C02, C03)

Recognised form only (anything else raises Unavailable -> the check falls back to the correspondence, no alarm
by itself):

    def frechet_op(x, y, op=operator.add):
        [docstring] [assert ...]
        n = x.steps
        A = np.empty(n)
        B = np.empty(n)
        for i in range(0, n):                      # or range(n)
            <idx> = np.arange(<aff>, <aff>[, +-1])           # four of these, bounds affine in i and n
            A[i] = np.min|np.max(op(x.<left|right>[<idx>], y.<left|right>[<idx>]))
            B[i] = np.min|np.max(op(x.<left|right>[<idx>], y.<left|right>[<idx>]))
        [A.sort()] [B.sort()]
        return P, Q                                # P, Q = A, B in either order

Extracted, as a `Pun.FrechetInterp.Spec`: for the array returned FIRST (the left bound of the result) and the
one returned SECOND (the right bound) the two index ranges (start, stop as c0 + ci*i + cn*n, step), the
reduction, the bound of x and of y that is read, and whether the array is sorted after the loop.
`Pun/Props/C02Gen.lean` proves that executing this specification is the hand model `Pun.PBox.frechetOp`
for operands of any common length — an unbounded statement, by list extensionality, not a finite table.
"""
import ast, pathlib


class Unavailable(Exception):
    pass


def _aff(e, i, n):
    """(c0, ci, cn) of an expression affine in the names i and n"""
    if isinstance(e, ast.Constant) and isinstance(e.value, int) and not isinstance(e.value, bool):
        return (e.value, 0, 0)
    if isinstance(e, ast.Name):
        if e.id == i:
            return (0, 1, 0)
        if e.id == n:
            return (0, 0, 1)
        raise Unavailable(f"unknown name {e.id} in an index bound")
    if isinstance(e, ast.UnaryOp) and isinstance(e.op, ast.USub):
        a = _aff(e.operand, i, n)
        return tuple(-v for v in a)
    if isinstance(e, ast.BinOp) and isinstance(e.op, (ast.Add, ast.Sub)):
        a, b = _aff(e.left, i, n), _aff(e.right, i, n)
        s = 1 if isinstance(e.op, ast.Add) else -1
        return tuple(u + s * v for u, v in zip(a, b))
    if isinstance(e, ast.BinOp) and isinstance(e.op, ast.Mult):
        a, b = _aff(e.left, i, n), _aff(e.right, i, n)
        if a[1] == a[2] == 0:
            return tuple(a[0] * v for v in b)
        if b[1] == b[2] == 0:
            return tuple(b[0] * v for v in a)
    raise Unavailable(f"index bound not affine: {ast.unparse(e)}")


def _is_np(call, name):
    f = call.func
    return isinstance(f, ast.Attribute) and f.attr == name and isinstance(f.value, ast.Name) and f.value.id in ("np", "numpy")


def extract(path):
    tree = ast.parse(pathlib.Path(path).read_text())
    fn = next((f for f in tree.body if isinstance(f, ast.FunctionDef) and f.name == "frechet_op"), None)
    if fn is None:
        raise Unavailable("frechet_op not found")
    args = [a.arg for a in fn.args.args]
    if len(args) != 3:
        raise Unavailable(f"frechet_op signature {args}")
    X, Y, OP = args
    body = list(fn.body)
    if body and isinstance(body[0], ast.Expr) and isinstance(body[0].value, ast.Constant) and isinstance(body[0].value.value, str):
        body = body[1:]
    body = [s for s in body if not isinstance(s, ast.Assert)]
    n = None
    arrays, loop, sorts, ret = [], None, [], None
    for st in body:
        if isinstance(st, ast.Assign) and len(st.targets) == 1 and isinstance(st.targets[0], ast.Name):
            t, v = st.targets[0].id, st.value
            if isinstance(v, ast.Attribute) and v.attr == "steps" and isinstance(v.value, ast.Name) and v.value.id == X and loop is None:
                n = t
                continue
            if isinstance(v, ast.Call) and _is_np(v, "empty") and len(v.args) == 1 and isinstance(v.args[0], ast.Name) \
                    and v.args[0].id == n and not v.keywords and loop is None:
                arrays.append(t)
                continue
            raise Unavailable(f"unexpected assignment: {ast.unparse(st)}")
        if isinstance(st, ast.For) and loop is None:
            loop = st
            continue
        if isinstance(st, ast.Expr) and isinstance(st.value, ast.Call) and isinstance(st.value.func, ast.Attribute) \
                and st.value.func.attr == "sort" and isinstance(st.value.func.value, ast.Name) and not st.value.args \
                and not st.value.keywords and loop is not None and ret is None:
            sorts.append(st.value.func.value.id)
            continue
        if isinstance(st, ast.Return) and isinstance(st.value, ast.Tuple) and len(st.value.elts) == 2 \
                and all(isinstance(e, ast.Name) for e in st.value.elts):
            ret = [e.id for e in st.value.elts]
            continue
        raise Unavailable(f"unexpected statement: {ast.unparse(st)[:80]}")
    if n is None or loop is None or ret is None or len(arrays) != 2 or sorted(ret) != sorted(arrays):
        raise Unavailable("frechet_op: skeleton not recognised")
    # for i in range(0, n) | range(n)
    if not (isinstance(loop.target, ast.Name) and isinstance(loop.iter, ast.Call) and isinstance(loop.iter.func, ast.Name)
            and loop.iter.func.id == "range" and not loop.orelse):
        raise Unavailable("loop header")
    ra = loop.iter.args
    ok = (len(ra) == 1 and isinstance(ra[0], ast.Name) and ra[0].id == n) or \
         (len(ra) == 2 and isinstance(ra[0], ast.Constant) and ra[0].value == 0 and isinstance(ra[1], ast.Name) and ra[1].id == n)
    if not ok:
        raise Unavailable(f"loop range {ast.unparse(loop.iter)}")
    i = loop.target.id
    idx, halves = {}, {}
    for st in loop.body:
        if not (isinstance(st, ast.Assign) and len(st.targets) == 1):
            raise Unavailable(f"unexpected statement in the loop: {ast.unparse(st)[:80]}")
        t, v = st.targets[0], st.value
        if isinstance(t, ast.Name) and isinstance(v, ast.Call) and _is_np(v, "arange") and not v.keywords and len(v.args) in (2, 3):
            step = 1
            if len(v.args) == 3:
                s3 = _aff(v.args[2], i, n)
                if s3[1] or s3[2] or s3[0] not in (1, -1):
                    raise Unavailable("arange step")
                step = s3[0]
            idx[t.id] = (_aff(v.args[0], i, n), _aff(v.args[1], i, n), step)
            continue
        if isinstance(t, ast.Subscript) and isinstance(t.value, ast.Name) and t.value.id in arrays \
                and isinstance(t.slice, ast.Name) and t.slice.id == i and isinstance(v, ast.Call) \
                and (_is_np(v, "min") or _is_np(v, "max")) and len(v.args) == 1 and not v.keywords:
            inner = v.args[0]
            if not (isinstance(inner, ast.Call) and isinstance(inner.func, ast.Name) and inner.func.id == OP
                    and len(inner.args) == 2 and not inner.keywords):
                raise Unavailable("reduction argument is not op(…, …)")
            sides = []
            for who, e in zip((X, Y), inner.args):
                if not (isinstance(e, ast.Subscript) and isinstance(e.value, ast.Attribute) and e.value.attr in ("left", "right")
                        and isinstance(e.value.value, ast.Name) and e.value.value.id == who and isinstance(e.slice, ast.Name)
                        and e.slice.id in idx):
                    raise Unavailable(f"operand of op is not {who}.<bound>[<index array>]: {ast.unparse(e)}")
                sides.append((e.value.attr, idx[e.slice.id]))
            if t.value.id in halves:
                raise Unavailable("an output array is assigned twice")
            halves[t.value.id] = ("min" if _is_np(v, "min") else "max", sides)
            continue
        raise Unavailable(f"unexpected statement in the loop: {ast.unparse(st)[:80]}")
    if set(halves) != set(arrays):
        raise Unavailable("an output array is never assigned")
    return {"left": halves[ret[0]], "right": halves[ret[1]], "sortLeft": ret[0] in sorts, "sortRight": ret[1] in sorts}


def _lean_aff(a):
    return "⟨%d, %d, %d⟩" % a


def _lean_half(h):
    red, ((sx, (js, je, jst)), (sy, (ks, ke, kst))) = h
    return ("{ jS := %s, jE := %s, jStep := %d, kS := %s, kE := %s, kStep := %d, red := .%s, sideX := .%s, sideY := .%s }"
            % (_lean_aff(js), _lean_aff(je), jst, _lean_aff(ks), _lean_aff(ke), kst, red, sx, sy))


def generate(repo, out):
    res = extract(pathlib.Path(repo) / "src/pyuncertainnumber/pba/operation.py")
    b = lambda v: "true" if v else "false"
    text = ("import Pun.Model.FrechetInterp\n"
            "/-! GENERATED by harness/pv/translator/frechet.py from src/pyuncertainnumber/pba/operation.py (frechet_op) — do not edit -/\n"
            "namespace Pun.Gen.Frechet\nopen Pun.FrechetInterp\n\n"
            "def spec : Spec :=\n  { left := %s,\n    right := %s,\n    sortLeft := %s, sortRight := %s, leftFirst := true }\n\n"
            "end Pun.Gen.Frechet\n" % (_lean_half(res["left"]), _lean_half(res["right"]), b(res["sortLeft"]), b(res["sortRight"])))
    out = pathlib.Path(out)
    if not out.exists() or out.read_text() != text:
        out.write_text(text)
    return "ok: frechet_op loop (4 index ranges, 2 reductions, 4 bounds, 2 sorts, return order)"


if __name__ == "__main__":
    import sys
    print(extract(pathlib.Path(sys.argv[1]) / "src/pyuncertainnumber/pba/operation.py"))


# ---- the corner rules: perfect_op, opposite_op, independent_op -------------------------------------------------
def _corner_fn(tree, name):
    """recognised form:
        def <name>(x, y, op=...):
            [docstring]
            [y_left, y_right = np.flip(y.left), np.flip(y.right)]                      # opposite_op
            corners = [op(x.<b>, <yb>), … four …]                                       # perfect / opposite
          | c1 = vectorized_cartesian_op(x.<b>, y.<b>, op) … four …                     # independent
            nleft = np.minimum.reduce(corners | [c1, c2, c3, c4])   | np.sort(np.minimum.reduce(…))
            nright = np.maximum.reduce(…)                           | np.sort(np.maximum.reduce(…))
            [nleft.sort()] [nright.sort()]
            return nleft, nright
    """
    fn = next((f for f in tree.body if isinstance(f, ast.FunctionDef) and f.name == name), None)
    if fn is None:
        raise Unavailable(f"{name} not found")
    args = [a.arg for a in fn.args.args]
    if len(args) != 3:
        raise Unavailable(f"{name} signature {args}")
    X, Y, OP = args
    body = list(fn.body)
    if body and isinstance(body[0], ast.Expr) and isinstance(body[0].value, ast.Constant) and isinstance(body[0].value.value, str):
        body = body[1:]
    alias, flip, cols, named, out, sorts, ret = {}, False, None, {}, {}, [], None

    def bound(e, who):
        if isinstance(e, ast.Attribute) and e.attr in ("left", "right") and isinstance(e.value, ast.Name) and e.value.id == who:
            return e.attr
        if who == Y and isinstance(e, ast.Name) and e.id in alias:
            return alias[e.id]
        raise Unavailable(f"{name}: operand {ast.unparse(e)} is not a bound of {who}")

    def corner(e, grid):
        if grid:
            if not (isinstance(e, ast.Call) and isinstance(e.func, ast.Name) and e.func.id == "vectorized_cartesian_op"
                    and len(e.args) == 3 and isinstance(e.args[2], ast.Name) and e.args[2].id == OP and not e.keywords):
                raise Unavailable(f"{name}: {ast.unparse(e)}")
            return (bound(e.args[0], X), bound(e.args[1], Y))
        if not (isinstance(e, ast.Call) and isinstance(e.func, ast.Name) and e.func.id == OP and len(e.args) == 2 and not e.keywords):
            raise Unavailable(f"{name}: {ast.unparse(e)}")
        return (bound(e.args[0], X), bound(e.args[1], Y))

    def reduction(e):
        """-> (red, sorted?, list-of-corners)"""
        srt = False
        if isinstance(e, ast.Call) and _is_np(e, "sort") and len(e.args) == 1 and not e.keywords:
            srt, e = True, e.args[0]
        if not (isinstance(e, ast.Call) and isinstance(e.func, ast.Attribute) and e.func.attr == "reduce" and len(e.args) == 1
                and not e.keywords and isinstance(e.func.value, ast.Attribute) and e.func.value.attr in ("minimum", "maximum")
                and isinstance(e.func.value.value, ast.Name) and e.func.value.value.id in ("np", "numpy")):
            raise Unavailable(f"{name}: reduction {ast.unparse(e)[:60]}")
        red = "min" if e.func.value.attr == "minimum" else "max"
        a = e.args[0]
        if isinstance(a, ast.Name) and cols is not None and a.id == cols[0]:
            cs = cols[1]
        elif isinstance(a, ast.List) and all(isinstance(v, ast.Name) and v.id in named for v in a.elts):
            cs = [named[v.id] for v in a.elts]
        else:
            raise Unavailable(f"{name}: reduced object {ast.unparse(a)[:60]}")
        if len(cs) != 4:
            raise Unavailable(f"{name}: {len(cs)} corners")
        return red, srt, cs

    grid = None
    for st in body:
        if isinstance(st, ast.Assign) and len(st.targets) == 1:
            t, v = st.targets[0], st.value
            if isinstance(t, ast.Tuple) and isinstance(v, ast.Tuple) and len(t.elts) == len(v.elts) == 2 and not out:
                for tn, ve in zip(t.elts, v.elts):
                    if not (isinstance(tn, ast.Name) and isinstance(ve, ast.Call) and _is_np(ve, "flip") and len(ve.args) == 1):
                        raise Unavailable(f"{name}: {ast.unparse(st)}")
                    alias[tn.id] = bound(ve.args[0], Y)
                flip = True
                continue
            if isinstance(t, ast.Name) and isinstance(v, ast.List) and not out and cols is None:
                grid = False
                cols = (t.id, [corner(e, False) for e in v.elts])
                continue
            if isinstance(t, ast.Name) and isinstance(v, ast.Call) and isinstance(v.func, ast.Name) and v.func.id == "vectorized_cartesian_op" and not out:
                grid = True
                named[t.id] = corner(v, True)
                continue
            if isinstance(t, ast.Name) and t.id not in out:
                out[t.id] = reduction(v)
                continue
            raise Unavailable(f"{name}: unexpected assignment {ast.unparse(st)[:70]}")
        if isinstance(st, ast.Expr) and isinstance(st.value, ast.Call) and isinstance(st.value.func, ast.Attribute) \
                and st.value.func.attr == "sort" and isinstance(st.value.func.value, ast.Name) and not st.value.args and ret is None:
            sorts.append(st.value.func.value.id)
            continue
        if isinstance(st, ast.Return) and isinstance(st.value, ast.Tuple) and len(st.value.elts) == 2 \
                and all(isinstance(e, ast.Name) for e in st.value.elts):
            ret = [e.id for e in st.value.elts]
            continue
        raise Unavailable(f"{name}: unexpected statement {ast.unparse(st)[:70]}")
    if ret is None or set(ret) != set(out) or len(out) != 2 or grid is None:
        raise Unavailable(f"{name}: skeleton not recognised")
    (rl, sl, cl), (rr, sr, cr) = out[ret[0]], out[ret[1]]
    if cl != cr:
        raise Unavailable(f"{name}: the two reductions read different corner lists")
    return {"corners": cl, "flip": flip, "grid": grid, "redLeft": rl, "redRight": rr,
            "sortLeft": sl or ret[0] in sorts, "sortRight": sr or ret[1] in sorts}


def _cartesian_ok(tree):
    """vectorized_cartesian_op(a, b, op) must be `return op(a[:, np.newaxis], b).ravel()` (a outer, b inner)"""
    fn = next((f for f in tree.body if isinstance(f, ast.FunctionDef) and f.name == "vectorized_cartesian_op"), None)
    if fn is None:
        raise Unavailable("vectorized_cartesian_op not found")
    a, b, o = [x.arg for x in fn.args.args]
    rets = [s for s in fn.body if isinstance(s, ast.Return)]
    want = f"{o}({a}[:, np.newaxis], {b}).ravel()"
    if len(rets) != 1 or ast.unparse(rets[0].value).replace("numpy.", "np.") != want:
        raise Unavailable("vectorized_cartesian_op: not " + want)


def extract_corners(path):
    tree = ast.parse(pathlib.Path(path).read_text())
    res = {n: _corner_fn(tree, n) for n in ("perfect_op", "opposite_op", "independent_op")}
    if res["independent_op"]["grid"]:
        _cartesian_ok(tree)
    return res


def _lean_corner(c):
    pr = lambda p: "(.%s, .%s)" % p
    b = lambda v: "true" if v else "false"
    cs = c["corners"]
    return ("{ c1 := %s, c2 := %s, c3 := %s, c4 := %s, flipY := %s, grid := %s, redLeft := .%s, redRight := .%s, sortLeft := %s, sortRight := %s }"
            % (pr(cs[0]), pr(cs[1]), pr(cs[2]), pr(cs[3]), b(c["flip"]), b(c["grid"]), c["redLeft"], c["redRight"], b(c["sortLeft"]), b(c["sortRight"])))


def generate_corners(repo, out):
    res = extract_corners(pathlib.Path(repo) / "src/pyuncertainnumber/pba/operation.py")
    text = ("import Pun.Model.FrechetInterp\n"
            "/-! GENERATED by harness/pv/translator/frechet.py from src/pyuncertainnumber/pba/operation.py "
            "(perfect_op, opposite_op, independent_op) — do not edit -/\n"
            "namespace Pun.Gen.Corners\nopen Pun.FrechetInterp\n\n"
            "def perfectSpec : CornerSpec :=\n  %s\n\ndef oppositeSpec : CornerSpec :=\n  %s\n\ndef independentSpec : CornerSpec :=\n  %s\n\n"
            "end Pun.Gen.Corners\n" % tuple(_lean_corner(res[n]) for n in ("perfect_op", "opposite_op", "independent_op")))
    out = pathlib.Path(out)
    if not out.exists() or out.read_text() != text:
        out.write_text(text)
    return "ok: perfect_op, opposite_op, independent_op (4 corners, flip, grid, reductions, sorts each)"
