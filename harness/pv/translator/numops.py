"""Translator: src/pyuncertainnumber/pba/pbox_abc.py (p-box with a real number, negation, reciprocal, unary template)
   ->  lean/Pun/Gen/NumOpsGen.lean

What is re-extracted on every run, and the ONE syntactic form recognised for each piece (anything else raises
`Unavailable`: recorded in the evidence, not an alarm; the check then rests on the hand model + tie + oracle):

bound expressions (arrays / lists built from the two bounds), used by (1) (2) (3) (5):
    self.left | self.right | pbox.left | pbox.right        -> p.left | p.right
    np.flip(E)            -> (E).reverse            -E     -> (E).map (- .)          1 / E -> (E).map (1 / .)
    sorted(E)             -> sortR (E)   (a Python list)   f(E, n) -> (E).map (f . n)   f(E)  -> (E).map f
    a local name assigned earlier by `name = E` or `a, b = E1, E2`
    Staircase(left=A, right=B [, mean=.., var=..])   -> mk steps <lists> A B, <lists> = both A and B are `sorted(..)`
(1) def pbox_number_ops(pbox, n, f): assignments of bound expressions, an ignorable `try: new_mean = .. except: ..`,
    `return Staircase(left=.., right=..)`.
(2) def __neg__(self): `return Staircase(left=.., right=.., mean=.., var=..)`.
(3) def reciprocal(self): optional `if self.straddles_zero(): raise <Error>(..)`, then `return Staircase(..)`.
(4) number branches of add / sub / mul / pow: the first statement after docstring/imports is
        if isinstance(other, Number): return pbox_number_ops(self, other, operator.<op>)
    (pow: `if self.straddles_zero(): .. else: return pbox_number_ops(self, other, operator.pow)` inside that branch), or,
    when a method has no such branch (div; sub before 37ecde0): its last statement is
        return self.<method>(<arg>, dependency)   with <arg> one of  other | -other | 1 / other
    preceded only by `if` statements that neither mention `other` nor return.  `1 / other` carries Python's
    ZeroDivisionError for other == 0.
    infix operators: `__add__ __sub__ __mul__ __truediv__ __pow__ __radd__ __rsub__ __rmul__ __rtruediv__` whose body is
        return <T>.<method>(other[, dependency=get_current_dependency()])      <T> ::= self | (-self) | <T>.reciprocal()
        return self.__mul__(other)
        try: return other * <T>   except: return NotImplemented        (`other * X` is X.__rmul__(other))
(5) def _unary_template(self, f): `l, r = f(self.left), f(self.right)` ; `return Staircase(left=l, right=r)`.

The generated definitions are over the hand model's types (`PB`, `Except Err`, `mk`, `sortR`, `straddlesZero`, `hasZero`).
Model conventions that are NOT in the source and are inserted by the template (documented in the Gen file):
a zero bound under `1 / E` is `inf` in numpy and is reported as `.error .Value`; `operator.pow` is generated for a
natural exponent `k` as `fun x _ => x ^ k` and the `stacking` branch of a straddling power is `none` (not modelled).
"""
import ast, pathlib


class Unavailable(Exception):
    pass


SRC = "src/pyuncertainnumber/pba/pbox_abc.py"
ERR = {"ZeroDivisionError": ".ZeroDivision", "ValueError": ".Value", "TypeError": ".Type", "Exception": ".Other",
       "AssertionError": ".Assertion"}
OPS = {"add": "(· + ·)", "sub": "(· - ·)", "mul": "(· * ·)"}
INFIX = {"__add__": "add", "__sub__": "sub", "__mul__": "mul", "__truediv__": "div", "__pow__": "pow"}


def _src(e):
    return ast.unparse(e).replace(" ", "")


def _body(fn):
    """statements without docstring and imports"""
    out = []
    for i, s in enumerate(fn.body):
        if i == 0 and isinstance(s, ast.Expr) and isinstance(s.value, ast.Constant) and isinstance(s.value.value, str):
            continue
        if isinstance(s, (ast.Import, ast.ImportFrom)):
            continue
        out.append(s)
    return out


def _find(tree, name, classes=("Staircase", "Pbox")):
    for cn in classes:
        for c in tree.body:
            if isinstance(c, ast.ClassDef) and c.name == cn:
                for f in c.body:
                    if isinstance(f, ast.FunctionDef) and f.name == name:
                        return f
    raise Unavailable(f"method {name} not found")


def _func(tree, name):
    for f in tree.body:
        if isinstance(f, ast.FunctionDef) and f.name == name:
            return f
    raise Unavailable(f"function {name} not found")


# ---- bound expressions ------------------------------------------------------------------------------
def bexpr(e, env, box, fname=None, nname=None):
    """-> (lean list expression over `p`, 'list' | 'array')"""
    if isinstance(e, ast.Name) and e.id in env:
        return env[e.id]
    if isinstance(e, ast.Attribute) and isinstance(e.value, ast.Name) and e.value.id == box and e.attr in ("left", "right"):
        return f"p.{e.attr}", "array"
    if isinstance(e, ast.Call) and _src(e.func) in ("np.flip", "numpy.flip") and len(e.args) == 1 and not e.keywords:
        a, _ = bexpr(e.args[0], env, box, fname, nname)
        return f"({a}).reverse", "array"
    if isinstance(e, ast.UnaryOp) and isinstance(e.op, ast.USub):
        a, _ = bexpr(e.operand, env, box, fname, nname)
        return f"({a}).map (- ·)", "array"
    if (isinstance(e, ast.BinOp) and isinstance(e.op, ast.Div) and isinstance(e.left, ast.Constant)
            and e.left.value == 1 and not isinstance(e.left.value, bool)):
        a, _ = bexpr(e.right, env, box, fname, nname)
        return f"({a}).map (1 / ·)", "array"
    if isinstance(e, ast.Call) and isinstance(e.func, ast.Name) and e.func.id == "sorted" and len(e.args) == 1 and not e.keywords:
        a, _ = bexpr(e.args[0], env, box, fname, nname)
        return f"sortR ({a})", "list"
    if isinstance(e, ast.Call) and isinstance(e.func, ast.Name) and fname and e.func.id == fname and not e.keywords:
        if len(e.args) == 2 and nname and isinstance(e.args[1], ast.Name) and e.args[1].id == nname:
            a, _ = bexpr(e.args[0], env, box, fname, nname)
            return f"({a}).map (f · n)", "array"
        if len(e.args) == 1 and nname is None:
            a, _ = bexpr(e.args[0], env, box, fname, nname)
            return f"({a}).map f", "array"
    raise Unavailable("bound expression " + ast.unparse(e))


def staircase(e, env, box, fname=None, nname=None):
    if not (isinstance(e, ast.Call) and isinstance(e.func, ast.Name) and e.func.id == "Staircase" and not e.args):
        raise Unavailable("not a Staircase(left=.., right=..) call: " + ast.unparse(e))
    kw = {k.arg: k.value for k in e.keywords}
    if set(kw) - {"left", "right", "mean", "var"} or "left" not in kw or "right" not in kw:
        raise Unavailable("Staircase keywords " + ", ".join(map(str, kw)))
    (a, ta), (b, tb) = bexpr(kw["left"], env, box, fname, nname), bexpr(kw["right"], env, box, fname, nname)
    lists = "true" if (ta == "list" and tb == "list") else "false"
    return f"mk steps {lists} ({a}) ({b})"


def assigns(stmts, env, box, fname, nname, ignorable=()):
    """consume `name = E`, `a, b = E1, E2` and ignorable try-blocks; returns the remaining statements"""
    i = 0
    while i < len(stmts):
        s = stmts[i]
        if isinstance(s, ast.Assign) and len(s.targets) == 1:
            t = s.targets[0]
            if isinstance(t, ast.Name):
                env[t.id] = bexpr(s.value, env, box, fname, nname)
            elif isinstance(t, ast.Tuple) and isinstance(s.value, ast.Tuple) and len(t.elts) == len(s.value.elts) \
                    and all(isinstance(x, ast.Name) for x in t.elts):
                vals = [bexpr(v, env, box, fname, nname) for v in s.value.elts]
                for x, v in zip(t.elts, vals):
                    env[x.id] = v
            else:
                raise Unavailable("assignment " + ast.unparse(s))
        elif isinstance(s, ast.Try):
            names = {n.id for n in ast.walk(s) if isinstance(n, ast.Name) and isinstance(n.ctx, ast.Store)}
            if not names or not names <= set(ignorable) or any(isinstance(n, (ast.Return, ast.Raise)) for n in ast.walk(s)):
                raise Unavailable("try block in the middle of " + box)
        else:
            break
        i += 1
    return stmts[i:]


def ex_number_ops(tree):
    fn = _func(tree, "pbox_number_ops")
    params = [a.arg for a in fn.args.args]
    if len(params) != 3:
        raise Unavailable("pbox_number_ops signature")
    box, nname, fname = params
    env = {}
    stmts = [s for s in _body(fn)]
    # names assigned but never read by the return statement may be computed in a try block (new_mean)
    ret = next((s for s in stmts if isinstance(s, ast.Return)), None)
    if ret is None:
        raise Unavailable("pbox_number_ops: no return")
    used = {n.id for n in ast.walk(ret) if isinstance(n, ast.Name)}
    ign = {n.id for s in stmts if isinstance(s, ast.Try) for n in ast.walk(s) if isinstance(n, ast.Name) and isinstance(n.ctx, ast.Store)} - used
    rest = assigns(stmts, env, box, fname, nname, ign)
    if not rest or rest[0] is not ret:
        raise Unavailable("pbox_number_ops: unexpected statement " + ast.unparse(rest[0]) if rest else "pbox_number_ops: no return")
    return staircase(ret.value, env, box, fname, nname)


def ex_neg(tree):
    fn = _find(tree, "__neg__", ("Pbox", "Staircase"))
    st = _body(fn)
    if len(st) != 1 or not isinstance(st[0], ast.Return):
        raise Unavailable("__neg__ is not a single return")
    return staircase(st[0].value, {}, fn.args.args[0].arg)


def ex_unary(tree):
    fn = _find(tree, "_unary_template")
    params = [a.arg for a in fn.args.args]
    if len(params) != 2:
        raise Unavailable("_unary_template signature")
    env = {}
    rest = assigns(_body(fn), env, params[0], params[1], None)
    if len(rest) != 1 or not isinstance(rest[0], ast.Return):
        raise Unavailable("_unary_template body")
    return staircase(rest[0].value, env, params[0], params[1], None)


def _is_straddle_test(t, selfn):
    return _src(t) == f"{selfn}.straddles_zero()"


def ex_recip(tree):
    fn = _find(tree, "reciprocal")
    selfn = fn.args.args[0].arg
    st = _body(fn)
    guard = None
    if st and isinstance(st[0], ast.If) and _is_straddle_test(st[0].test, selfn):
        b = st[0].body
        if len(b) == 1 and isinstance(b[0], ast.Raise) and not st[0].orelse:
            exc = b[0].exc
            name = exc.func.id if isinstance(exc, ast.Call) and isinstance(exc.func, ast.Name) else (exc.id if isinstance(exc, ast.Name) else None)
            if name not in ERR:
                raise Unavailable("reciprocal raises " + ast.unparse(exc))
            guard = ERR[name]
            st = st[1:]
        elif all(isinstance(x, ast.Expr) for x in b) and not st[0].orelse:
            st = st[1:]          # a warning only: no guard
        else:
            raise Unavailable("reciprocal: straddle branch")
    if len(st) != 1 or not isinstance(st[0], ast.Return):
        raise Unavailable("reciprocal body")
    call = st[0].value
    kw = {k.arg: k.value for k in call.keywords} if isinstance(call, ast.Call) else {}
    core_ = staircase(call, {}, selfn)
    return guard, core_


# ---- number branches and operators ---------------------------------------------------------------------
def _number_call(e, selfn):
    """pbox_number_ops(self, other, operator.X) -> X"""
    if (isinstance(e, ast.Call) and isinstance(e.func, ast.Name) and e.func.id == "pbox_number_ops" and len(e.args) == 3
            and not e.keywords and _src(e.args[0]) == selfn and _src(e.args[1]) == "other"
            and isinstance(e.args[2], ast.Attribute) and _src(e.args[2].value) == "operator"):
        return e.args[2].attr
    raise Unavailable("number branch " + ast.unparse(e))


def _scalar(e):
    s = _src(e)
    if s == "other":
        return "c", False
    if s == "-other":
        return "(-c)", False
    if s == "1/other":
        return "(1 / c)", True        # Python: ZeroDivisionError when other == 0
    raise Unavailable("constant expression " + ast.unparse(e))


def ex_method(tree, name):
    """-> ('direct', op) | ('pow', op) | ('route', method, lean scalar, zero_guard)"""
    fn = _find(tree, name)
    selfn = fn.args.args[0].arg
    st = _body(fn)
    if st and isinstance(st[0], ast.If) and _src(st[0].test) == "isinstance(other,Number)":
        b = st[0].body
        if len(b) == 1 and isinstance(b[0], ast.Return):
            return ("direct", _number_call(b[0].value, selfn))
        if (len(b) == 1 and isinstance(b[0], ast.If) and _is_straddle_test(b[0].test, selfn) and len(b[0].orelse) == 1
                and isinstance(b[0].orelse[0], ast.Return)):
            return ("pow", _number_call(b[0].orelse[0].value, selfn))
        raise Unavailable(f"{name}: number branch body")
    if any("isinstance(other,Number)" in _src(s) for s in st):
        raise Unavailable(f"{name}: the Number test is not the first statement")
    if not st or not isinstance(st[-1], ast.Return):
        raise Unavailable(f"{name}: no final return")
    for s in st[:-1]:
        if not isinstance(s, ast.If) or any(isinstance(n, ast.Name) and n.id == "other" for n in ast.walk(s)) \
                or any(isinstance(n, ast.Return) for n in ast.walk(s)):
            raise Unavailable(f"{name}: statement before the routing return: " + ast.unparse(s)[:60])
    r = st[-1].value
    if (isinstance(r, ast.Call) and isinstance(r.func, ast.Attribute) and _src(r.func.value) == selfn
            and r.func.attr in ("add", "sub", "mul", "div") and len(r.args) == 2 and _src(r.args[1]) == "dependency" and not r.keywords):
        sc, guard = _scalar(r.args[0])
        return ("route", r.func.attr, sc, guard)
    raise Unavailable(f"{name}: routing return " + ast.unparse(r))


class Term:
    """monadic p-box term: list of (var, lean call) bindings and the final expression"""
    def __init__(self):
        self.binds, self.n = [], 0

    def bind(self, call):
        self.n += 1
        v = f"t{self.n}"
        self.binds.append((v, call))
        return v


def pterm(e, selfn, T, tree, depth=0):
    """value-level term -> name of a bound variable holding a PB"""
    if isinstance(e, ast.Name) and e.id == selfn:
        return "p"
    if isinstance(e, ast.UnaryOp) and isinstance(e.op, ast.USub):
        return T.bind(f"neg steps {pterm(e.operand, selfn, T, tree, depth)}")
    if isinstance(e, ast.Call) and isinstance(e.func, ast.Attribute) and e.func.attr == "reciprocal" and not e.args and not e.keywords:
        return T.bind(f"recip steps {pterm(e.func.value, selfn, T, tree, depth)}")
    raise Unavailable("p-box term " + ast.unparse(e))


def pcall(e, selfn, T, tree, depth=0):
    """final call of an operator body -> lean expression of type Except Err PB"""
    if depth > 3:
        raise Unavailable("operator delegation too deep")
    if isinstance(e, ast.Call) and isinstance(e.func, ast.Attribute) and len(e.args) == 1 and _src(e.args[0]) == "other":
        kws = {k.arg: _src(k.value) for k in e.keywords}
        m = e.func.attr
        if m in ("add", "sub", "mul", "div", "pow") and (kws == {} or kws == {"dependency": "get_current_dependency()"}):
            return f"{m}Num steps {pterm(e.func.value, selfn, T, tree, depth)} c"
        if m in INFIX and not kws and _src(e.func.value) == selfn:
            return op_body(tree, m, T, depth + 1)
    if isinstance(e, ast.BinOp) and isinstance(e.op, ast.Mult) and _src(e.left) == "other":
        # other * X  ->  X.__rmul__(other)
        x = pterm(e.right, selfn, T, tree, depth)
        inner = Term()
        body = op_body(tree, "__rmul__", inner, depth + 1)
        if inner.binds:
            raise Unavailable("__rmul__ with intermediate p-boxes")
        return body.replace(" p c", f" {x} c")
    raise Unavailable("operator body " + ast.unparse(e))


def op_body(tree, name, T, depth=0):
    fn = _find(tree, name, ("Pbox", "Staircase"))
    selfn = fn.args.args[0].arg
    st = _body(fn)
    if len(st) == 1 and isinstance(st[0], ast.Return):
        return pcall(st[0].value, selfn, T, tree, depth)
    if (len(st) == 1 and isinstance(st[0], ast.Try) and len(st[0].body) == 1 and isinstance(st[0].body[0], ast.Return)
            and len(st[0].handlers) == 1 and st[0].handlers[0].type is None and not st[0].orelse and not st[0].finalbody):
        h = st[0].handlers[0].body
        if len(h) == 1 and isinstance(h[0], ast.Return) and _src(h[0].value) == "NotImplemented":
            return "TRY:" + pcall(st[0].body[0].value, selfn, T, tree, depth)
    raise Unavailable(f"{name}: body")


def lean_op(tree, name):
    T = Term()
    body = op_body(tree, name, T)
    tried = body.startswith("TRY:")
    if tried:
        body = body[4:]
    if T.binds:
        inner = "do\n" + "".join(f"    let {v} ← {c}\n" for v, c in T.binds) + f"    {body}"
    else:
        inner = body
    if tried:
        # every exception becomes `return NotImplemented`, which Python turns into TypeError
        return f"match (show Except Err PB from {inner}) with\n  | .ok r => .ok r\n  | .error _ => .error .Type"
    return inner


def extract(path):
    tree = ast.parse(pathlib.Path(path).read_text())
    res = {"number_ops": ex_number_ops(tree), "neg": ex_neg(tree), "unary": ex_unary(tree)}
    res["recip_guard"], res["recip"] = ex_recip(tree)
    res["methods"] = {m: ex_method(tree, m) for m in ("add", "sub", "mul", "div", "pow")}
    res["ops"] = {o: lean_op(tree, o) for o in ("__add__", "__sub__", "__mul__", "__truediv__", "__radd__", "__rsub__", "__rmul__", "__rtruediv__")}
    T = Term()
    res["pow_op"] = op_body(tree, "__pow__", T)
    if T.binds or res["pow_op"] != "powNum steps p c":
        raise Unavailable("__pow__ does not call self.pow(other)")
    return res


def _method_def(name, spec):
    if spec[0] == "direct":
        if spec[1] not in OPS:
            raise Unavailable(f"{name}: operator.{spec[1]}")
        return (f"/-- `{name}`: `if isinstance(other, Number): return pbox_number_ops(self, other, operator.{spec[1]})` -/\n"
                f"def {name}Num (steps : Nat) (p : PB) (c : Rat) : Except Err PB := numberOps steps {OPS[spec[1]]} p c\n")
    if spec[0] == "route":
        _, m, sc, guard = spec
        call = f"{m}Num steps p {sc}"
        if guard:
            call = f"if c = 0 then .error .ZeroDivision else {call}"
        return (f"/-- `{name}`: no number branch of its own; `return self.{m}(<{sc}>, dependency)`"
                + (" (`1 / other` raises ZeroDivisionError for a Python zero)" if guard else "") + " -/\n"
                f"def {name}Num (steps : Nat) (p : PB) (c : Rat) : Except Err PB := {call}\n")
    raise Unavailable(f"{name}: {spec[0]}")


def render(res):
    L = ["import Pun.Model.PBoxNum",
         "/-! GENERATED by harness/pv/translator/numops.py from src/pyuncertainnumber/pba/pbox_abc.py — do not edit",
         "",
         "The source text of `pbox_number_ops`, `__neg__`, `reciprocal`, `_unary_template`, the number branches of",
         "`add sub mul div pow` and the infix / reflected operators, as definitions over the hand model's types.",
         "Template conventions (not in the source): a zero bound under `1 / E` is numpy's `inf`, reported as `.error .Value`;",
         "`operator.pow` is generated for a natural exponent; the `stacking` branch of a straddling power is `none`. -/",
         "namespace Pun.Gen.NumOps", "open Pun Pun.PBox", "",
         "/-- `pbox_number_ops(pbox, n, f)` -/",
         "def numberOps (steps : Nat) (f : Rat → Rat → Rat) (p : PB) (n : Rat) : Except Err PB :=",
         "  " + res["number_ops"], "",
         "/-- `__neg__` -/",
         "def neg (steps : Nat) (p : PB) : Except Err PB :=",
         "  " + res["neg"], "",
         "/-- `_unary_template(f)` -/",
         "def unaryTemplate (steps : Nat) (f : Rat → Rat) (p : PB) : Except Err PB :=",
         "  " + res["unary"], "",
         "/-- `reciprocal`" + (" (guard: `if self.straddles_zero(): raise`)" if res["recip_guard"] else " (no straddle guard in the source)") + " -/",
         "def recip (steps : Nat) (p : PB) : Except Err PB :="]
    core_ = "if hasZero p.left || hasZero p.right then .error .Value\n  else " + res["recip"]
    if res["recip_guard"]:
        L.append(f"  if straddlesZero p then .error {res['recip_guard']}\n  else " + core_)
    else:
        L.append("  " + core_)
    L.append("")
    order, done = ["add", "sub", "mul", "div"], set()
    # a routed method must be defined after its target
    specs = res["methods"]
    pending = [m for m in order]
    guard_ = 0
    while pending and guard_ < 10:
        guard_ += 1
        for m in list(pending):
            sp = specs[m]
            if sp[0] == "direct" or (sp[0] == "route" and sp[1] in done):
                L.append(_method_def(m, sp)); done.add(m); pending.remove(m)
            elif sp[0] not in ("direct", "route"):
                raise Unavailable(f"{m}: unexpected form {sp[0]}")
    if pending:
        raise Unavailable("cyclic routing among " + ", ".join(pending))
    sp = specs["pow"]
    if sp[0] != "pow" or sp[1] != "pow":
        raise Unavailable("pow: number branch is not the straddle test + operator.pow")
    L += ["/-- `pow`, number branch: `if self.straddles_zero(): <stacking of interval powers> else: pbox_number_ops(self, other, operator.pow)` -/",
          "def powNat (steps : Nat) (p : PB) (k : Nat) : Option (Except Err PB) :=",
          "  if straddlesZero p then none else some (numberOps steps (fun x _ => x ^ k) p 0)", ""]
    names = {"__add__": "opAdd", "__sub__": "opSub", "__mul__": "opMul", "__truediv__": "opDiv",
             "__radd__": "opRAdd", "__rsub__": "opRSub", "__rmul__": "opRMul", "__rtruediv__": "opRDiv"}
    for o, nm in names.items():
        L += [f"/-- `{o}` -/", f"def {nm} (steps : Nat) (p : PB) (c : Rat) : Except Err PB :=", "  " + res["ops"][o], ""]
    L += ["/-- `P op c` -/",
          "def numRight (steps : Nat) (o : Op) (p : PB) (c : Rat) : Except Err PB :=",
          "  match o with | .add => opAdd steps p c | .sub => opSub steps p c | .mul => opMul steps p c | .div => opDiv steps p c", "",
          "/-- `c op P` -/",
          "def numLeft (steps : Nat) (o : Op) (c : Rat) (p : PB) : Except Err PB :=",
          "  match o with | .add => opRAdd steps p c | .sub => opRSub steps p c | .mul => opRMul steps p c | .div => opRDiv steps p c", "",
          "end Pun.Gen.NumOps"]
    return "\n".join(L) + "\n"


def generate(repo, out):
    res = extract(pathlib.Path(repo) / SRC)
    txt = render(res)
    out = pathlib.Path(out)
    if not out.exists() or out.read_text() != txt:
        out.parent.mkdir(parents=True, exist_ok=True)
        out.write_text(txt)
    return res


if __name__ == "__main__":
    import sys
    print(render(extract(sys.argv[1])))
