"""Translator: nlp/language_parsing.py hedge_interpret (the `match kwd` of the interval branch)
   ->  lean/Pun/Gen/HedgeGen.lean

Recognised right-hand sides only (anything else raises Unavailable -> the check falls back
to the correspondence on the hand table, no alarm by itself):
  I.from_meanform(x, W)                  W = k * 10 ** (-(d + j)) | k * 10 ** (-d) | 10 ** (-(d + j))
  I.from_meanform(x, np.sqrt(np.abs(x)))
  I(x - W, x) ; I(x, x + W) ; I(-np.inf, x) ; I(x, np.inf) ; I(x / a, b * x)
  I(*sgnumber(hedge))                    (the bare numeral, keyword "")
  a string / f-string                    (no interval)
"""
import ast, pathlib
from fractions import Fraction


class Unavailable(Exception):
    pass


def _num(e):
    if isinstance(e, ast.Constant) and isinstance(e.value, (int, float)) and not isinstance(e.value, bool):
        return Fraction(str(e.value))
    return None


def _is(e, name):
    return isinstance(e, ast.Name) and e.id == name


def _unit(e):
    """10 ** (-d) -> 0 ; 10 ** (-(d + j)) -> j ; else None"""
    if isinstance(e, ast.BinOp) and isinstance(e.op, ast.Pow) and _num(e.left) == 10:
        r = e.right
        if isinstance(r, ast.UnaryOp) and isinstance(r.op, ast.USub):
            r = r.operand
            if _is(r, "d"):
                return 0
            if isinstance(r, ast.BinOp) and isinstance(r.op, ast.Add) and _is(r.left, "d") and _num(r.right) is not None:
                j = _num(r.right)
                if j.denominator == 1 and j >= 0:
                    return int(j)
    return None


def _width(e):
    """k * unit -> (k, j)"""
    u = _unit(e)
    if u is not None:
        return Fraction(1), u
    if isinstance(e, ast.BinOp) and isinstance(e.op, ast.Mult):
        for a, b in ((e.left, e.right), (e.right, e.left)):
            if _num(a) is not None and _unit(b) is not None:
                return _num(a), _unit(b)
    raise Unavailable("width " + ast.unparse(e))


def _inf(e, sign):
    src = ast.unparse(e).replace(" ", "")
    return src in (("-np.inf", "-numpy.inf", "-math.inf") if sign < 0 else ("np.inf", "numpy.inf", "math.inf"))


def _form(call):
    if isinstance(call, (ast.Constant, ast.JoinedStr)) and not isinstance(getattr(call, "value", ""), (int, float)):
        return ("text",)
    if not isinstance(call, ast.Call):
        raise Unavailable("return " + ast.unparse(call))
    fn = ast.unparse(call.func)
    a = call.args
    if fn == "I.from_meanform" and len(a) == 2 and _is(a[0], "x"):
        if ast.unparse(a[1]).replace(" ", "") in ("np.sqrt(np.abs(x))", "numpy.sqrt(numpy.abs(x))"):
            return ("count",)
        k, j = _width(a[1])
        return ("sym", k, j)
    if fn == "I" and len(a) == 1 and isinstance(a[0], ast.Starred) and ast.unparse(a[0].value) == "sgnumber(hedge)":
        return ("bare",)
    if fn == "I" and len(a) == 2:
        lo, hi = a
        if _inf(lo, -1) and _is(hi, "x"):
            return ("atMost",)
        if _is(lo, "x") and _inf(hi, 1):
            return ("atLeast",)
        if _is(hi, "x") and isinstance(lo, ast.BinOp) and isinstance(lo.op, ast.Sub) and _is(lo.left, "x"):
            k, j = _width(lo.right)
            if j != 0:
                raise Unavailable("one-sided width with shifted digit")
            return ("left", k)
        if _is(lo, "x") and isinstance(hi, ast.BinOp) and isinstance(hi.op, ast.Add) and _is(hi.left, "x"):
            k, j = _width(hi.right)
            if j != 0:
                raise Unavailable("one-sided width with shifted digit")
            return ("right", k)
        if (isinstance(lo, ast.BinOp) and isinstance(lo.op, ast.Div) and _is(lo.left, "x") and _num(lo.right) is not None
                and isinstance(hi, ast.BinOp) and isinstance(hi.op, ast.Mult)):
            b = _num(hi.left) if _is(hi.right, "x") else (_num(hi.right) if _is(hi.left, "x") else None)
            if b is not None:
                return ("order", _num(lo.right), b)
    raise Unavailable("return " + ast.unparse(call))


def extract(path):
    tree = ast.parse(pathlib.Path(path).read_text())
    fn = next((f for f in tree.body if isinstance(f, ast.FunctionDef) and f.name == "hedge_interpret"), None)
    if fn is None:
        raise Unavailable("hedge_interpret not found")
    m = None
    for node in ast.walk(fn):
        if isinstance(node, ast.If) and "return_type == 'interval'" in ast.unparse(node.test):
            m = next((s for s in node.body if isinstance(s, ast.Match)), None)
    if m is None or ast.unparse(m.subject) != "kwd":
        raise Unavailable("match kwd not found")
    table = []
    for c in m.cases:
        p = c.pattern
        if isinstance(p, ast.MatchValue) and isinstance(p.value, ast.Constant) and isinstance(p.value.value, str):
            kw = p.value.value
        elif isinstance(p, ast.MatchAs) and p.pattern is None:
            kw = None            # case _
        else:
            raise Unavailable("case pattern " + ast.unparse(p))
        if len(c.body) != 1 or not isinstance(c.body[0], ast.Return):
            raise Unavailable(f"case {kw!r}: body is not a single return")
        table.append((kw, _form(c.body[0].value)))
    # the keyword list that decides between the bare numeral and the hedge path
    kwds = None
    for node in ast.walk(fn):
        if isinstance(node, ast.Assign) and isinstance(node.targets[0], ast.Name) and node.targets[0].id == "kwd_list":
            kwds = [e.value for e in node.value.elts]
    if kwds is None:
        raise Unavailable("kwd_list not found")
    return {"table": table, "kwd_list": kwds}


def _rat(f):
    return f"({f.numerator}/{f.denominator} : Rat)" if f.denominator != 1 else f"({f.numerator} : Rat)"


def _lean_form(f):
    t = f[0]
    if t == "sym":
        return f".sym {_rat(f[1])} {f[2]}"
    if t in ("left", "right"):
        return f".{t} {_rat(f[1])}"
    if t == "order":
        return f".order {_rat(f[1])} {_rat(f[2])}"
    if t in ("atMost", "atLeast", "count", "text"):
        return "." + t
    raise Unavailable(t)


def render(res):
    rows = [(kw, f) for kw, f in res["table"] if kw not in (None, "") and f[0] != "bare"]
    L = ["import Pun.Model.Hedge",
         "/-! GENERATED by harness/pv/translator/hedge.py from src/pyuncertainnumber/nlp/language_parsing.py — do not edit -/",
         "namespace Pun.Gen", "open Pun.Hedge", "",
         "def hedgeTable : List (String × Form) := ["]
    L.append(",\n".join(f'  ("{kw}", {_lean_form(f)})' for kw, f in rows))
    L.append("]")
    L.append("")
    L.append("def hedgeKwdList : List String := [" + ", ".join(f'"{k}"' for k in res["kwd_list"]) + "]")
    L.append("")
    L.append("end Pun.Gen")
    return "\n".join(L) + "\n"


def generate(repo, out):
    res = extract(pathlib.Path(repo) / "src/pyuncertainnumber/nlp/language_parsing.py")
    txt = render(res)
    out = pathlib.Path(out)
    if not out.exists() or out.read_text() != txt:
        out.parent.mkdir(parents=True, exist_ok=True)
        out.write_text(txt)
    return res


if __name__ == "__main__":
    import sys
    print(render(extract(sys.argv[1])))
