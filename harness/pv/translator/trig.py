"""Translator: pba/intervals/methods.py  sin / cos / tan (scalar forms)  ->  lean/Pun/Gen/TrigGen.lean

The three functions are straight-line code: constants, the reduced endpoints, named boolean
"cases" built from `contain(domainK, ·)`, `&`, `|` and comparisons of the reduced endpoints, and a
chain of `if <cases>: return Interval(e1, e2)`.  The translator evaluates that code symbolically
(every name is inlined) over the symbols

    p  = numpy_pi      w  = width(x)      yl = x.lo % <period>      yh = x.hi % <period>
    sl = f(yl)         sh = f(yh)         (f = numpy_sin / numpy_cos / numpy_tan / tan)

and writes, for each function, the if-chain as a Lean definition

    sinGen / cosGen : (p w yl yh sl sh : Rat) → Option (Rat × Rat)            (none = falls off the end)
    tanGen          : (p w yl yh sl sh : Rat) → Option (Option (Rat × Rat))   (some none = [-inf, inf])

`Props/C05Gen.lean` proves these equal to the hand model (`sinShape/cosShape/tanInf` + `bounds`).
So what is extracted — not transcribed by hand — is: the period each endpoint is reduced by, the
thresholds every case compares yl, yh with (as expressions in numpy_pi), the strictness of every
comparison, the order of the tests, and which endpoint expressions each case returns.

Recognised statement forms only; anything else raises Unavailable (the check then relies on the
tie alone — not an alarm).  The array variants (`*_vector`, masked assignments) are not translated.
"""
import ast, pathlib


class Unavailable(Exception):
    pass


SRC = "src/pyuncertainnumber/pba/intervals/methods.py"
FUN = {"sin": "numpy_sin", "cos": "numpy_cos", "tan": "numpy_tan"}


# ---- symbolic values --------------------------------------------------------------------------
# number : ("n", leanText)          interval : ("i", loText, hiText)       bool : ("b", leanText)
# inf    : ("inf", sign)
def _paren(t):
    return t if t.replace("_", "a").isalnum() else f"({t})"


class Sym:
    def __init__(self, fname):
        self.fname = fname
        self.env = {"numpy_pi": ("n", "p"), "numpy_inf": ("inf", 1)}
        self.period = None            # lean text of the modulus used for both endpoints
        self.red = {}                 # name -> "yl" | "yh"

    def num(self, e):
        v = self.ev(e)
        if v[0] != "n":
            raise Unavailable(f"{self.fname}: number expected: {ast.unparse(e)}")
        return v[1]

    def ev(self, e):
        if isinstance(e, ast.Constant):
            if isinstance(e.value, bool) or not isinstance(e.value, int):
                raise Unavailable(f"{self.fname}: literal {e.value!r}")
            return ("n", str(e.value))
        if isinstance(e, ast.Name):
            if e.id in self.env:
                return self.env[e.id]
            raise Unavailable(f"{self.fname}: unknown name {e.id}")
        if isinstance(e, ast.UnaryOp) and isinstance(e.op, ast.USub):
            v = self.ev(e.operand)
            if v[0] == "inf":
                return ("inf", -v[1])
            return ("n", "-" + _paren(v[1]))
        if isinstance(e, ast.UnaryOp) and isinstance(e.op, ast.Invert):
            return ("b", "¬ " + _paren(self.boolean(e.operand)))
        if isinstance(e, ast.BinOp):
            if isinstance(e.op, (ast.BitAnd, ast.BitOr)):
                op = "∧" if isinstance(e.op, ast.BitAnd) else "∨"
                return ("b", f"{_paren(self.boolean(e.left))} {op} {_paren(self.boolean(e.right))}")
            if isinstance(e.op, ast.Mod):
                # x.lo % period  /  x.hi % period
                if not (isinstance(e.left, ast.Attribute) and isinstance(e.left.value, ast.Name)
                        and e.left.value.id == "x" and e.left.attr in ("lo", "hi")):
                    raise Unavailable(f"{self.fname}: unexpected %: {ast.unparse(e)}")
                per = self.num(e.right)
                if self.period is None:
                    self.period = per
                elif self.period != per:
                    raise Unavailable(f"{self.fname}: endpoints reduced by different periods")
                return ("n", "yl" if e.left.attr == "lo" else "yh")
            ops = {ast.Mult: "*", ast.Div: "/", ast.Add: "+", ast.Sub: "-"}
            if type(e.op) in ops:
                return ("n", f"{_paren(self.num(e.left))} {ops[type(e.op)]} {_paren(self.num(e.right))}")
            raise Unavailable(f"{self.fname}: operator {ast.unparse(e)}")
        if isinstance(e, ast.Compare) and len(e.ops) == 1:
            ops = {ast.LtE: "≤", ast.Lt: "<", ast.GtE: "≥", ast.Gt: ">"}
            if type(e.ops[0]) not in ops:
                raise Unavailable(f"{self.fname}: comparison {ast.unparse(e)}")
            return ("b", f"{_paren(self.num(e.left))} {ops[type(e.ops[0])]} {_paren(self.num(e.comparators[0]))}")
        if isinstance(e, ast.Call) and isinstance(e.func, ast.Name):
            f, a = e.func.id, e.args
            if f == "Interval":
                kw = {k.arg: k.value for k in e.keywords}
                lo = a[0] if a else kw.get("lo")
                hi = a[1] if len(a) > 1 else kw.get("hi")
                if lo is None or hi is None or any(k not in ("lo", "hi", "do_heavy_checks") for k in kw):
                    raise Unavailable(f"{self.fname}: Interval call {ast.unparse(e)}")
                l, h = self.ev(lo), self.ev(hi)
                if l[0] == "inf" and h[0] == "inf" and l[1] < 0 < h[1]:
                    return ("i", None, None)
                if l[0] != "n" or h[0] != "n":
                    raise Unavailable(f"{self.fname}: Interval bounds {ast.unparse(e)}")
                return ("i", l[1], h[1])
            if f == "width" and len(a) == 1 and isinstance(a[0], ast.Name) and a[0].id == "x":
                return ("n", "w")
            if f == "contain" and len(a) == 2:
                A, B = self.ev(a[0]), self.ev(a[1])
                lo = lambda v: v[1]
                hi = lambda v: v[2] if v[0] == "i" else v[1]
                if A[0] not in "ni" or B[0] not in "ni" or None in (lo(A), hi(A), lo(B), hi(B)):
                    raise Unavailable(f"{self.fname}: contain {ast.unparse(e)}")
                # methods.contain:  (lo(x) <= lo(y)) & (hi(x) >= hi(y))
                return ("b", f"({_paren(lo(A))} ≤ {_paren(lo(B))}) ∧ ({_paren(hi(A))} ≥ {_paren(hi(B))})")
            if f in ("min", "max") and len(a) == 2:
                return ("n", f"{f} {_paren(self.num(a[0]))} {_paren(self.num(a[1]))}")
            if f in (FUN[self.fname], self.fname) and len(a) == 1:
                arg = self.num(a[0])
                if arg == "yl":
                    return ("n", "sl")
                if arg == "yh":
                    return ("n", "sh")
                raise Unavailable(f"{self.fname}: {f} of {arg}")
        raise Unavailable(f"{self.fname}: expression {ast.unparse(e)[:60]}")

    def boolean(self, e):
        v = self.ev(e)
        if v[0] != "b":
            raise Unavailable(f"{self.fname}: boolean expected: {ast.unparse(e)}")
        return v[1]


def _ret_interval(sym, st):
    if not (isinstance(st, ast.Return) and st.value is not None):
        raise Unavailable(f"{sym.fname}: return expected")
    v = sym.ev(st.value)
    if v[0] != "i":
        raise Unavailable(f"{sym.fname}: returns a non-interval")
    return v


def _is_dispatch(test):
    """`not is_Interval(x)` / `not x.scalar` — the two leading dispatch tests"""
    s = ast.unparse(test).replace(" ", "")
    return s in ("notis_Interval(x)", "not(is_Interval(x))", "notx.scalar", "not(x.scalar)")


def extract_fn(tree, fname):
    fn = next((f for f in tree.body if isinstance(f, ast.FunctionDef) and f.name == fname), None)
    if fn is None:
        raise Unavailable(f"{fname} not found")
    if [a.arg for a in fn.args.args] != ["x"]:
        raise Unavailable(f"{fname}: signature")
    sym = Sym(fname)
    chain = []        # (condition text, interval) in source order
    final = None      # unconditional interval at the end (else branch / trailing return)
    dispatch = 0
    for st in fn.body:
        if final is not None:
            raise Unavailable(f"{fname}: code after the final return")
        if isinstance(st, ast.Expr) and isinstance(st.value, ast.Constant) and isinstance(st.value.value, str):
            continue
        if isinstance(st, ast.Assign) and len(st.targets) == 1 and isinstance(st.targets[0], ast.Name):
            sym.env[st.targets[0].id] = sym.ev(st.value)
            continue
        if isinstance(st, ast.If):
            if _is_dispatch(st.test):
                dispatch += 1
                continue
            if len(st.body) != 1:
                raise Unavailable(f"{fname}: if body with {len(st.body)} statements")
            chain.append((sym.boolean(st.test), _ret_interval(sym, st.body[0])))
            if st.orelse:
                if len(st.orelse) != 1:
                    raise Unavailable(f"{fname}: else with {len(st.orelse)} statements")
                final = _ret_interval(sym, st.orelse[0])
            continue
        if isinstance(st, ast.Return):
            final = _ret_interval(sym, st)
            continue
        raise Unavailable(f"{fname}: statement {type(st).__name__}")
    if dispatch != 2:
        raise Unavailable(f"{fname}: expected the two dispatch tests, found {dispatch}")
    if sym.period is None or not chain:
        raise Unavailable(f"{fname}: no reduction / no cases")
    return sym.period, chain, final


def _lean_iv(v, tan):
    if v[1] is None:
        if not tan:
            raise Unavailable("unbounded interval outside tan")
        return "some none"
    body = f"({v[1]}, {v[2]})"
    return f"some (some {body})" if tan else f"some {body}"


def lean_def(fname, period, chain, final):
    tan = fname == "tan"
    ty = "Option (Option (Rat × Rat))" if tan else "Option (Rat × Rat)"
    lines = [f"/-- `methods.{fname}` (scalar form): endpoints reduced modulo `{period}`; {len(chain)} tests in source order -/",
             f"def {fname}Gen (p w yl yh sl sh : Rat) : {ty} :="]
    for i, (c, v) in enumerate(chain):
        lines.append(f"  {'if' if i == 0 else 'else if'} {c} then {_lean_iv(v, tan)}")
    lines.append(f"  else {_lean_iv(final, tan) if final is not None else 'none'}")
    lines.append(f"def {fname}Period (p : Rat) : Rat := {period}")
    return "\n".join(lines)


def generate(repo, out):
    path = pathlib.Path(repo) / SRC
    tree = ast.parse(path.read_text())
    defs = []
    for f in ("sin", "cos", "tan"):
        defs.append(lean_def(f, *extract_fn(tree, f)))
    txt = ("import Pun.Model.Proto\n"
           "/-! GENERATED by harness/pv/translator/trig.py from " + SRC + " (sin, cos, tan) — do not edit -/\n"
           "namespace Pun.Gen.Trig\n\n" + "\n\n".join(defs) + "\n\nend Pun.Gen.Trig\n")
    out = pathlib.Path(out)
    out.parent.mkdir(parents=True, exist_ok=True)
    if not out.exists() or out.read_text() != txt:
        out.write_text(txt)
    return txt


if __name__ == "__main__":
    import sys
    print(generate(sys.argv[1] if len(sys.argv) > 1 else "/repo", "/tmp/TrigGen.lean"))
