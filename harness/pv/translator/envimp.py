"""Translator: pba/pbox_abc.py (`Staircase.env`, `Staircase.imp`), pba/aggregation.py (`envelope`, `imposition`) and
pba/intervals/methods.py (`env`)  ->  lean/Pun/Gen/EnvImpGen.lean

ONE syntactic form is recognised per function; anything else raises `Unavailable` (recorded in the evidence under
`extraction`, not an alarm by itself — the correspondence and the oracle still run).  Docstrings and comments are ignored,
local variable names are free.

`Staircase.env(self, other)`::

    <l> = np.minimum|np.maximum(<self|other>.<left|right>, <self|other>.<left|right>)
    <r> = np.minimum|np.maximum(<self|other>.<left|right>, <self|other>.<left|right>)
    return Staircase(left=<l|r>, right=<l|r>, steps=self.steps)

extracted: the reduction and the two bound arrays it is applied to, for the `left=` and for the `right=` argument
(numpy arrays: the constructor's swap test is the array form).

`Staircase.imp(self, other)`::

    <u> = []
    <d> = []
    for <v1>, <v2>, <v3>, <v4> in zip(<who>.<side>, <who>.<side>, <who>.<side>, <who>.<side>):
        if min|max(<v>, <v>)  >|>=|<|<=  min|max(<v>, <v>):
            raise <Exc>(...)
        <u>.append(min|max(<v>, <v>))
        <d>.append(min|max(<v>, <v>))
    return Staircase(left=<u|d>, right=<u|d>)

extracted: what each loop variable is bound to (by position in the `zip`), both sides and the comparison of the crossing
test, that ONE crossing step raises (the `raise` sits inside the loop: quantifier `any`), the exception class (mapped to the
model's error kinds), the two appended reductions and which list feeds `left=` / `right=` (Python lists: the constructor's
swap test is the lexicographic list form).

`envelope(*l_uns, output_type=...)` / `imposition(*l_uns, output_type=...)` (imports, nested `def`s, docstrings aside)::

    [ if all([is_Interval(<x>) for <x> in l_uns]):            # envelope only
          <e> = functools.reduce(env, l_uns)
          return <e> ]
    def <bin>(<p1>, <p2>):
        return <p1|p2>.<env|imp>(<p1|p2>)
    <xs> = [convert(<x>) for <x> in l_uns | l_uns[<k>:]]
    <e> = functools.reduce(<bin>, <xs> | <xs>[<k>:])
    if output_type == "pbox":
        return <e>
    ... (other output types: not translated)

extracted: whether the all-Interval shortcut exists and folds `intervals.methods.env` over all operands; how many leading
operands are skipped by the conversion and by the fold; that the fold is `functools.reduce` WITHOUT an initial value (left
fold started at the first operand); which method the binary step calls and on which argument (receiver = accumulated value or
new operand).

`intervals.methods.env(x, y)`::

    [ if all([is_not_Interval(x), is_not_Interval(y)]): return ... ]      # non-interval branch: not translated
    a = numpy.min|numpy.max((lo|hi(x|y), lo|hi(x|y)), axis=0)
    b = numpy.min|numpy.max((lo|hi(x|y), lo|hi(x|y)), axis=0)
    return Interval(a|b, a|b)

The generated file contains the extracted choices as constants of small finite enums and a fixed interpreter over them;
`Props/C11Gen.lean` proves the interpreter on these constants equal to the hand model.
"""
import ast, pathlib


class Unavailable(Exception):
    pass


def _body(fn):
    """statements without docstring"""
    b = list(fn.body)
    if b and isinstance(b[0], ast.Expr) and isinstance(b[0].value, ast.Constant) and isinstance(b[0].value.value, str):
        b = b[1:]
    return b


def _find_method(tree, cls, name):
    for c in tree.body:
        if isinstance(c, ast.ClassDef) and c.name == cls:
            for f in c.body:
                if isinstance(f, ast.FunctionDef) and f.name == name:
                    return f
    return None


def _find_fn(tree, name):
    return next((f for f in tree.body if isinstance(f, ast.FunctionDef) and f.name == name), None)


def _attr(e, a, b):
    """<a|b>.<left|right>  ->  (who, side)"""
    if isinstance(e, ast.Attribute) and isinstance(e.value, ast.Name) and e.value.id in (a, b) and e.attr in ("left", "right"):
        return ("self" if e.value.id == a else "other", e.attr)
    raise Unavailable(f"not a bound array: {ast.unparse(e)[:50]}")


def _np_red(e):
    if isinstance(e, ast.Call) and isinstance(e.func, ast.Attribute) and isinstance(e.func.value, ast.Name) \
            and e.func.value.id in ("np", "numpy") and e.func.attr in ("minimum", "maximum") and len(e.args) == 2 and not e.keywords:
        return {"minimum": "min", "maximum": "max"}[e.func.attr], e.args
    raise Unavailable(f"not np.minimum / np.maximum of two arrays: {ast.unparse(e)[:60]}")


def _kw(call, names):
    if not (isinstance(call, ast.Call) and isinstance(call.func, ast.Name) and call.func.id == "Staircase" and not call.args):
        raise Unavailable("result is not Staircase(<keywords>)")
    kws = {k.arg: k.value for k in call.keywords}
    if set(kws) != set(names):
        raise Unavailable(f"Staircase keywords {sorted(kws)}")
    return kws


def extract_env(tree):
    fn = _find_method(tree, "Staircase", "env") or _find_method(tree, "Pbox", "env")
    if fn is None:
        raise Unavailable("env method not found")
    args = [a.arg for a in fn.args.args]
    if len(args) != 2:
        raise Unavailable(f"env signature {args}")
    me, ot = args
    b = _body(fn)
    if len(b) != 3 or not all(isinstance(s, ast.Assign) and len(s.targets) == 1 and isinstance(s.targets[0], ast.Name) for s in b[:2]) \
            or not isinstance(b[2], ast.Return):
        raise Unavailable("env body is not  <l> = ...; <r> = ...; return Staircase(...)")
    terms = {}
    for s in b[:2]:
        red, (x, y) = _np_red(s.value)
        terms[s.targets[0].id] = (red, _attr(x, me, ot), _attr(y, me, ot))
    kws = _kw(b[2].value, ("left", "right", "steps"))
    if ast.unparse(kws["steps"]) != f"{me}.steps":
        raise Unavailable("steps argument")
    out = {}
    for side in ("left", "right"):
        v = kws[side]
        if not (isinstance(v, ast.Name) and v.id in terms):
            raise Unavailable(f"{side}= is not one of the two computed arrays")
        out[side] = terms[v.id]
    return out


_CMP = {ast.Gt: "gt", ast.GtE: "ge", ast.Lt: "lt", ast.LtE: "le"}
_ERR = {"Exception": "Other", "ValueError": "Value", "TypeError": "Type", "AssertionError": "Assertion", "IndexError": "Index",
        "ZeroDivisionError": "ZeroDivision", "AttributeError": "Attribute", "RuntimeError": "Other", "ArithmeticError": "Other"}


def extract_imp(tree):
    fn = _find_method(tree, "Staircase", "imp") or _find_method(tree, "Pbox", "imp")
    if fn is None:
        raise Unavailable("imp method not found")
    args = [a.arg for a in fn.args.args]
    if len(args) != 2:
        raise Unavailable(f"imp signature {args}")
    me, ot = args
    b = _body(fn)
    if len(b) != 4:
        raise Unavailable("imp body is not  u = []; d = []; for ...; return Staircase(...)")
    lists = []
    for s in b[:2]:
        if not (isinstance(s, ast.Assign) and len(s.targets) == 1 and isinstance(s.targets[0], ast.Name)
                and isinstance(s.value, ast.List) and not s.value.elts):
            raise Unavailable("imp does not start with two empty lists")
        lists.append(s.targets[0].id)
    loop, ret = b[2], b[3]
    if not (isinstance(loop, ast.For) and not loop.orelse and isinstance(loop.target, ast.Tuple)
            and all(isinstance(t, ast.Name) for t in loop.target.elts) and len(loop.target.elts) == 4
            and isinstance(loop.iter, ast.Call) and isinstance(loop.iter.func, ast.Name) and loop.iter.func.id == "zip"
            and len(loop.iter.args) == 4 and not loop.iter.keywords):
        raise Unavailable("imp loop is not  for a, b, c, d in zip(4 bound arrays)")
    bind = {t.id: _attr(e, me, ot) for t, e in zip(loop.target.elts, loop.iter.args)}
    if len(bind) != 4:
        raise Unavailable("loop variables are not distinct")

    def red(e):
        if isinstance(e, ast.Call) and isinstance(e.func, ast.Name) and e.func.id in ("min", "max") and len(e.args) == 2 \
                and not e.keywords and all(isinstance(a, ast.Name) and a.id in bind for a in e.args):
            return (e.func.id, bind[e.args[0].id], bind[e.args[1].id])
        raise Unavailable(f"not min / max of two loop variables: {ast.unparse(e)[:50]}")

    lb = loop.body
    if len(lb) != 3 or not isinstance(lb[0], ast.If) or lb[0].orelse or len(lb[0].body) != 1 or not isinstance(lb[0].body[0], ast.Raise):
        raise Unavailable("loop body is not  if <crossing>: raise ...; u.append(...); d.append(...)")
    t = lb[0].test
    if not (isinstance(t, ast.Compare) and len(t.ops) == 1 and type(t.ops[0]) in _CMP):
        raise Unavailable("crossing test is not a single comparison")
    exc = lb[0].body[0].exc
    nm = exc.func.id if isinstance(exc, ast.Call) and isinstance(exc.func, ast.Name) else (exc.id if isinstance(exc, ast.Name) else None)
    if nm not in _ERR:
        raise Unavailable(f"raises {nm}")
    app = {}
    for s in lb[1:]:
        c = s.value if isinstance(s, ast.Expr) else None
        if not (isinstance(c, ast.Call) and isinstance(c.func, ast.Attribute) and c.func.attr == "append"
                and isinstance(c.func.value, ast.Name) and c.func.value.id in lists and len(c.args) == 1):
            raise Unavailable("loop body does not append to the two lists")
        if c.func.value.id in app:
            raise Unavailable("a list is appended twice")
        app[c.func.value.id] = red(c.args[0])
    if not isinstance(ret, ast.Return):
        raise Unavailable("imp does not end with return")
    kws = _kw(ret.value, ("left", "right"))
    out = {"guardL": red(t.left), "cmp": _CMP[type(t.ops[0])], "guardR": red(t.comparators[0]), "quant": "any", "err": _ERR[nm], "exc": nm}
    for side in ("left", "right"):
        v = kws[side]
        if not (isinstance(v, ast.Name) and v.id in app):
            raise Unavailable(f"{side}= is not one of the two lists")
        out[side] = app[v.id]
    return out


def _slice_skip(e, base):
    """<base> -> 0 ; <base>[k:] -> k"""
    if isinstance(e, ast.Name) and e.id == base:
        return 0
    if isinstance(e, ast.Subscript) and isinstance(e.value, ast.Name) and e.value.id == base and isinstance(e.slice, ast.Slice) \
            and e.slice.upper is None and e.slice.step is None and isinstance(e.slice.lower, ast.Constant) \
            and isinstance(e.slice.lower.value, int) and e.slice.lower.value >= 0:
        return e.slice.lower.value
    raise Unavailable(f"not {base} or {base}[k:]: {ast.unparse(e)[:40]}")


def _is_reduce(e):
    return isinstance(e, ast.Call) and ast.unparse(e.func) in ("functools.reduce", "reduce") and len(e.args) == 2 and not e.keywords


def extract_nary(tree, name, shortcut_allowed):
    fn = _find_fn(tree, name)
    if fn is None:
        raise Unavailable(f"{name} not found")
    if fn.args.vararg is None or fn.args.args:
        raise Unavailable(f"{name} signature")
    ops = fn.args.vararg.arg
    b = [s for s in _body(fn) if not isinstance(s, (ast.Import, ast.ImportFrom))]
    out = {"shortcut": False}
    i = 0
    if isinstance(b[0], ast.If):
        if not shortcut_allowed:
            raise Unavailable(f"{name} starts with a branch")
        s = b[0]
        want = f"all([is_Interval(X) for X in {ops}])"
        t = s.test
        ok = (isinstance(t, ast.Call) and isinstance(t.func, ast.Name) and t.func.id == "all" and len(t.args) == 1
              and isinstance(t.args[0], (ast.ListComp, ast.GeneratorExp)) and len(t.args[0].generators) == 1)
        if ok:
            g = t.args[0].generators[0]
            el = t.args[0].elt
            ok = (isinstance(g.target, ast.Name) and not g.ifs and isinstance(g.iter, ast.Name) and g.iter.id == ops
                  and isinstance(el, ast.Call) and isinstance(el.func, ast.Name) and el.func.id == "is_Interval"
                  and len(el.args) == 1 and isinstance(el.args[0], ast.Name) and el.args[0].id == g.target.id)
        if not ok or s.orelse or len(s.body) != 2:
            raise Unavailable(f"shortcut is not  if {want}: e = functools.reduce(env, {ops}); return e")
        a, r = s.body
        if not (isinstance(a, ast.Assign) and len(a.targets) == 1 and isinstance(a.targets[0], ast.Name) and _is_reduce(a.value)
                and isinstance(a.value.args[0], ast.Name) and a.value.args[0].id == "env"
                and _slice_skip(a.value.args[1], ops) == 0
                and isinstance(r, ast.Return) and isinstance(r.value, ast.Name) and r.value.id == a.targets[0].id):
            raise Unavailable("shortcut body")
        out["shortcut"] = True
        i = 1
    rest = b[i:]
    if len(rest) < 4 or not isinstance(rest[0], ast.FunctionDef):
        raise Unavailable(f"{name}: binary step not found")
    bf = rest[0]
    pa = [a.arg for a in bf.args.args]
    bb = _body(bf)
    if len(pa) != 2 or len(bb) != 1 or not isinstance(bb[0], ast.Return):
        raise Unavailable("binary step is not  def f(p1, p2): return p1.<m>(p2)")
    c = bb[0].value
    if not (isinstance(c, ast.Call) and isinstance(c.func, ast.Attribute) and isinstance(c.func.value, ast.Name)
            and c.func.value.id in pa and c.func.attr in ("env", "imp") and len(c.args) == 1 and not c.keywords
            and isinstance(c.args[0], ast.Name) and c.args[0].id in pa and c.args[0].id != c.func.value.id):
        raise Unavailable("binary step is not  p1.<env|imp>(p2)")
    out["method"] = c.func.attr
    out["receiver_acc"] = (c.func.value.id == pa[0])
    conv, fold, test = rest[1], rest[2], rest[3]
    if not (isinstance(conv, ast.Assign) and len(conv.targets) == 1 and isinstance(conv.targets[0], ast.Name)
            and isinstance(conv.value, ast.ListComp) and len(conv.value.generators) == 1):
        raise Unavailable("conversion is not  xs = [convert(x) for x in operands]")
    g, el = conv.value.generators[0], conv.value.elt
    if not (isinstance(g.target, ast.Name) and not g.ifs and isinstance(el, ast.Call) and isinstance(el.func, ast.Name)
            and el.func.id == "convert" and len(el.args) == 1 and isinstance(el.args[0], ast.Name) and el.args[0].id == g.target.id):
        raise Unavailable("conversion element is not convert(x)")
    out["conv_skip"] = _slice_skip(g.iter, ops)
    xs = conv.targets[0].id
    if not (isinstance(fold, ast.Assign) and len(fold.targets) == 1 and isinstance(fold.targets[0], ast.Name) and _is_reduce(fold.value)
            and isinstance(fold.value.args[0], ast.Name) and fold.value.args[0].id == bf.name):
        raise Unavailable("fold is not  e = functools.reduce(<binary step>, xs)  (no initial value)")
    out["fold_skip"] = _slice_skip(fold.value.args[1], xs)
    res = fold.targets[0].id
    if not (isinstance(test, ast.If) and ast.unparse(test.test).replace("'", '"') == 'output_type == "pbox"' and len(test.body) == 1
            and isinstance(test.body[0], ast.Return) and isinstance(test.body[0].value, ast.Name) and test.body[0].value.id == res):
        raise Unavailable('not  if output_type == "pbox": return <fold result>')
    return out


def extract_hull(tree):
    fn = _find_fn(tree, "env")
    if fn is None:
        raise Unavailable("intervals.methods.env not found")
    pa = [a.arg for a in fn.args.args]
    if len(pa) != 2:
        raise Unavailable("methods.env signature")
    b = _body(fn)
    if b and isinstance(b[0], ast.If) and "is_not_Interval" in ast.unparse(b[0].test) and not b[0].orelse:
        b = b[1:]
    if len(b) != 3:
        raise Unavailable("methods.env body")
    terms = {}
    for s in b[:2]:
        if not (isinstance(s, ast.Assign) and len(s.targets) == 1 and isinstance(s.targets[0], ast.Name)):
            raise Unavailable("methods.env assignment")
        c = s.value
        if not (isinstance(c, ast.Call) and ast.unparse(c.func) in ("numpy.min", "numpy.max", "np.min", "np.max") and len(c.args) == 1
                and isinstance(c.args[0], ast.Tuple) and len(c.args[0].elts) == 2
                and [(k.arg, ast.unparse(k.value)) for k in c.keywords] == [("axis", "0")]):
            raise Unavailable("methods.env reduction is not numpy.min|max((.., ..), axis=0)")
        ends = []
        for e in c.args[0].elts:
            if not (isinstance(e, ast.Call) and isinstance(e.func, ast.Name) and e.func.id in ("lo", "hi") and len(e.args) == 1
                    and isinstance(e.args[0], ast.Name) and e.args[0].id in pa):
                raise Unavailable("methods.env operand is not lo|hi(x|y)")
            ends.append(("self" if e.args[0].id == pa[0] else "other", "left" if e.func.id == "lo" else "right"))
        terms[s.targets[0].id] = (c.func.attr, ends[0], ends[1])
    r = b[2]
    if not (isinstance(r, ast.Return) and isinstance(r.value, ast.Call) and isinstance(r.value.func, ast.Name) and r.value.func.id == "Interval"
            and len(r.value.args) == 2 and not r.value.keywords and all(isinstance(a, ast.Name) and a.id in terms for a in r.value.args)):
        raise Unavailable("methods.env does not return Interval(a, b)")
    return {"left": terms[r.value.args[0].id], "right": terms[r.value.args[1].id]}


def extract(repo):
    src = pathlib.Path(repo) / "src/pyuncertainnumber/pba"
    import warnings
    with warnings.catch_warnings():
        warnings.simplefilter("ignore")         # invalid escape sequences in the library's docstrings
        pb = ast.parse((src / "pbox_abc.py").read_text())
        ag = ast.parse((src / "aggregation.py").read_text())
        im = ast.parse((src / "intervals/methods.py").read_text())
    return {"env": extract_env(pb), "imp": extract_imp(pb), "envelope": extract_nary(ag, "envelope", True),
            "imposition": extract_nary(ag, "imposition", False), "hull": extract_hull(im)}


def _term(t):
    red, a, b = t
    return f"⟨.{red}, .{a[0]}, .{a[1]}, .{b[0]}, .{b[1]}⟩"


def _nary(n):
    return (f"⟨{'true' if n['shortcut'] else 'false'}, {n['conv_skip']}, {n['fold_skip']}, .{n['method']}, "
            f"{'true' if n['receiver_acc'] else 'false'}⟩")


INTERP = '''
/-! ## fixed interpreter of the extracted choices (not generated from the source; the constants above are) -/

def Red.ap : Red → Rat → Rat → Rat
  | .min => fun a b => Min.min a b
  | .max => fun a b => Max.max a b

def pick (w : Who) (s : Side) (x y : PB) : List Rat :=
  match w, s with
  | .self, .left => x.left
  | .self, .right => x.right
  | .other, .left => y.left
  | .other, .right => y.right

/-- elementwise reduction of two bound arrays of the operands (`self` = x, `other` = y) -/
def Term.ap (t : Term) (x y : PB) : List Rat := List.zipWith t.red.ap (pick t.w1 t.s1 x y) (pick t.w2 t.s2 x y)

def Cmp.ap : Cmp → Rat → Rat → Bool
  | .gt, a, b => decide (a > b)
  | .ge, a, b => decide (a ≥ b)
  | .lt, a, b => decide (a < b)
  | .le, a, b => decide (a ≤ b)

/-- `Staircase.env` as extracted: `Staircase(left=…, right=…)` of two numpy arrays -/
def envGen (steps : Nat) (x y : PB) : Except Err PB :=
  mk steps false (envLeft.ap x y) (envRight.ap x y)

/-- `Staircase.imp` as extracted: one crossing step raises; `Staircase(left=…, right=…)` of two Python lists -/
def impGen (steps : Nat) (x y : PB) : Except Err PB :=
  let pairs := (impGuardL.ap x y).zip (impGuardR.ap x y)
  let hit := fun (p : Rat × Rat) => impCmp.ap p.1 p.2
  let crossing := match impQuant with
    | .any => pairs.any hit
    | .all => pairs.all hit
  if crossing then .error impErr else mk steps true (impLeft.ap x y) (impRight.ap x y)

def Meth.ap : Meth → Nat → PB → PB → Except Err PB
  | .env => envGen
  | .imp => impGen

/-- the binary step `def f(p1, p2): return p1.m(p2)` (or `p2.m(p1)`) -/
def NAry.step (c : NAry) (steps : Nat) (acc new : PB) : Except Err PB :=
  if c.receiverAcc then c.meth.ap steps acc new else c.meth.ap steps new acc

/-- `[convert(x) for x in operands[k:]]` then `functools.reduce(step, xs[j:])` (no initial value) -/
def NAry.run (c : NAry) (steps : Nat) (l : List Opnd) : Except Err PB := do
  let xs ← convertAll steps (l.drop c.convSkip)
  reduceM (c.step steps) (xs.drop c.foldSkip)

/-- `intervals.methods.env` as extracted, on `(lo, hi)` pairs; the `Interval` constructor asserts `lo ≤ hi` -/
def hullGen (x y : Rat × Rat) : Except Err (Rat × Rat) :=
  let X : PB := ⟨[x.1], [x.2]⟩
  let Y : PB := ⟨[y.1], [y.2]⟩
  match hullLo.ap X Y, hullHi.ap X Y with
  | [a], [b] => if a ≤ b then .ok (a, b) else .error .Assertion
  | _, _ => .error .Other

def envelopeGen (steps : Nat) (l : List Opnd) : Except Err Res :=
  if envelopeCfg.shortcut && l.all Opnd.isIvl then do
    let e ← reduceM hullGen (ivlEnds l)
    .ok (.ivl e.1 e.2)
  else do
    let e ← envelopeCfg.run steps l
    .ok (.pb e)

def impositionGen (steps : Nat) (l : List Opnd) : Except Err PB := impositionCfg.run steps l
'''


def render(res):
    L = ["import Pun.Model.EnvImp",
         "/-! GENERATED by harness/pv/translator/envimp.py from src/pyuncertainnumber/pba/pbox_abc.py (Staircase.env, Staircase.imp), "
         "pba/aggregation.py (envelope, imposition) and pba/intervals/methods.py (env) — do not edit -/",
         "namespace Pun.Gen.EnvImp",
         "open Pun Pun.PBox Pun.EnvImp",
         "",
         "inductive Red where | min | max deriving DecidableEq, Repr",
         "inductive Side where | left | right deriving DecidableEq, Repr",
         "inductive Who where | self | other deriving DecidableEq, Repr",
         "inductive Cmp where | gt | ge | lt | le deriving DecidableEq, Repr",
         "inductive Quant where | any | all deriving DecidableEq, Repr",
         "inductive Meth where | env | imp deriving DecidableEq, Repr",
         "/-- `red(w1.s1, w2.s2)` -/",
         "structure Term where",
         "  red : Red",
         "  w1 : Who",
         "  s1 : Side",
         "  w2 : Who",
         "  s2 : Side",
         "  deriving DecidableEq, Repr",
         "/-- n-ary function: all-Interval shortcut present, operands skipped by the conversion, converted operands skipped by the",
         "fold, method of the binary step, receiver is the accumulated value -/",
         "structure NAry where",
         "  shortcut : Bool",
         "  convSkip : Nat",
         "  foldSkip : Nat",
         "  meth : Meth",
         "  receiverAcc : Bool",
         "  deriving DecidableEq, Repr",
         "",
         "/-! ## extracted from the source -/",
         "",
         f"def envLeft : Term := {_term(res['env']['left'])}",
         f"def envRight : Term := {_term(res['env']['right'])}",
         f"def impGuardL : Term := {_term(res['imp']['guardL'])}",
         f"def impCmp : Cmp := .{res['imp']['cmp']}",
         f"def impGuardR : Term := {_term(res['imp']['guardR'])}",
         f"def impQuant : Quant := .{res['imp']['quant']}",
         f"/-- `raise {res['imp']['exc']}(...)` -/",
         f"def impErr : Err := .{res['imp']['err']}",
         f"def impLeft : Term := {_term(res['imp']['left'])}",
         f"def impRight : Term := {_term(res['imp']['right'])}",
         f"def envelopeCfg : NAry := {_nary(res['envelope'])}",
         f"def impositionCfg : NAry := {_nary(res['imposition'])}",
         f"def hullLo : Term := {_term(res['hull']['left'])}",
         f"def hullHi : Term := {_term(res['hull']['right'])}",
         INTERP.rstrip("\n"),
         "",
         "end Pun.Gen.EnvImp"]
    return "\n".join(L) + "\n"


def generate(repo, out):
    res = extract(repo)
    txt = render(res)
    out = pathlib.Path(out)
    if not out.exists() or out.read_text() != txt:
        out.parent.mkdir(parents=True, exist_ok=True)
        out.write_text(txt)
    return res


if __name__ == "__main__":
    import sys, json
    print(json.dumps(extract(sys.argv[1] if len(sys.argv) > 1 else "/repo"), indent=1))
