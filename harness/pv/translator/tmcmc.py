"""Translator: calibration/tmcmc.py::compute_beta_update_evidence -> lean/Pun/Gen/TmcmcGen.lean

Recognised forms only (anything else raises Unavailable -> extraction unavailable, no alarm):
  max_beta = <num>
  rN = max(<num> * prev_ESS, <num>)
  while max_beta - min_beta > <num>:
      new_beta = <num> * (max_beta + min_beta)
      if ESS == rN: break / elif ESS < rN: max_beta = new_beta / else: min_beta = new_beta
  if new_beta >= <num>: new_beta = <num>
Numbers are taken from the source text (decimal literals become exact rationals: 0.95 -> 19/20).
"""
import ast, pathlib
from fractions import Fraction


class Unavailable(Exception):
    pass


def _num(src, e):
    if isinstance(e, ast.Constant) and isinstance(e.value, (int, float)) and not isinstance(e.value, bool):
        seg = ast.get_source_segment(src, e)
        try:
            return Fraction(seg.replace("_", ""))
        except Exception:
            raise Unavailable(f"literal {seg!r}")
    raise Unavailable("not a numeric literal: " + ast.dump(e)[:60])


def _is(e, name):
    return isinstance(e, ast.Name) and e.id == name


def extract(repo):
    path = pathlib.Path(repo) / "src/pyuncertainnumber/calibration/tmcmc.py"
    src = path.read_text()
    tree = ast.parse(src)
    fn = next((n for n in ast.walk(tree) if isinstance(n, ast.FunctionDef) and n.name == "compute_beta_update_evidence"), None)
    if fn is None:
        raise Unavailable("compute_beta_update_evidence not found")
    out = {}
    for st in fn.body:
        if isinstance(st, ast.Assign) and len(st.targets) == 1 and _is(st.targets[0], "max_beta"):
            out["maxBeta"] = _num(src, st.value)
        if isinstance(st, ast.Assign) and len(st.targets) == 1 and _is(st.targets[0], "rN"):
            v = st.value
            if not (isinstance(v, ast.Call) and _is(v.func, "max") and len(v.args) == 2):
                raise Unavailable("rN is not max(a*prev_ESS, b)")
            m = v.args[0]
            if not (isinstance(m, ast.BinOp) and isinstance(m.op, ast.Mult) and _is(m.right, "prev_ESS")):
                raise Unavailable("rN first argument")
            out["frac"] = _num(src, m.left)
            out["floor"] = _num(src, v.args[1])
        if isinstance(st, ast.While):
            t = st.test
            if not (isinstance(t, ast.Compare) and len(t.ops) == 1 and isinstance(t.ops[0], ast.Gt)
                    and isinstance(t.left, ast.BinOp) and isinstance(t.left.op, ast.Sub)
                    and _is(t.left.left, "max_beta") and _is(t.left.right, "min_beta")):
                raise Unavailable("while test")
            out["tol"] = _num(src, t.comparators[0])
            for s2 in st.body:
                if isinstance(s2, ast.Assign) and _is(s2.targets[0], "new_beta"):
                    v = s2.value
                    if not (isinstance(v, ast.BinOp) and isinstance(v.op, ast.Mult) and isinstance(v.right, ast.BinOp)
                            and isinstance(v.right.op, ast.Add) and _is(v.right.left, "max_beta") and _is(v.right.right, "min_beta")):
                        raise Unavailable("midpoint expression")
                    out["half"] = _num(src, v.left)
                if isinstance(s2, ast.If):
                    # if ESS == rN: break / elif ESS < rN: max_beta = new_beta / else: min_beta = new_beta
                    t2 = s2.test
                    ok = (isinstance(t2, ast.Compare) and isinstance(t2.ops[0], ast.Eq) and _is(t2.left, "ESS") and _is(t2.comparators[0], "rN")
                          and len(s2.body) == 1 and isinstance(s2.body[0], ast.Break) and len(s2.orelse) == 1 and isinstance(s2.orelse[0], ast.If))
                    if ok:
                        s3 = s2.orelse[0]
                        t3 = s3.test
                        ok = (isinstance(t3, ast.Compare) and isinstance(t3.ops[0], ast.Lt) and _is(t3.left, "ESS") and _is(t3.comparators[0], "rN")
                              and len(s3.body) == 1 and isinstance(s3.body[0], ast.Assign) and _is(s3.body[0].targets[0], "max_beta")
                              and _is(s3.body[0].value, "new_beta") and len(s3.orelse) == 1 and isinstance(s3.orelse[0], ast.Assign)
                              and _is(s3.orelse[0].targets[0], "min_beta") and _is(s3.orelse[0].value, "new_beta"))
                    if not ok:
                        raise Unavailable("branch structure of the bisection")
                    out["branches"] = True
        if isinstance(st, ast.If) and isinstance(st.test, ast.Compare) and _is(st.test.left, "new_beta"):
            if not isinstance(st.test.ops[0], ast.GtE):
                raise Unavailable("clamp comparison")
            out["clampAt"] = _num(src, st.test.comparators[0])
            a = st.body[0]
            if not (isinstance(a, ast.Assign) and _is(a.targets[0], "new_beta")):
                raise Unavailable("clamp assignment")
            out["clampTo"] = _num(src, a.value)
    need = ["maxBeta", "frac", "floor", "tol", "half", "clampAt", "clampTo", "branches"]
    miss = [k for k in need if k not in out]
    if miss:
        raise Unavailable("not found: " + ",".join(miss))
    return out


def _r(f: Fraction) -> str:
    return f"({f.numerator} : Rat)" if f.denominator == 1 else f"(({f.numerator} : Rat) / {f.denominator})"


def generate(repo, out_path):
    c = extract(repo)
    txt = f"""import Pun.Model.Tmcmc
/-! GENERATED by harness/pv/translator/tmcmc.py from calibration/tmcmc.py — do not edit -/
namespace Pun.Gen

/-- `max_beta`, the factor of `prev_ESS`, the floor of `rN`, the `while` tolerance -/
def tmcmcConsts : Pun.Tmcmc.Consts := ⟨{_r(c['maxBeta'])}, {_r(c['frac'])}, {_r(c['floor'])}, {_r(c['tol'])}⟩
/-- `new_beta = tmcmcHalf * (max_beta + min_beta)` -/
def tmcmcHalf : Rat := {_r(c['half'])}
/-- `if new_beta >= tmcmcClampAt: new_beta = tmcmcClampTo` -/
def tmcmcClampAt : Rat := {_r(c['clampAt'])}
def tmcmcClampTo : Rat := {_r(c['clampTo'])}

end Pun.Gen
"""
    p = pathlib.Path(out_path)
    p.parent.mkdir(parents=True, exist_ok=True)
    if not p.exists() or p.read_text() != txt:
        p.write_text(txt)
    return "ok: constants " + ", ".join(f"{k}={c[k]}" for k in ("maxBeta", "frac", "floor", "tol", "half", "clampAt", "clampTo"))
